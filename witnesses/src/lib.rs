//! Type-level witnesses (R-TYPE) for C11-O1 / C12-T1: each `compile_fail,E0xxx` doctest is paired with a compiling twin
//! that differs only in the offending line, so a witness cannot pass because of a wrong path or a missing import.
//! Run with `cargo +nightly test --doc` (the error codes are only checked on nightly).

/// The writer half of a staging buffer cannot be duplicated (one producer per buffer).
/// ```compile_fail,E0599
/// use bigtools::utils::file::tempfilebuffer::TempFileBuffer;
/// let (_buf, writer) = TempFileBuffer::<std::fs::File>::new(true);
/// let _second = writer.clone(); // no `Clone` for TempFileBufferWriter
/// ```
/// twin:
/// ```
/// use bigtools::utils::file::tempfilebuffer::TempFileBuffer;
/// let (_buf, writer) = TempFileBuffer::<std::fs::File>::new(true);
/// let _second = writer;
/// ```
pub struct WriterNotClone;

/// The consumer half cannot be duplicated either.
/// ```compile_fail,E0599
/// use bigtools::utils::file::tempfilebuffer::TempFileBuffer;
/// let (buf, _writer) = TempFileBuffer::<std::fs::File>::new(true);
/// let _second = buf.clone(); // no `Clone` for TempFileBuffer
/// ```
/// twin:
/// ```
/// use bigtools::utils::file::tempfilebuffer::TempFileBuffer;
/// let (buf, _writer) = TempFileBuffer::<std::fs::File>::new(true);
/// let _second = buf;
/// ```
pub struct BufferNotClone;

/// `await_real_file` consumes the buffer: no second await and no switch afterwards.
/// ```compile_fail,E0382
/// use bigtools::utils::file::tempfilebuffer::TempFileBuffer;
/// let (mut buf, writer) = TempFileBuffer::<Vec<u8>>::new(true);
/// buf.switch(Vec::new());
/// drop(writer);
/// let _dest = buf.await_real_file();
/// buf.switch(Vec::new()); // use of moved value: `buf`
/// ```
/// twin:
/// ```
/// use bigtools::utils::file::tempfilebuffer::TempFileBuffer;
/// let (mut buf, writer) = TempFileBuffer::<Vec<u8>>::new(true);
/// buf.switch(Vec::new());
/// drop(writer);
/// let _dest = buf.await_real_file();
/// ```
pub struct AwaitConsumes;

/// The destination is moved into `switch`: one chromosome at a time holds the real file.
/// ```compile_fail,E0382
/// use bigtools::utils::file::tempfilebuffer::TempFileBuffer;
/// let (mut a, _wa) = TempFileBuffer::<Vec<u8>>::new(true);
/// let (mut b, _wb) = TempFileBuffer::<Vec<u8>>::new(true);
/// let file: Vec<u8> = Vec::new();
/// a.switch(file);
/// b.switch(file); // use of moved value: `file`
/// ```
/// twin:
/// ```
/// use bigtools::utils::file::tempfilebuffer::TempFileBuffer;
/// let (mut a, _wa) = TempFileBuffer::<Vec<u8>>::new(true);
/// let (mut _b, _wb) = TempFileBuffer::<Vec<u8>>::new(true);
/// let file: Vec<u8> = Vec::new();
/// a.switch(file);
/// ```
pub struct DestinationMoved;

/// `expect_closed_write` consumes the buffer as well.
/// ```compile_fail,E0382
/// use bigtools::utils::file::tempfilebuffer::TempFileBuffer;
/// let (buf, writer) = TempFileBuffer::<Vec<u8>>::new(true);
/// drop(writer);
/// let mut out: Vec<u8> = Vec::new();
/// buf.expect_closed_write(&mut out).unwrap();
/// buf.expect_closed_write(&mut out).unwrap(); // use of moved value: `buf`
/// ```
/// twin:
/// ```
/// use bigtools::utils::file::tempfilebuffer::TempFileBuffer;
/// let (buf, writer) = TempFileBuffer::<Vec<u8>>::new(true);
/// drop(writer);
/// let mut out: Vec<u8> = Vec::new();
/// buf.expect_closed_write(&mut out).unwrap();
/// ```
pub struct ClosedWriteConsumes;
