#!/bin/sh
# Build the fact extractors offline from files on disk only.
set -e
cd "$(dirname "$0")"
export CARGO_NET_OFFLINE=true
(cd tools/bt-ast && cargo build --release --offline)
if [ -d tools/bt-mir ]; then (cd tools/bt-mir && cargo +nightly build --release --offline); fi
echo setup ok
