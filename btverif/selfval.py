"""Thorough tier: checker self-validation (mutants must be killed by the tagged obligations, benign edits must stay silent).
A failure here means the CHECK is broken, which is reported as a violation of the obligation `SELF-*` (fail closed)."""
from __future__ import annotations
import json, os, re, subprocess, sys, tempfile, shutil
from .report import Ob

VERIF = os.path.dirname(os.path.dirname(os.path.abspath(__file__)))


def _scratch(repo):
    d = tempfile.mkdtemp(prefix="btverif-self-")
    subprocess.run(["rsync", "-a", "--exclude", "target", "--exclude", ".git", repo + "/", d + "/"], check=True)
    return d


def _run_check(prop, repo, out):
    c = subprocess.run([os.path.join(VERIF, "check"), prop, "--repo", repo, "--outroot", out, "--tier", "quick"], capture_output=True, text=True)
    fired = set(re.findall(r"^\s+\[FAIL\]\s+(\S+)", c.stdout, re.M))
    return c.returncode, fired, c.stdout


def make_obligations(prop):
    def mutants(ctx, res):
        n = 0
        for mdir in ("selftest/mutants", "seeded"):
            mf = os.path.join(VERIF, mdir, "meta.json")
            if not os.path.exists(mf):
                continue
            meta = json.load(open(mf))
            for name, m in sorted(meta.items()):
                if prop not in m.get("expect", {}):
                    continue
                patch = os.path.join(VERIF, mdir, m.get("patch", name + ".patch"))
                d = _scratch(ctx.repo)
                out = tempfile.mkdtemp(prefix="btverif-out-")
                try:
                    r = subprocess.run(["git", "apply", "--whitespace=nowarn", patch], cwd=d, capture_output=True, text=True)
                    if r.returncode != 0:
                        res.note("mutant %s does not apply to this tree (skipped): %s" % (name, r.stderr.strip()[:100]))
                        continue
                    n += 1
                    rc, fired, _ = _run_check(prop, d, out)
                    want = m["expect"][prop]
                    if rc != 1 or any(o not in fired for o in want):
                        res.fail("mutant/%s" % name, os.path.join(mdir, m.get("patch", name + ".patch")),
                                 "CHECK BROKEN: mutant `%s` (%s) is not reported: rc=%d fired=%s expected=%s" % (name, m.get("origin", m.get("summary", ""))[:80], rc, sorted(fired), want))
                    else:
                        res.ok(os.path.join(mdir, m.get("patch", name + ".patch")), "mutant %s killed by %s" % (name, sorted(fired)))
                finally:
                    shutil.rmtree(d, ignore_errors=True)
                    shutil.rmtree(out, ignore_errors=True)
        res.count("mutants_run", n)
        ctx.extra_coverage["mutants_run"] = n

    def benign(ctx, res):
        """the behaviour-preserving edits that touch a file this property is anchored in (or were written for it) are applied one by one to a
        scratch copy; the check must stay silent.  (selftest/run_benign.py runs every edit against every property.)"""
        from concurrent.futures import ThreadPoolExecutor
        bdir = os.path.join(VERIF, "selftest", "benign")
        meta = json.load(open(os.path.join(bdir, "meta.json")))
        anchors = set()
        for l in open(os.path.join(VERIF, "properties.jsonl")):
            d_ = json.loads(l)
            if d_["id"] == prop:
                anchors = set(d_.get("anchors", {}).get("files", []))

        def relevant(name):
            if ("-%s-" % prop) in name:
                return True
            try:
                files = set(re.findall(r"^\+\+\+ b/(\S+)", open(os.path.join(bdir, name + ".patch")).read(), re.M))
            except OSError:
                return False
            return bool(files & anchors)

        def one(name):
            d = _scratch(ctx.repo)
            out = tempfile.mkdtemp(prefix="btverif-out-")
            try:
                r = subprocess.run(["git", "apply", "--whitespace=nowarn", os.path.join(bdir, name + ".patch")], cwd=d, capture_output=True, text=True)
                if r.returncode != 0:
                    return name, None, None, None
                rc, fired, stdout = _run_check(prop, d, out)
                return name, rc, fired, stdout
            finally:
                shutil.rmtree(d, ignore_errors=True)
                shutil.rmtree(out, ignore_errors=True)
        names = [n_ for n_ in sorted(meta) if relevant(n_)]
        n = 0
        with ThreadPoolExecutor(8) as ex:
            for name, rc, fired, stdout in ex.map(one, names):
                if rc is None:
                    continue
                n += 1
                if rc != 0:
                    first = re.findall(r"^\s+-> (.*)$", stdout, re.M)
                    res.fail("benign/%s" % name, "selftest/benign/%s.patch" % name, "CHECK BROKEN (false alarm): behaviour-preserving edit `%s` makes %s fire: %s" % (
                        meta[name], sorted(fired), first[0][:200] if first else ""))
                else:
                    res.ok("selftest/benign/%s.patch" % name, "silent on: %s" % (meta[name] if isinstance(meta[name], str) else meta[name].get("what", "")))
        ctx.extra_coverage["benign_edits_run"] = n
    return [
        Ob("SELF-MUT", "self-validation", "every mutant / confirmed seeded change tagged with this property is reported by the expected obligation", mutants, floor=0, tier="thorough"),
        Ob("SELF-BENIGN", "self-validation", "no behaviour-preserving edit of the benign corpus (those touching this property's anchored files) makes this check fire", benign, floor=5, tier="thorough"),
    ]
