"""Thorough tier: checker self-validation (mutants must be killed by the tagged obligations, benign edits must stay silent).
A failure here means the CHECK is broken, which is reported as a violation of the obligation `SELF-*` (fail closed)."""
from __future__ import annotations
import json, os, re, subprocess, sys, tempfile, shutil
from .report import Ob

VERIF = os.path.dirname(os.path.dirname(os.path.abspath(__file__)))


def _scratch(repo):
    d = tempfile.mkdtemp(prefix="btverif-self-")
    subprocess.run(["rsync", "-a", "--exclude", "target", "--exclude", ".git", repo + "/", d + "/"], check=True)
    return d


def _run_check(prop, repo, out):
    c = subprocess.run([os.path.join(VERIF, "check"), prop, "--repo", repo, "--outroot", out, "--tier", "quick"], capture_output=True, text=True)
    fired = set(re.findall(r"^\s+\[FAIL\]\s+(\S+)", c.stdout, re.M))
    return c.returncode, fired, c.stdout


def make_obligations(prop):
    def mutants(ctx, res):
        n = 0
        for mdir in ("selftest/mutants", "seeded"):
            mf = os.path.join(VERIF, mdir, "meta.json")
            if not os.path.exists(mf):
                continue
            meta = json.load(open(mf))
            for name, m in sorted(meta.items()):
                if prop not in m.get("expect", {}):
                    continue
                patch = os.path.join(VERIF, mdir, m.get("patch", name + ".patch"))
                d = _scratch(ctx.repo)
                out = tempfile.mkdtemp(prefix="btverif-out-")
                try:
                    r = subprocess.run(["git", "apply", "--whitespace=nowarn", patch], cwd=d, capture_output=True, text=True)
                    if r.returncode != 0:
                        res.note("mutant %s does not apply to this tree (skipped): %s" % (name, r.stderr.strip()[:100]))
                        continue
                    n += 1
                    rc, fired, _ = _run_check(prop, d, out)
                    want = m["expect"][prop]
                    if rc != 1 or any(o not in fired for o in want):
                        res.fail("mutant/%s" % name, os.path.join(mdir, m.get("patch", name + ".patch")),
                                 "CHECK BROKEN: mutant `%s` (%s) is not reported: rc=%d fired=%s expected=%s" % (name, m.get("origin", m.get("summary", ""))[:80], rc, sorted(fired), want))
                    else:
                        res.ok(os.path.join(mdir, m.get("patch", name + ".patch")), "mutant %s killed by %s" % (name, sorted(fired)))
                finally:
                    shutil.rmtree(d, ignore_errors=True)
                    shutil.rmtree(out, ignore_errors=True)
        res.count("mutants_run", n)
        ctx.extra_coverage["mutants_run"] = n

    def benign(ctx, res):
        bdir = os.path.join(VERIF, "selftest", "benign")
        meta = json.load(open(os.path.join(bdir, "meta.json")))
        n = 0
        for name in sorted(meta):
            d = _scratch(ctx.repo)
            out = tempfile.mkdtemp(prefix="btverif-out-")
            try:
                r = subprocess.run(["git", "apply", "--whitespace=nowarn", os.path.join(bdir, name + ".patch")], cwd=d, capture_output=True, text=True)
                if r.returncode != 0:
                    continue
                n += 1
                rc, fired, stdout = _run_check(prop, d, out)
                if rc != 0:
                    first = re.findall(r"^\s+-> (.*)$", stdout, re.M)
                    res.fail("benign/%s" % name, "selftest/benign/%s.patch" % name, "CHECK BROKEN (false alarm): behaviour-preserving edit `%s` makes %s fire: %s" % (
                        meta[name], sorted(fired), first[0][:200] if first else ""))
                else:
                    res.ok("selftest/benign/%s.patch" % name, "silent on: %s" % meta[name])
            finally:
                shutil.rmtree(d, ignore_errors=True)
                shutil.rmtree(out, ignore_errors=True)
        ctx.extra_coverage["benign_edits_run"] = n
    return [
        Ob("SELF-MUT", "self-validation", "every mutant / confirmed seeded change tagged with this property is reported by the expected obligation", mutants, floor=0, tier="thorough"),
        Ob("SELF-BENIGN", "self-validation", "no behaviour-preserving edit of the benign corpus makes this check fire", benign, floor=10, tier="thorough"),
    ]
