"""Obligation bookkeeping, violation keys, known findings, evidence files."""
from __future__ import annotations
import json, os, time, traceback
from . import astq

VERIF = os.path.dirname(os.path.dirname(os.path.abspath(__file__)))
KNOWN = os.path.join(VERIF, "known-findings.jsonl")


class Result:
    """result of evaluating one obligation."""

    def __init__(self, ob):
        self.ob = ob
        self.instances = []  # discharged instances: dict(site, what)
        self.violations = []  # dict(key, site, msg)
        self.info = []
        self.counters = {}
        self.undecideds = []  # clauses this run could not decide because the code's shape was not recognised (not violations)

    def ok(self, site, what):
        self.instances.append({"site": site, "what": what})

    def fail(self, role, site, msg):
        self.violations.append({"role": role, "site": site, "msg": msg})

    def note(self, msg):
        self.info.append(msg)

    def undecided(self, role, site, msg):
        """a clause that cannot be decided on this tree: the construct is there but arranged in a way the rule does not recognise.
        Not a violation (nothing wrong was seen); recorded in the evidence and printed."""
        self.undecideds.append({"role": role, "site": site, "msg": msg})

    def count(self, name, n=1):
        self.counters[name] = self.counters.get(name, 0) + n


class Ob:
    def __init__(self, oid, rule, desc, func, floor=1, tier="quick", shared_from=None):
        self.id = oid
        self.rule = rule
        self.desc = desc
        self.func = func
        self.floor = floor
        self.tier = tier
        self.shared_from = shared_from


def load_known():
    known = {}
    fixed = []
    if os.path.exists(KNOWN):
        with open(KNOWN) as fh:
            for line in fh:
                line = line.strip()
                if not line or line.startswith("#"):
                    continue
                d = json.loads(line)
                if d.get("status") == "known":
                    known[d["key"]] = d
                else:
                    fixed.append(d)
    return known, fixed


def site_str(x):
    if isinstance(x, str):
        return x
    if isinstance(x, astq.Fn):
        return "%s (fn %s)" % (x.loc(), x.name)
    if isinstance(x, astq.Node):
        fn = getattr(x, "fn", None)
        s = astq.loc(x)
        if fn is not None:
            s += " (fn %s)" % fn.name
        return s
    return str(x)


def site_def(x):
    """line-free identity of a site for violation keys."""
    if isinstance(x, astq.Fn):
        return x.qual
    if isinstance(x, astq.Node):
        fn = getattr(x, "fn", None)
        if fn is not None:
            return fn.qual
        return getattr(x, "file", None) or "?"
    if isinstance(x, str):
        return x.split(":")[0]
    return "?"


def run(prop, title, obligations, ctx, explanation, assumptions, level="other", undecided=""):
    t0 = time.time()
    lines = []
    out = lines.append
    tier = ctx.tier
    known, fixed = load_known()
    records = []
    violations = []
    known_hits = []
    n_ob = 0
    n_dis = 0
    n_inst = 0
    for ob in obligations:
        if ob.tier == "thorough" and tier != "thorough":
            continue
        n_ob += 1
        res = Result(ob)
        try:
            ob.func(ctx, res)
        except astq.AnchorMissing as e:
            res.fail("anchor", "?", "anchor not found / idiom not recognised: %s" % e)
        except Exception as e:  # fail closed, but diagnosable
            res.fail("checker-error", "?", "rule raised %s: %s\n%s" % (type(e).__name__, e, traceback.format_exc()[-1500:]))
        # the floor guards against a rule that silently matched nothing; a rule that reported what it could not follow (undecided) has said so itself
        if not res.violations and not res.undecideds and len(res.instances) < ob.floor:
            res.fail("floor", "?", "only %d instance(s) matched, floor is %d (rule would pass vacuously)" % (
                len(res.instances), ob.floor))
        status = "discharged" if not res.violations else "violated"
        vio_keys = []
        for v in res.violations:
            key = "%s/%s/%s/%s" % (prop, ob.id, site_def(v["site"]), v["role"])
            v["key"] = key
            v["site_s"] = site_str(v["site"])
            vio_keys.append(key)
            if key in known:
                known_hits.append((key, known[key], v))
            else:
                violations.append((ob, v))
        if res.violations and all(k in known for k in vio_keys):
            status = "known-finding"
        if status == "discharged":
            n_dis += 1
        n_inst += len(res.instances)
        records.append({
            "id": ob.id, "rule": ob.rule, "obligation": ob.desc, "status": status,
            "instances": len(res.instances), "floor": ob.floor,
            "sites": [{"site": site_str(i["site"]), "what": i["what"]} for i in res.instances[:12]],
            "violations": [{"key": v["key"], "site": v["site_s"], "msg": v["msg"]} for v in res.violations],
            "notes": res.info[:10], "counters": res.counters,
            "undecided_clauses": [{"role": u["role"], "site": site_str(u["site"]), "msg": u["msg"]} for u in res.undecideds],
        })
    wall = time.time() - t0 + ctx.prep_s
    outroot = getattr(ctx, "outroot", None) or VERIF
    os.makedirs(os.path.join(outroot, "out", prop), exist_ok=True)
    # stdout
    out("== %s %s [%s] : %d obligations, %d discharged, %d instances ==" % (prop, title, tier, n_ob, n_dis, n_inst))
    for r in records:
        out("  [%s] %-10s %-9s inst=%-3d %s" % (
            {"discharged": "ok", "violated": "FAIL", "known-finding": "known"}[r["status"]], r["id"], r["rule"], r["instances"],
            r["obligation"][:110]))
        for v in r["violations"]:
            out("        -> %s: %s" % (v["site"], v["msg"].split("\n")[0][:300]))
        for u in r["undecided_clauses"]:
            out("        ?? undecided here (%s) %s: %s" % (u["role"], u["site"], u["msg"][:220]))
    seen = set()
    for key, kf, v in known_hits:
        if key in seen:
            continue
        seen.add(key)
        out("KNOWN-FINDING: property=%s %s [%s at %s]" % (prop, kf.get("what", ""), key, v["site_s"]))
    for i, (ob, v) in enumerate(violations):
        path = os.path.join(outroot, "out", prop, "violation-%d.json" % i)
        with open(path, "w") as fh:
            json.dump({"property": prop, "obligation": ob.id, "rule": ob.rule, "what": ob.desc, "key": v["key"],
                       "site": v["site_s"], "message": v["msg"], "tier": tier}, fh, indent=1)
        out("VIOLATION property=%s replay=%s" % (prop, path))
    ev = {
        "property_id": prop, "tier": tier, "seed": int(os.environ.get("VERIF_SEED", "0") or 0), "level": level,
        "coverage": {
            "explanation": explanation,
            "undecided": undecided,
            "obligations": n_ob, "discharged": n_dis,
            "rule_instances": n_inst,
            "undecided_clauses_this_run": sum(len(r["undecided_clauses"]) for r in records),
            "known_findings": sorted(seen),
            "files_parsed": ctx.ast.n_files, "functions_indexed": len(ctx.ast.fns),
            "mir": ctx.mir_summary(),
            "samples": records,
            "exhaustive": False,
            "checker_cmd": "./check %s --tier %s" % (prop, tier),
            "trusted_base": assumptions,
        },
        "assumptions": assumptions,
        "wall_s": round(wall, 3),
        "violations": len(violations),
    }
    ev["coverage"].update(ctx.extra_coverage)
    os.makedirs(os.path.join(outroot, "evidence"), exist_ok=True)
    with open(os.path.join(outroot, "evidence", prop + ".json"), "w") as fh:
        json.dump(ev, fh, indent=1)
    try:
        print("\n".join(lines), flush=True)
    except BrokenPipeError:
        pass
    return 1 if violations else 0
