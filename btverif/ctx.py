"""Per-run context: fact bases, tier, timers."""
from __future__ import annotations
import os, time
from . import facts


class Ctx:
    def __init__(self, tier="quick", repo=None):
        t0 = time.time()
        self.tier = tier
        self.repo = repo or facts.REPO
        self.ast = facts.build_ast(self.repo)
        self._mir = None
        self.mir_error = None
        self.extra_coverage = {}
        self.prep_s = time.time() - t0
        self.cache = {}

    def mir(self):
        """MIR fact base (built lazily; None if the analysis build failed)."""
        if self._mir is None and self.mir_error is None:
            try:
                from . import mirfacts
                t0 = time.time()
                self._mir = mirfacts.load(self.repo, self.tier)
                self.prep_s += time.time() - t0
            except Exception as e:  # noqa
                self.mir_error = "%s: %s" % (type(e).__name__, e)
        return self._mir

    def mir_summary(self):
        if self._mir is None:
            return {"used": False, "error": self.mir_error}
        return self._mir.summary()
