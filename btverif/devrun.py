"""dev helper: python3 -m btverif.devrun module.func [...]"""
import sys, importlib
from . import ctx as C, report
c = C.Ctx()
for spec in sys.argv[1:]:
    mod, fn = spec.rsplit(".", 1)
    m = importlib.import_module("btverif.obs." + mod)
    ob = report.Ob(fn, "dev", fn, getattr(m, fn))
    r = report.Result(ob)
    try:
        ob.func(c, r)
    except Exception as e:
        import traceback; traceback.print_exc()
    print("==", spec)
    for i in r.instances: print("  ok  ", report.site_str(i["site"]), "|", i["what"])
    for v in r.violations: print("  FAIL", v["role"], report.site_str(v["site"]), "|", v["msg"])
    for u in r.undecideds: print("  ??  ", u["role"], report.site_str(u["site"]), "|", u["msg"])
