"""MIR fact base: runs the bt-mir rustc driver over the workspace (cargo +nightly check, RUSTC_WORKSPACE_WRAPPER) and loads its JSON.

Freshness: facts are keyed by the content hash of the repo's sources (facts.tree_hash); a facts directory is reused only when it carries
the marker written after a complete run for exactly that hash.  When facts for the current hash are missing, the workspace members'
cargo fingerprints in the analysis target dir are removed first, so cargo cannot skip the driver and replay stale output."""
from __future__ import annotations
import os, subprocess, json, glob, shutil, fcntl, time, re
from . import facts

BT_MIR = os.path.join(facts.VERIF, "tools", "bt-mir", "target", "release", "bt-mir")
SHIM = os.path.join(facts.VERIF, "tools", "rustc-shim")
TARGET = os.path.join(facts.BUILD, "target-mir")
FACTS = os.path.join(facts.BUILD, "mir-facts")
EXPECT_CRATES = {"bigtools", "pybigtools", "bedgraphtobigwig", "bedtobigbed", "bigbedinfo", "bigbedtobed", "bigwigaverageoverbed", "bigwiginfo",
                 "bigwigmerge", "bigwigtobedgraph", "bigwigvaluesoverbed"}


class MirError(Exception):
    pass


def _sysroot():
    r = subprocess.run(["rustc", "+nightly", "--print", "sysroot"], capture_output=True, text=True)
    if r.returncode != 0:
        raise MirError("nightly toolchain not available: " + r.stderr[-500:])
    return r.stdout.strip()


def ensure_driver():
    if not os.path.exists(BT_MIR):
        r = subprocess.run(["cargo", "+nightly", "build", "--release", "--offline"], cwd=os.path.join(facts.VERIF, "tools", "bt-mir"),
                           env=dict(os.environ, CARGO_NET_OFFLINE="true"), capture_output=True, text=True)
        if r.returncode != 0:
            raise MirError("cannot build bt-mir:\n" + r.stderr[-3000:])


def _run_driver(repo, out_dir):
    env = dict(os.environ)
    env.update({
        "LD_LIBRARY_PATH": os.path.join(_sysroot(), "lib") + (":" + env["LD_LIBRARY_PATH"] if env.get("LD_LIBRARY_PATH") else ""),
        "RUSTC": SHIM,
        "RUSTFLAGS": "-Awarnings",
        "RUSTC_WORKSPACE_WRAPPER": BT_MIR,
        "BT_MIR_OUT": out_dir,
        "CARGO_TARGET_DIR": TARGET,
        "CARGO_NET_OFFLINE": "true",
    })
    env.pop("RUSTC_WRAPPER", None)
    # cargo must not consider the workspace members fresh (it would skip the driver)
    for d in glob.glob(os.path.join(TARGET, "debug", ".fingerprint", "*")):
        b = os.path.basename(d)
        if re.match(r"(bigtools|pybigtools)-[0-9a-f]+$", b):
            shutil.rmtree(d, ignore_errors=True)
    r = subprocess.run(["cargo", "+nightly", "check", "--offline", "--workspace", "--all-targets"], cwd=repo, env=env, capture_output=True, text=True)
    if r.returncode != 0:
        raise MirError("cargo +nightly check through bt-mir failed:\n" + r.stderr[-3000:])
    return r.stderr


class MirBase:
    def __init__(self, docs, hash_, seconds, reused):
        self.docs = docs
        self.hash = hash_
        self.seconds = seconds
        self.reused = reused
        # non-test bodies of the library crates and tools; the `bigtools` binary shares its name with the library: both are kept
        self.bodies = []
        seen = set()
        for d in docs:
            if d["test"]:
                continue
            for b in d["data"]:
                key = (b["fn"], b["file"], b["line"])
                if key in seen:
                    continue   # utils::cli code is compiled into every tool: keep one copy
                seen.add(key)
                b["crate"] = d["crate"]
                self.bodies.append(b)
        self.test_docs = [d for d in docs if d["test"]]

    def rel(self, path):
        m = re.search(r"(bigtools/src/.*|pybigtools/src/.*)$", path)
        return m.group(1) if m else path

    def summary(self):
        return {"used": True, "crates": sorted(set(d["crate"] for d in self.docs)), "compilation_units": len(self.docs), "bodies": len(self.bodies),
                "call_sites": sum(len(b["calls"]) for b in self.bodies), "assert_sites": sum(len(b["asserts"]) for b in self.bodies),
                "source_hash": self.hash[:16], "seconds": round(self.seconds, 1), "reused_for_same_sources": self.reused}


def load(repo, tier="quick"):
    ensure_driver()
    import hashlib
    with open(os.path.join(facts.VERIF, "tools", "bt-mir", "src", "main.rs"), "rb") as fh:
        drv = hashlib.sha256(fh.read()).hexdigest()
    h = hashlib.sha256((facts.tree_hash(repo) + drv).encode()).hexdigest()   # sources of the repo + the driver that produced the facts
    os.makedirs(FACTS, exist_ok=True)
    os.makedirs(TARGET, exist_ok=True)
    d = os.path.join(FACTS, h[:24])
    t0 = time.time()
    reused = True
    with open(os.path.join(facts.BUILD, ".mir.lock"), "w") as lk:
        fcntl.flock(lk, fcntl.LOCK_EX)
        if not os.path.exists(os.path.join(d, "COMPLETE")):
            reused = False
            shutil.rmtree(d, ignore_errors=True)
            os.makedirs(d)
            _run_driver(repo, d)
            with open(os.path.join(d, "COMPLETE"), "w") as fh:
                fh.write(h)
            # keep the facts directory small: drop facts of other source states
            for other in glob.glob(os.path.join(FACTS, "*")):
                if other != d and time.time() - os.path.getmtime(other) > 3600:
                    shutil.rmtree(other, ignore_errors=True)
    docs = []
    for f in sorted(glob.glob(os.path.join(d, "*.json"))):
        with open(f) as fh:
            docs.append(json.load(fh))
    crates = set(x["crate"] for x in docs if not x["test"])
    missing = EXPECT_CRATES - crates
    if missing:
        raise MirError("no MIR facts for crate(s) %s (have %s)" % (sorted(missing), sorted(crates)))
    with open(os.path.join(d, "COMPLETE")) as fh:
        if fh.read().strip() != h:
            raise MirError("facts directory does not belong to the current sources")
    base = MirBase(docs, h, time.time() - t0, reused)
    if len(base.bodies) < 1000:
        raise MirError("only %d MIR bodies (expected >= 1000)" % len(base.bodies))
    return base
