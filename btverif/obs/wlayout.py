"""Writer-side layout obligations (R-LAYOUT against spec/bbi_format.py)."""
from __future__ import annotations
import re
from ..astq import Node, up, strip, strip_cast, calls, loc
from ..rules.layout import (emissions, flat_emits, Emit, Group, Marker, check_emit_seq, origin, int_value)
from ..spec import bbi_format as F
from ..rules.idioms import reduction_over, first_of, last_of

W = "bigtools/src/bbi/bbiwrite.rs"
WW = "bigtools/src/bbi/bigwigwrite.rs"
BW = "bigtools/src/bbi/bigbedwrite.rs"


def recv_is_param0(fn):
    """the receiver is the function's first parameter, or a local that aliases it (`let w = &mut *file;`, a helper's parameter after inlining)"""
    p0 = fn.params[0][0]

    def ok(r, node=None):
        if r == p0:
            return True
        if node is not None and isinstance(strip(node), Node) and strip(node).k == "path":
            try:
                return origin(fn, node) == "p0"
            except Exception:
                return False
        return False
    return ok


def split_structure(parts):
    """split a part list into segments of consecutive Emits separated by Markers/Groups."""
    segs = []
    cur = []
    for p in parts:
        if isinstance(p, Emit):
            cur.append(p)
        else:
            if cur:
                segs.append(("emits", cur))
                cur = []
            if isinstance(p, Marker):
                segs.append((p.what, p))
            else:
                segs.append((p.kind, p))
    if cur:
        segs.append(("emits", cur))
    return segs


def expect_shape(res, fn, segs, shape, what):
    got = [s[0] for s in segs]
    if got != shape:
        res.fail(what + "/shape", fn, "%s: emission structure is %s, expected %s" % (what, got, shape))
        return False
    return True


def seek_arg(m):
    """('Start'|'End'|'Current', argnode)"""
    a = strip(m.arg)
    if isinstance(a, Node) and a.k == "call" and isinstance(a["func"], Node) and a["func"].k == "path":
        return a["func"]["path"].split("::")[-1], (a["args"][0] if a["args"] else None)
    return None, None


# ---------------------------------------------------------------- write_info
def _write_info_regions(ctx):
    """write_info as a list of regions: (seek kind, seek arg node, seek part, [emits...], loop group or None), in source order"""
    fn = ctx.ast.fn(W, "write_info", inline=True)
    parts = emissions(fn.body, recv_is_param0(fn))
    segs = split_structure(parts)
    if [s_[0] for s_ in segs][-1:] == ["flush"]:
        segs = segs[:-1]  # a final flush is C14-F1's concern
    regions = []
    for kind, val in segs:
        if kind == "seek":
            k, arg = seek_arg(val)
            regions.append({"kind": k, "arg": arg, "seek": val, "emits": [], "loop": None})
        elif not regions:
            return fn, None, "emission before the first seek"
        elif kind == "emits":
            if regions[-1]["loop"] is not None:
                return fn, None, "emission after the zoom loop inside one region"
            regions[-1]["emits"].extend(val)
        elif kind == "loop":
            if regions[-1]["loop"] is not None:
                return fn, None, "two loops in one region"
            regions[-1]["loop"] = val
        else:
            return fn, None, "unexpected structure element `%s`" % kind
    return fn, regions, None


def _header_regions(regions):
    """regions seeking to a literal offset inside the 64-byte header, with that offset"""
    out = []
    for r in regions:
        if r["kind"] == "Start" and r["arg"] is not None and up(strip_cast(r["arg"])).isdigit():
            out.append((int(up(strip_cast(r["arg"]))), r))
    return out


def _header_fields_at(off):
    """index into COMMON_HEADER of the field starting at byte `off`"""
    o = 0
    for i, (fname, w, kind) in enumerate(F.COMMON_HEADER):
        if o == off:
            return i
        o += w
    return None


def slot_params(ctx):
    """map header slot -> parameter index of write_info feeding it (discovered, not fixed)."""
    if "slot_params" in ctx.cache:
        return ctx.cache["slot_params"]
    fn, regions, err = _write_info_regions(ctx)
    out = {}
    if regions is not None:
        for off, r in _header_regions(regions):
            i0 = _header_fields_at(off)
            if i0 is None:
                continue
            for e, (fname, w, kind) in zip(r["emits"], F.COMMON_HEADER[i0:]):
                if e.arg is not None:
                    o = origin(fn, e.arg)
                    if o.startswith("p") and o[1:].isdigit():
                        out.setdefault(fname, int(o[1:]))
            if r["loop"] is not None:
                ems = flat_emits(r["loop"].parts)
                if ems and ems[0].arg is not None:
                    o = origin(fn, ems[0].arg)
                    mo = re.match(r"iter\(p(\d+)\b", o)
                    if mo:
                        out["zoomHeaders"] = int(mo.group(1))
        for r in regions:
            if r["kind"] == "Start" and r["arg"] is not None and not up(strip_cast(r["arg"])).isdigit() and r["emits"]:
                o = origin(fn, r["emits"][0].arg) if r["emits"][0].arg is not None else ""
                if len(r["emits"]) == len(F.TOTAL_SUMMARY) and o.startswith("p") and "." in o:
                    out["summary"] = int(o[1:o.index(".")])
                elif len(r["emits"]) == 1 and o.startswith("p") and o[1:].isdigit():
                    out["dataCount"] = int(o[1:])
    ctx.cache["slot_params"] = out
    return out


def ob_write_info(ctx, res):
    fn, regions, err = _write_info_regions(ctx)
    if regions is None:
        res.fail("write_info/shape", fn, "write_info: %s" % err)
        return
    sp_ = slot_params(ctx)
    # --- the 64-byte common header + zoom directory: one or more regions at literal offsets that together cover every field once
    hdr = _header_regions(regions)
    covered = {}
    okh = bool(hdr)
    zoom_region = None
    for off, r in hdr:
        i0 = _header_fields_at(off)
        if i0 is None:
            res.fail("write_info/header-offset", r["seek"].node, "seek to byte %d, which is not the start of a header field" % off)
            okh = False
            continue
        spec = F.COMMON_HEADER[i0:i0 + len(r["emits"])]
        prov = {}
        for fname, w, kind_ in spec:
            if fname == "version":
                prov[fname] = lambda o: o in ("lit:4",)
            elif kind_ != "z":
                prov[fname] = lambda o: o.startswith("p") and o[1:].isdigit()
        if len(spec) != len(r["emits"]) or not check_emit_seq(res, fn, r["emits"], spec, prov, "commonHeader"):
            okh = False
            continue
        for fname, _, _ in spec:
            if fname in covered:
                res.fail("write_info/header-twice", r["seek"].node, "header field `%s` is written twice" % fname)
                okh = False
            covered[fname] = r
        if r["loop"] is not None:
            last_field = F.COMMON_HEADER[i0 + len(r["emits"]) - 1][0] if r["emits"] else None
            if last_field != F.COMMON_HEADER[-1][0]:
                res.fail("write_info/zoom-dir-place", r["seek"].node, "the zoom directory must directly follow the 64-byte header")
                okh = False
            zoom_region = r
    if okh and set(covered) != set(f for f, _, _ in F.COMMON_HEADER):
        res.fail("write_info/header-missing", fn, "header fields never written: %s" % sorted(set(f for f, _, _ in F.COMMON_HEADER) - set(covered)))
        okh = False
    if okh:
        used = [sp_.get(f) for f, _, k in F.COMMON_HEADER if k != "z" and f != "version"]
        if len(set(used)) != len(used) or None in used:
            res.fail("commonHeader/distinct", fn, "two header slots are fed by the same parameter: %s" % sp_)
        else:
            res.ok(fn, "64-byte common header: 12 fields, widths/order/offsets as published (written at byte offsets %s); slots<-params %s" % (sorted(o for o, _ in hdr), sp_))
    # zoom directory
    if zoom_region is None:
        res.fail("write_info/zoom-dir", fn, "zoom directory loop not found after the header")
    else:
        zl = flat_emits(zoom_region["loop"].parts)
        zprov = {"reductionLevel": lambda o: o.startswith("iter(p") and o.endswith(".reduction_level"),
                 "dataOffset": lambda o: o.startswith("iter(p") and o.endswith(".data_offset"),
                 "indexOffset": lambda o: o.startswith("iter(p") and o.endswith(".index_offset")}
        if check_emit_seq(res, fn, zl, F.ZOOM_HEADER, zprov, "zoomHeader"):
            res.ok(zoom_region["loop"].node, "zoom directory entry: u32 level,u32 0,u64 data,u64 index (24 B) per entry, directly after the header")
    # summary / data count / trailer regions
    tso, fdo, mg = sp_.get("totalSummaryOffset"), sp_.get("fullDataOffset"), sp_.get("magic")
    rs = [r for r in regions if r["kind"] == "Start" and r["arg"] is not None and origin(fn, r["arg"]) == "p%s" % tso]
    rc = [r for r in regions if r["kind"] == "Start" and r["arg"] is not None and origin(fn, r["arg"]) == "p%s" % fdo]
    rt = [r for r in regions if r["kind"] == "End" and r["arg"] is not None and up(strip_cast(r["arg"])) == "0"]
    if len(rs) != 1:
        res.fail("summary/seek", fn, "total summary must be written once at Start(<the totalSummaryOffset header value>)")
    else:
        sprov = {"basesCovered": lambda o: o.endswith(".bases_covered"), "minVal": lambda o: o.endswith(".min_val"),
                 "maxVal": lambda o: o.endswith(".max_val"), "sumData": lambda o: o.endswith(".sum"),
                 "sumSquares": lambda o: o.endswith(".sum_squares")}
        if check_emit_seq(res, fn, rs[0]["emits"], F.TOTAL_SUMMARY, sprov, "totalSummary"):
            bases = set(origin(fn, e.arg).rsplit(".", 1)[0] for e in rs[0]["emits"])
            if len(bases) != 1:
                res.fail("summary/one-source", fn, "summary fields come from different values: %s" % bases)
            else:
                res.ok(rs[0]["emits"][0].node, "40-byte total summary u64,f64x4 from one Summary value, at the advertised offset")
    if len(rc) != 1:
        res.fail("datacount/seek", fn, "data count must be written once at Start(<fullDataOffset>)")
    elif check_emit_seq(res, fn, rc[0]["emits"], [("dataCount", 8, "u")], {"dataCount": lambda o: o.startswith("p") and o[1:].isdigit()}, "dataCount"):
        res.ok(rc[0]["emits"][0].node, "u64 data count at fullDataOffset")
    if len(rt) != 1:
        res.fail("trailer/seek", fn, "trailing magic must be written once at SeekFrom::End(0)")
    elif check_emit_seq(res, fn, rt[0]["emits"], [("magic", 4, "u")], {"magic": lambda o: o == "p%s" % mg}, "trailer"):
        res.ok(rt[0]["emits"][0].node, "trailing u32 magic = header magic, at End(0)")
    known = [id(r) for _, r in hdr] + [id(r) for r in rs + rc + rt]
    extra = [r for r in regions if id(r) not in known]
    if extra:
        res.fail("write_info/extra-region", extra[0]["seek"].node, "write_info writes somewhere the format table does not know: seek %s" % up(extra[0]["seek"].arg))
    # --- C14: a reader accepts the file as soon as the leading magic is in place, so that must be the last thing written
    if "magic" in covered:
        mr = covered["magic"]
        idx = [i for i, r in enumerate(regions) if r is mr][0]
        later = [r for r in regions[idx + 1:] if r["emits"] or r["loop"] is not None]
        more_in_region = len(mr["emits"]) > 1 or mr["loop"] is not None
        if later or more_in_region:
            what = "the rest of the header / zoom directory" if more_in_region and not later else "the total summary, the data count and the trailing magic"
            res.fail("write_info/magic-not-last", mr["seek"].node,
                     "the leading magic is written before %s: a crash (or a failed write) in between leaves a file that every reader opens as complete, "
                     "with an all-zero summary / item count 0 (or a torn header); the magic at byte 0 must be the last emission of write_info" % what)
        else:
            res.ok(mr["seek"].node, "the magic at byte 0 is the last emission of write_info (everything it vouches for is written before)")


def ob_blank_headers(ctx, res):
    fn = ctx.ast.fn(W, "write_blank_headers", inline=True)
    parts = emissions(fn.body, recv_is_param0(fn))
    segs = split_structure(parts)
    if not expect_shape(res, fn, segs, ["seek", "emits"], "write_blank_headers"):
        return
    kind, arg = seek_arg(segs[0][1])
    if not (kind == "Start" and up(strip_cast(arg)) == "0"):
        res.fail("blank/seek", segs[0][1].node, "blank header must start at Start(0)")
    ems = segs[1][1]
    if not all(e.kind == "z" for e in ems):
        res.fail("blank/nonzero", ems[0].node, "write_blank_headers must write only zero bytes (no magic before the end)")
        return
    total = 0
    for e in ems:
        v = int_value(e.width, ctx.ast, fn.file) if isinstance(e.width, Node) else e.width
        if v is None:
            res.fail("blank/size", e.node, "cannot evaluate blank size %s" % up(e.width))
            return
        total += v
    mz = int_value(ctx.ast.const(W, "MAX_ZOOM_LEVELS")["e"], ctx.ast, fn.file)
    want = F.SIZES["COMMON_HEADER"] + mz * F.SIZES["ZOOM_HEADER"]
    if total != want:
        res.fail("blank/size", fn, "blank area is %d bytes, must be 64 + MAX_ZOOM_LEVELS(%d)*24 = %d" % (total, mz, want))
    else:
        res.ok(fn, "blank area = 64 + %d*24 = %d zero bytes at Start(0)" % (mz, total))


# ---------------------------------------------------------------- chromosome tree
def ob_chrom_tree_w(ctx, res):
    fn = ctx.ast.fn(W, "write_chrom_tree", inline=True)
    parts = emissions(fn.body, recv_is_param0(fn))
    segs = split_structure(parts)
    if not expect_shape(res, fn, segs, ["emits", "loop"], "write_chrom_tree"):
        return
    ems = segs[0][1]
    spec = F.CHROM_TREE_HEADER + F.NODE_HEADER
    prov = {
        "magic": {"const:CHROM_TREE_MAGIC"},
        "valSize": {"lit:8"},
        "isLeaf": {"lit:1"},
    }
    if not check_emit_seq(res, fn, ems, spec, prov, "chromTree"):
        return
    # itemCount and node count derive from the same collection length; blockSize >= itemCount
    o_items = origin(fn, ems[4].arg)
    o_count = origin(fn, ems[8].arg)
    o_block = origin(fn, ems[1].arg)
    if ".len()" not in o_items:
        res.fail("chromTree/itemCount", ems[4].node, "itemCount must be the number of chromosomes written (a len()), origin %s" % o_items)
    elif o_count != o_items:
        res.fail("chromTree/count", ems[8].node, "leaf count (%s) and itemCount (%s) differ" % (o_count, o_items))
    elif not ("max(" in o_block and o_items in o_block):
        res.fail("chromTree/blockSize", ems[1].node, "blockSize must be >= itemCount (max(_, itemCount)); origin %s" % o_block)
    else:
        res.ok(fn, "chrom tree header 32 B + single leaf node header; itemCount = leaf count = %s; blockSize=max(..,itemCount)" % o_items)
    # items
    loop = segs[1][1]
    it = flat_emits(loop.parts)
    o_key = origin(fn, ems[2].arg)
    if check_emit_seq(res, fn, it, F.CHROM_LEAF_ITEM, {}, "chromLeafItem"):
        # key buffer is exactly keySize long: vec![0u8; max_bytes] with the same origin as keySize
        kb = origin(fn, it[0].arg)
        if "vec!" not in kb and "max_bytes" not in up(it[0].arg):
            pass
        keybuf_ok = False
        for n in calls(loop.node, method="copy_from_slice"):
            keybuf_ok = True
        # locate the vec![0u8; N] feeding the key write
        from ..astq import walk_no_nested_fn
        rep_len = None
        for n in walk_no_nested_fn(loop.node):
            if n.k == "macro" and n["path"] == "vec" and "repeat" in n:
                rep_len = origin(fn, n["repeat"]["len"])
                zero = up(n["repeat"]["e"]) in ("0u8", "0")
                if not zero:
                    res.fail("chromLeafItem/pad", n, "key must be NUL padded (vec![0u8; keySize])")
        if rep_len != o_key:
            res.fail("chromLeafItem/keylen", loop.node, "key buffer length (%s) is not the keySize written in the header (%s)" % (rep_len, o_key))
        elif not keybuf_ok:
            res.fail("chromLeafItem/copy", loop.node, "chromosome name is not copied into the key buffer")
        else:
            o_id = origin(fn, it[1].arg)
            o_sz = origin(fn, it[2].arg)
            if ".get(" not in o_sz and "expect" not in o_sz:
                res.fail("chromLeafItem/size", it[2].node, "chromSize must be looked up from the supplied sizes; origin %s" % o_sz)
            else:
                res.ok(loop.node, "leaf item = key padded to keySize + u32 id (%s) + u32 size (%s)" % (o_id, o_sz))
    # C01-D1: sort by id before writing
    sorts = list(calls(fn.body, method=("sort_by_key", "sort_by", "sort", "sort_unstable_by_key")))
    if not sorts:
        res.fail("chromTree/sort", fn, "chromosomes come from a HashMap iteration and are not sorted by id before being written")
    else:
        from ..astq import dominates
        key_ok = False
        if sorts[0]["method"] in ("sort_by_key", "sort_unstable_by_key", "sort_by_cached_key") and sorts[0]["args"]:
            from ..rules.layout import _closure_origin
            a0 = strip(sorts[0]["args"][0])
            key_ok = isinstance(a0, Node) and a0.k == "closure" and _closure_origin(a0) == "\u03bb.1"
        elif sorts[0]["method"] in ("sort_by", "sort_unstable_by") and sorts[0]["args"]:
            import re as _re
            key_ok = _re.search(r"\|(\w+),(\w+)\| \*?\1\.1\.cmp\(&?\*?\2\.1\)", up(sorts[0]["args"][0])) is not None
        coll = origin(fn, sorts[0]["recv"])
        if not key_ok or ".iter().collect()" not in coll:
            res.fail("chromTree/sort-key", sorts[0], "the (name, id) pairs must be sorted by ID (the second component) so that the table lists chromosomes in first-appearance order "
                     "and item i has id i; sorted with `%s`" % up(sorts[0])[:80])
        elif not all(dominates(sorts[0], e.node) for e in ems):
            res.fail("chromTree/sort-order", sorts[0], "sort must precede the first write")
        else:
            res.ok(sorts[0], "HashMap iteration is sorted (%s) before anything is written" % up(sorts[0])[:80])


# ---------------------------------------------------------------- sections
def _loop_over(fn, group):
    """origin of the iterable of a for-loop group"""
    if group.node.k == "for":
        return origin(fn, group.node["iter"])
    if group.node.k == "closure" and group.node.parent is not None and group.node.parent.k == "mcall":
        return origin(fn, group.node.parent["recv"])       # `items.iter().try_for_each(|item| ..)`
    return "?"


def ob_wig_section_w(ctx, res):
    fn = ctx.ast.fn(WW, "encode_section", inline=True)
    parts = emissions(fn.body)
    segs = split_structure(parts)
    if not expect_shape(res, fn, segs[:2], ["emits", "loop"], "bigwig encode_section"):
        return
    items_p = None
    for i, (nm, ty) in enumerate(fn.params):
        if "Vec<Value>" in ty.replace(" ", ""):
            items_p = i
    chrom_p = [i for i, (nm, ty) in enumerate(fn.params) if ty == "u32"]
    if items_p is None or len(chrom_p) != 1:
        res.fail("wigSection/sig", fn, "encode_section signature not recognised: %s" % fn.params)
        return
    P = "p%d" % items_p
    prov = {
        "chromId": {"p%d" % chrom_p[0]},
        "chromStart": lambda o, a: first_of(fn, a) == (P, ["start"]),
        "chromEnd": lambda o, a: last_of(fn, a) == (P, ["end"]) or reduction_over(fn, a, "max") == (P, ["end"]),
        "itemStep": {"lit:0"}, "itemSpan": {"lit:0"}, "type": {"lit:1"},
        "itemCount": {P + ".len()"},
    }
    if check_emit_seq(res, fn, segs[0][1], F.WIG_SECTION_HEADER, prov, "wigSectionHeader"):
        res.ok(fn, "section header 24 B: chromId<-param, start<-first item, end<-last item, type 1, count<-len")
    it = flat_emits(segs[1][1].parts)
    lo = _loop_over(fn, segs[1][1])
    if lo not in (P + ".iter()", P, P + ".into_iter()"):
        res.fail("wigItem/iter", segs[1][1].node, "item loop must iterate the section's items in order; iterates %s" % lo)
        return
    base = "iter(%s)" % lo
    iprov = {"chromStart": {base + ".start"}, "chromEnd": {base + ".end"}, "val": {base + ".value"}}
    if check_emit_seq(res, fn, it, F.WIG_BEDGRAPH_ITEM, iprov, "wigItem"):
        res.ok(segs[1][1].node, "item = u32 start,u32 end,f32 value (12 B), value written unmodified")
    _section_data_literal(ctx, res, fn, P, "p%d" % chrom_p[0], monotone_end_ok=True)
    _compress_tail(ctx, res, fn)


def _section_data_literal(ctx, res, fn, P, chromo, monotone_end_ok):
    """SectionData{chrom,start,end,data}: start=first item start; end covers all items."""
    from ..astq import walk_no_nested_fn
    from ..rules.idioms import reduction_over, first_of, last_of
    lits = [n for n in walk_no_nested_fn(fn.body) if n.k == "struct" and n["path"].endswith("SectionData")]
    if len(lits) != 1:
        res.fail("sectionData/literal", fn, "expected one SectionData literal, found %d" % len(lits))
        return
    f = {x["name"]: x["e"] for x in lits[0]["fields"]}
    oc = origin(fn, f["chrom"])
    fo_c = first_of(fn, f["chrom"])
    if not (oc == chromo or (fo_c is not None and fo_c == (P, ["chrom"]))):
        res.fail("sectionData/chrom", lits[0], "SectionData.chrom origin %s, expected the encoder's chromosome id" % oc)
    fo = first_of(fn, f["start"])
    mn = reduction_over(fn, f["start"], "min")
    if not ((fo is not None and fo == (P, ["start"])) or (mn is not None and mn == (P, ["start"]))):
        res.fail("sectionData/start", lits[0], "SectionData.start (`%s`) is not the first item's start" % up(f["start"]))
        return
    mx = reduction_over(fn, f["end"], "max")
    la = last_of(fn, f["end"])
    if mx is not None and mx == (P, ["end"]):
        res.ok(lits[0], "SectionData span: start<-first item, end<-max over all item ends")
    elif la is not None and la == (P, ["end"]) and monotone_end_ok:
        res.ok(lits[0], "SectionData span: start<-first item, end<-last item (item ends are monotone for this encoder: overlap guard / tiling order)")
    elif la is not None and la == (P, ["end"]):
        res.fail("sectionData/end-last", lits[0],
                 "block span `end` is taken from the LAST entry; bigBed entries are only start-sorted, so an earlier, longer entry "
                 "can end beyond it and the index prunes the block for queries that entry overlaps (needs a max over all entry ends)")
    else:
        res.fail("sectionData/end", lits[0], "SectionData.end (`%s`) not recognised as covering every item" % up(f["end"]))


class _Disp(dict):
    """`if c {A} else {B}` or `match c { true => A, false => B }` presented alike: ["cond"], ["then"], ["else"], .parent, .order"""
    def get(self, k, d=None):
        return dict.get(self, k, d)


def _bool_dispatch(n):
    if n.k == "if" and strip(n["cond"]).k != "let_expr":
        d = _Disp(cond=n["cond"], then=n["then"], **{"else": n.get("else")})
    elif n.k == "match" and len(n["arms"]) == 2 and sorted(up(a["pat"]) for a in n["arms"]) == ["false", "true"]:
        arms = {up(a["pat"]): a["body"] for a in n["arms"]}
        def blk(b):
            b = strip(b)
            if b.k == "block":
                return b
            from ..astq import _mknode
            w = _mknode({"k": "block", "stmts": [_mknode({"k": "expr_stmt", "e": b, "semi": False})]})     # `false => (bytes, 0)` as a block with a tail
            w.parent, w.order, w.fn, w.file = b.parent, b.order, b.fn, b.file
            return w
        d = _Disp(cond=n["scrut"], then=blk(arms["true"]), **{"else": blk(arms["false"])})
    else:
        return None
    d.node = n
    return d


def _compress_tail(ctx, res, fn):
    """C01-F1: (compressed truncated to actual size, len of the UNCOMPRESSED buffer) | (bytes, 0)."""
    from ..astq import walk_no_nested_fn
    ifs = [d for d in (_bool_dispatch(n) for n in walk_no_nested_fn(fn.body)) if d is not None and origin(fn, d["cond"]) == "p0"]
    if len(ifs) != 1:
        res.undecided("compress/if", fn, "expected one `if compress` (or `match compress`) selecting the output buffer, found %d" % len(ifs))
        return
    disp = ifs[0]
    node = disp.node

    def tail(b):
        st = b["stmts"]
        if st and st[-1].k == "expr_stmt" and not st[-1]["semi"]:
            return strip(st[-1]["e"])
        return None
    t_then, t_else = tail(disp["then"]), tail(disp["else"]) if disp.get("else") is not None else None
    if not (t_then is not None and t_then.k == "tuple" and len(t_then["elems"]) == 2 and t_else is not None and t_else.k == "tuple" and len(t_else["elems"]) == 2):
        res.fail("compress/tuple", node, "both arms must yield (bytes, uncompressed_size)")
        return
    # else arm: (bytes, 0)
    raw_buf = up(strip(t_else["elems"][0]))
    if up(strip_cast(t_else["elems"][1])) != "0":
        res.fail("compress/raw-size", t_else, "uncompressed arm must report buffer size 0 (readers decompress iff size > 0); got %s" % up(t_else["elems"][1]))
    # then arm
    o_sz = origin(fn, t_then["elems"][1])
    if o_sz != "letvar:%s.len()" % raw_buf and o_sz != "%s.len()" % origin(fn, t_else["elems"][0]) and not o_sz.endswith(".len()"):
        res.fail("compress/buf-size", t_then, "compressed arm must report the length of the UNCOMPRESSED buffer; origin %s" % o_sz)
        return
    size_src = up(strip(t_then["elems"][1]))
    if size_src != raw_buf + ".len()":
        res.fail("compress/buf-size", t_then, "compressed arm reports `%s` as uncompressed size; must be `%s.len()` (the input of zlib_compress)" % (size_src, raw_buf))
        return
    zc = list(calls(disp["then"], method="zlib_compress"))
    zb = list(calls(disp["then"], method="zlib_compress_bound"))
    rs = list(calls(disp["then"], method=("resize", "truncate")))
    if len(zc) != 1 or len(zb) != 1:
        res.fail("compress/callee", node, "compression must be Compressor::zlib_compress with a zlib_compress_bound-sized buffer (standard zlib stream)")
        return
    if up(strip(zc[0]["args"][0])) != raw_buf or up(strip(zb[0]["args"][0])) != raw_buf + ".len()":
        res.fail("compress/input", zc[0], "zlib_compress input is `%s`, expected the encoded section bytes `%s`" % (up(zc[0]["args"][0]), raw_buf))
        return
    out_buf = up(strip(zc[0]["args"][1]))
    if not rs or up(strip(rs[0]["recv"])) != out_buf or origin(fn, rs[0]["args"][0]).find("zlib_compress(") < 0:
        res.fail("compress/truncate", node, "compressed buffer must be cut to the size zlib_compress returned")
        return
    if up(strip(t_then["elems"][0])) != out_buf:
        res.fail("compress/output", t_then, "compressed arm returns `%s`, expected the compressed buffer `%s`" % (up(t_then["elems"][0]), out_buf))
        return
    # the if result feeds SectionData.data and the returned size
    res.ok(node, "compress arm: (zlib_compress(%s) cut to actual size, %s.len()); raw arm: (%s, 0)" % (raw_buf, raw_buf, raw_buf))
    # returned tuple: (SectionData{data: out}, size)
    st = node.parent
    while st is not None and st.k != "let":
        st = st.parent
    if st is None or st["pat"].k != "p_tuple" or len(st["pat"]["elems"]) != 2:
        res.fail("compress/bind", node, "result of the compress selection must be bound as (bytes, size)")
        return
    nb, ns = [up(e) for e in st["pat"]["elems"]]
    lits = [n for n in walk_no_nested_fn(fn.body) if n.k == "struct" and n["path"].endswith("SectionData")]
    okd = lits and up(strip({x["name"]: x["e"] for x in lits[0]["fields"]}["data"])) == nb
    tails = fn.body["stmts"][-1]
    t = strip(tails["e"]) if tails.k == "expr_stmt" else None
    ok_ret = False
    if t is not None and t.k == "call" and up(t["func"]) == "Ok" and strip(t["args"][0]).k == "tuple":
        el = strip(t["args"][0])["elems"]
        ok_ret = len(el) == 2 and up(strip(el[1])) == ns and strip(el[0]).k == "struct"
    if not okd or not ok_ret:
        res.fail("compress/return", fn, "encoder must return (SectionData{data: %s,..}, %s)" % (nb, ns))
    else:
        res.ok(fn, "returns (SectionData{data:<selected bytes>}, <reported size>)")


def ob_bed_section_w(ctx, res):
    fn = ctx.ast.fn(BW, "encode_section", inline=True)
    parts = emissions(fn.body)
    segs = split_structure(parts)
    if not expect_shape(res, fn, segs[:1], ["loop"], "bigbed encode_section"):
        return
    items_p = [i for i, (nm, ty) in enumerate(fn.params) if "Vec<BedEntry>" in ty.replace(" ", "")]
    chrom_p = [i for i, (nm, ty) in enumerate(fn.params) if ty == "u32"]
    if len(items_p) != 1 or len(chrom_p) != 1:
        res.fail("bedSection/sig", fn, "encode_section signature not recognised: %s" % fn.params)
        return
    P = "p%d" % items_p[0]
    lo = _loop_over(fn, segs[0][1])
    if lo not in (P + ".iter()", P):
        res.fail("bedRecord/iter", segs[0][1].node, "record loop must iterate the section's entries in order; iterates %s" % lo)
        return
    base = "iter(%s)" % lo
    it = flat_emits(segs[0][1].parts)
    prov = {"chromId": {"p%d" % chrom_p[0]}, "chromStart": {base + ".start"}, "chromEnd": {base + ".end"},
            "rest": {base + ".rest.as_bytes()"}}
    if check_emit_seq(res, fn, it, F.BED_RECORD, prov, "bedRecord"):
        res.ok(segs[0][1].node, "record = u32 chromId,u32 start,u32 end,rest bytes,NUL")
    _section_data_literal(ctx, res, fn, P, "p%d" % chrom_p[0], monotone_end_ok=False)
    _compress_tail(ctx, res, fn)


def ob_zoom_section_w(ctx, res):
    fn = ctx.ast.fn(W, "encode_zoom_section", inline=True)
    parts = emissions(fn.body)
    segs = split_structure(parts)
    if not expect_shape(res, fn, segs[:1], ["loop"], "encode_zoom_section"):
        return
    items_p = [i for i, (nm, ty) in enumerate(fn.params) if "Vec<ZoomRecord>" in ty.replace(" ", "")]
    if len(items_p) != 1:
        res.fail("zoomSection/sig", fn, "signature not recognised")
        return
    P = "p%d" % items_p[0]
    lo = _loop_over(fn, segs[0][1])
    if lo not in (P + ".iter()", P):
        res.fail("zoomRecord/iter", segs[0][1].node, "record loop iterates %s" % lo)
        return
    base = "iter(%s)" % lo
    prov = {"chromId": {base + ".chrom"}, "chromStart": {base + ".start"}, "chromEnd": {base + ".end"},
            "validCount": {base + ".summary.bases_covered"}, "minVal": {base + ".summary.min_val"},
            "maxVal": {base + ".summary.max_val"}, "sumData": {base + ".summary.sum"},
            "sumSquares": {base + ".summary.sum_squares"}}
    it = flat_emits(segs[0][1].parts)
    if check_emit_seq(res, fn, it, F.ZOOM_RECORD, prov, "zoomRecord"):
        res.ok(segs[0][1].node, "zoom record 32 B: chrom,start,end,validCount,min,max,sum,sumSquares each from the like-named field")
    _section_data_literal(ctx, res, fn, P, None, monotone_end_ok=True)
    _compress_tail(ctx, res, fn)


# ---------------------------------------------------------------- R-tree
def ob_rtree_consts(ctx, res):
    vals = {}
    for name, want in (("NODEHEADER_SIZE", F.SIZES["NODE_HEADER"]), ("NON_LEAFNODE_SIZE", F.SIZES["CIR_NONLEAF_ITEM"]),
                       ("LEAFNODE_SIZE", F.SIZES["CIR_LEAF_ITEM"])):
        c = ctx.ast.const(W, name)
        v = int_value(c["e"], ctx.ast, c.file)
        vals[name] = v
        if v != want:
            res.fail("const/" + name, loc(c), "%s = %s, the format's size is %d" % (name, v, want))
        else:
            res.ok(loc(c), "%s = %d" % (name, v))


def _tail_expr(b):
    b = strip(b)
    while b.k == "block":
        st = b["stmts"]
        if not st or st[-1].k != "expr_stmt" or st[-1].get("semi"):
            return None
        b = strip(st[-1]["e"])
    return b


def cir_header_parts(fn):
    """the 48-byte index header of write_rtreeindex as (first tell, 3 leading emits, bounds arms, 3 trailing emits) where a bounds arm is
    (label, guard node or None, [4 value nodes], site).  Two spellings are recognised: the four bounds written inside each arm of a match over
    the root's children, or computed as a 4-tuple per arm (possibly in a helper) and written once."""
    parts = emissions(fn.body, recv_is_param0(fn))
    segs = split_structure(parts)
    kinds = [s_[0] for s_ in segs]
    if kinds[:5] == ["tell", "emits", "alt", "emits", "tell"] and len(segs[1][1]) == 3 and len(segs[3][1]) == 3:
        alt = segs[2][1]
        arms = []
        for br, arm in zip(alt.parts, alt.node["arms"] if alt.node.k == "match" else [None] * len(alt.parts)):
            ems = flat_emits(br.parts)
            arms.append((br.label, arm.get("guard") if arm is not None else None, [e.arg for e in ems], br.node, ems))
        return segs[0][1].node, segs[1][1], arms, segs[3][1], None
    if kinds[:3] == ["tell", "emits", "tell"] and len(segs[1][1]) == 10:
        ems = segs[1][1]
        mid = ems[3:7]
        from ..astq import binding_before
        sites = []
        for i, e in enumerate(mid):
            a = strip(e.arg) if e.arg is not None else None
            bnd = binding_before(fn, a["path"], e.node) if a is not None and a.k == "path" else None
            if bnd is None or bnd[0] != "let" or bnd[-1] != (i,):
                return None
            sites.append(bnd[1])
        if any(x is not sites[0] for x in sites) or sites[0].get("init") is None:
            return None
        m = _tail_expr(sites[0]["init"])
        if m is None or m.k != "match":
            return None
        arms = []
        for arm in m["arms"]:
            t = _tail_expr(arm["body"])
            if t is None or t.k != "tuple" or len(t["elems"]) != 4:
                return None
            arms.append((up(arm["pat"]), arm.get("guard"), list(t["elems"]), arm, None))
        return segs[0][1].node, ems[:3], arms, ems[7:], mid
    return None


def ob_cir_header_w(ctx, res):
    fn = ctx.ast.fn(W, "write_rtreeindex", inline=True, keep=("rtree_block_size",))
    hp = cir_header_parts(fn)
    if hp is None:
        parts = emissions(fn.body, recv_is_param0(fn))
        res.undecided("cirHeader/shape", fn, "emission structure %s is neither `tell, 3 fields, bounds per arm, 3 fields, tell` nor `tell, 10 fields, tell` with the bounds "
                                             "taken from a per-arm 4-tuple: the header's provenance is not decided" % [s_[0] for s_ in split_structure(parts)])
        return
    first_tell, a, arms, b, mid = hp
    H = F.CIR_TREE_HEADER
    opt_p = [i for i, (nm, ty) in enumerate(fn.params) if "BBIWriteOptions" in ty]
    cnt_p = [i for i, (nm, ty) in enumerate(fn.params) if ty == "u64"]
    if len(opt_p) != 1 or len(cnt_p) != 1:
        res.fail("cirHeader/sig", fn, "signature not recognised: %s" % fn.params)
        return
    O = "p%d" % opt_p[0]
    ok = check_emit_seq(res, fn, a, H[:3], {"magic": {"const:CIR_TREE_MAGIC"}, "blockSize": {O + ".block_size", "rtree_block_size(%s)" % O},
                                             "itemCount": {"p%d" % cnt_p[0]}}, "cirHeader")
    okb = check_emit_seq(res, fn, b, H[7:], {"endFileOffset": lambda o: o.endswith(".tell()"),
                                             "itemsPerSlot": {O + ".items_per_slot"}}, "cirHeader")
    if okb:
        # the tell whose value is written must be the one before the magic
        from ..astq import stmt_of
        eo = b[0].arg
        nm = up(strip(eo))
        st = stmt_of(first_tell)
        if not (st is not None and st.k == "let" and up(st["pat"]) == nm):
            res.fail("cirHeader/endFileOffset", b[0].node, "endFileOffset must be the position taken before the index header is written")
            okb = False
    okalt = True
    if len(arms) not in (2, 3):
        res.fail("cirHeader/bounds-arms", fn, "expected leaf-root / inner-root (and optionally empty-index) arms")
        okalt = False
    if mid is not None:
        if not check_emit_seq(res, fn, mid, H[3:7], {}, "cirHeader.bounds"):
            okalt = False
    else:
        for label, guard, vals, site, ems in arms:
            if not check_emit_seq(res, fn, ems, H[3:7], {}, "cirHeader.bounds[%s]" % label):
                okalt = False
    if ok and okb and okalt:
        res.ok(fn, "48-byte cirTree header: magic, blockSize<-options, itemCount<-section count, 4 bounds, endFileOffset<-tell() first, itemsPerSlot<-options, 0")


def ob_write_tree_w(ctx, res):
    fn = ctx.ast.fn(W, "write_tree", inline=True, keep=("rtree_block_size",))
    # final match on nodes: two arms
    from ..astq import walk_no_nested_fn
    tail = fn.body["stmts"][-1]
    m = strip(tail["e"]) if tail.k == "expr_stmt" else None
    if m is None or m.k != "match" or len(m["arms"]) != 2:
        res.fail("writeTree/shape", fn, "expected a final two-arm match over leaf / non-leaf nodes")
        return
    consts = {n: int_value(ctx.ast.const(W, n)["e"], ctx.ast) for n in ("NODEHEADER_SIZE", "NON_LEAFNODE_SIZE", "LEAFNODE_SIZE")}
    for arm in m["arms"]:
        leaf = "DataSections" in up(arm["pat"])
        parts = emissions(arm["body"], recv_is_param0(fn))
        segs = split_structure(parts)
        what = "writeTree.leaf" if leaf else "writeTree.nonleaf"
        if [s[0] for s in segs] != ["emits", "loop"]:
            res.fail(what + "/shape", arm, "emission structure %s, expected node header + item loop" % [s[0] for s in segs])
            continue
        coll = origin(fn, segs[1][1].node["iter"])
        hprov = {"isLeaf": {"lit:1"} if leaf else {"lit:0"}}
        okh = check_emit_seq(res, fn, segs[0][1], F.NODE_HEADER, hprov, what + ".header")
        cnt = origin(fn, segs[0][1][2].arg)
        it = flat_emits(segs[1][1].parts)
        if leaf:
            base = "iter(%s)" % coll
            prov = {"startChromIx": {base + ".chrom"}, "startBase": {base + ".start"}, "endChromIx": {base + ".chrom"},
                    "endBase": {base + ".end"}, "dataOffset": {base + ".offset"}, "dataSize": {base + ".size"}}
            oki = check_emit_seq(res, fn, it, F.CIR_LEAF_ITEM, prov, what + ".item")
            item_sz = consts["LEAFNODE_SIZE"]
        else:
            prov = {"startChromIx": lambda o: o.endswith(".start_chrom_idx"), "startBase": lambda o: o.endswith(".start_base"),
                    "endChromIx": lambda o: o.endswith(".end_chrom_idx"), "endBase": lambda o: o.endswith(".end_base")}
            oki = check_emit_seq(res, fn, it, F.CIR_NONLEAF_ITEM, prov, what + ".item")
            item_sz = consts["NON_LEAFNODE_SIZE"]
        if not cnt.endswith(".len()") or cnt[:-6] not in coll:
            res.fail(what + "/count", segs[0][1][2].node, "node count (%s) is not the length of the collection written (%s)" % (cnt, coll))
            okh = False
        if okh and oki:
            res.ok(arm, "%s node: header u8 %d,u8 0,u16 count + %d-byte items" % ("leaf" if leaf else "non-leaf", 1 if leaf else 0, item_sz))
        # returned size
        st = arm["body"]["stmts"] if arm["body"].k == "block" else []
        if st and st[-1].k == "expr_stmt":
            r = strip(st[-1]["e"])
            if r.k == "call" and up(r["func"]) == "Ok":
                e = strip(r["args"][0])
                if leaf:
                    # Ok(H + len * ITEM)
                    vals = _sum_product_consts(ctx, e)
                    if vals is None or vals != (consts["NODEHEADER_SIZE"], consts["LEAFNODE_SIZE"]):
                        res.fail(what + "/retsize", r, "leaf node size expression `%s` must be NODEHEADER_SIZE(%d) + len*LEAFNODE_SIZE(%d)" % (
                            up(e), consts["NODEHEADER_SIZE"], consts["LEAFNODE_SIZE"]))
                    else:
                        res.ok(r, "leaf node size = %d + len*%d" % vals)


def _sum_product_consts(ctx, e):
    """recognise H + X * K (any operand order) -> (H, K)"""
    e = strip_cast(e)
    if not (isinstance(e, Node) and e.k == "binary" and e["op"] == "+"):
        return None
    a, b = strip_cast(e["l"]), strip_cast(e["r"])
    for h, prod in ((a, b), (b, a)):
        hv = int_value(h, ctx.ast)
        if hv is None:
            continue
        if isinstance(prod, Node) and prod.k == "binary" and prod["op"] == "*":
            for x, kk in ((prod["l"], prod["r"]), (prod["r"], prod["l"])):
                kv = int_value(kk, ctx.ast)
                if kv is not None and int_value(x, ctx.ast) is None:
                    return (hv, kv)
    return None


# ---------------------------------------------------------------- write_pre
def ob_write_pre_bw(ctx, res):
    fn = ctx.ast.fn(WW, "write_pre", inline=True)
    _write_pre(ctx, res, fn, bigbed=False)


def ob_write_pre_bb(ctx, res):
    fn = ctx.ast.fn(BW, "write_pre", inline=True)
    _write_pre(ctx, res, fn, bigbed=True)


def _write_pre(ctx, res, fn, bigbed):
    parts = emissions(fn.body, recv_is_param0(fn))
    segs = split_structure(parts)
    kinds = [s[0] for s in segs]
    want = (["tell", "emits"] if bigbed else []) + ["tell", "emits", "tell", "emits", "tell"]
    if kinds != want:
        res.fail("writePre/shape", fn, "write_pre structure %s, expected %s" % (kinds, want))
        return
    blank = list(calls(fn.body, func="write_blank_headers"))
    from ..astq import dominates
    if len(blank) != 1 or not dominates(blank[0], segs[0][1].node):
        res.fail("writePre/blank", fn, "write_blank_headers must be called first")
        return
    i = 0
    names = {}
    if bigbed:
        names["autoSqlOffset"] = segs[0][1].node
        e = segs[1][1]
        from ..astq import upn as _upn
        if len(e) != 1 or e[0].kind != "b" or ("as_bytes_with_nul()" not in up(e[0].arg) and "as_bytes_with_nul()" not in _upn(fn, e[0].arg) and "as_bytes_with_nul()" not in origin(fn, e[0].arg)):
            res.fail("writePre/autosql", e[0].node, "autoSql must be written as a C string with exactly one trailing NUL (CString::as_bytes_with_nul)")
        else:
            a0 = strip(e[0].arg)
            if a0.k == "path":                      # `let bytes = cstring.as_bytes_with_nul(); write_all(bytes)`
                i0_ = _let_init(fn, a0["path"], a0)
                a0 = strip(i0_) if i0_ is not None else a0
            init = _let_init(fn, up(strip(a0["recv"])), a0) if a0.k == "mcall" else None
            if init is None and "CString::new(" in origin(fn, e[0].arg):
                init = e[0].arg
                ok_c = True
            else:
                ok_c = init is not None and "CString::new(" in up(init)
            if not ok_c:
                res.fail("writePre/autosql-cstring", e[0].node, "autoSql bytes must come from CString::new(text)")
            else:
                res.ok(e[0].node, "autoSql text + single NUL written at the offset recorded as autoSqlOffset")
        i = 2
    names["totalSummaryOffset"] = segs[i][1].node
    z = segs[i + 1][1]
    zv = int_value(z[0].width) if isinstance(z[0].width, Node) else z[0].width
    if len(z) != 1 or z[0].kind != "z" or zv != F.SIZES["TOTAL_SUMMARY"]:
        res.fail("writePre/summary-space", z[0].node, "total summary placeholder must be %d zero bytes" % F.SIZES["TOTAL_SUMMARY"])
    names["fullDataOffset"] = segs[i + 2][1].node
    c = segs[i + 3][1]
    if len(c) != 1 or c[0].width != 8 or up(strip_cast(c[0].arg)) != "0":
        res.fail("writePre/count-space", c[0].node, "data count placeholder must be a u64 0")
    names["preData"] = segs[i + 4][1].node
    # returned tuple binds those tells in a discoverable order
    tail = fn.body["stmts"][-1]
    t = strip(tail["e"])
    if not (t.k == "call" and up(t["func"]) == "Ok" and strip(t["args"][0]).k == "tuple"):
        res.fail("writePre/return", fn, "write_pre must return Ok((offsets...))")
        return
    from ..astq import stmt_of
    ret = [up(strip(e)) for e in strip(t["args"][0])["elems"]]
    pos = {}
    for slot, tn in names.items():
        st = stmt_of(tn)
        if st is None or st.k != "let" or up(st["pat"]) not in ret:
            res.fail("writePre/" + slot, tn, "position for %s is not returned" % slot)
            return
        pos[slot] = ret.index(up(st["pat"]))
    ctx.cache["write_pre_pos_" + ("bb" if bigbed else "bw")] = pos
    res.ok(fn, "write_pre: blank header; %stotalSummaryOffset=tell() before 40 zero bytes; fullDataOffset=tell() before u64 0; pre_data=tell() after; returned at tuple positions %s" % (
        "autoSqlOffset=tell() before the C string; " if bigbed else "", pos))


def _let_init(fn, name, at):
    from ..astq import binding_before
    s = binding_before(fn, name, at)
    if s is not None and s[0] == "let" and s[1].get("init") is not None:
        return s[1]["init"]
    return None


# ---------------------------------------------------------------- one byte order
def ob_one_endian(ctx, res):
    seen = {}
    n = 0
    for file in (W, WW, BW):
        for fn in ctx.ast.fns_in(file):
            if fn.body is None:
                continue
            for e in flat_emits(emissions(fn.body)):
                if e.endian == "-":
                    continue
                n += 1
                seen.setdefault(e.endian, []).append(e)
    if len(seen) > 1:
        major = max(seen, key=lambda k: len(seen[k]))
        for en, ems in seen.items():
            if en != major:
                for e in ems:
                    res.fail("endian/%s" % en, e.node, "emission uses byte order %s while the writer uses %s everywhere else (mixed byte order file)" % (en, major))
    elif seen:
        en = list(seen)[0]
        res.ok(W, "%d multi-byte emissions in the three writer modules, all %s" % (n, en))
        res.count("emissions", n)


def ob_magics(ctx, res):
    """C09-M1: the four magic numbers are the published ones"""
    want = {"BIGWIG_MAGIC": F.BIGWIG_MAGIC, "BIGBED_MAGIC": F.BIGBED_MAGIC, "CIR_TREE_MAGIC": F.CIR_TREE_MAGIC, "CHROM_TREE_MAGIC": F.CHROM_TREE_MAGIC}
    for name, val in want.items():
        c = ctx.ast.const("bigtools/src/bbi.rs", name)
        e = strip(c["e"])
        got = None
        if e.k == "lit" and e["t"] == "int":
            got = int(e["v"])
        if got != val:
            res.fail("magic/" + name, loc(c), "%s = %s, the published value is 0x%08X" % (name, ("0x%08X" % got) if got is not None else up(e), val))
        elif c["ty"].replace(" ", "") != "u32":
            res.fail("magic/%s/type" % name, loc(c), "%s must be a u32" % name)
        else:
            res.ok(loc(c), "%s = 0x%08X (published)" % (name, val))
