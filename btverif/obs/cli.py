"""C16 / C17 command-line clauses: compat flag table, option flow, region statistics tool."""
from __future__ import annotations
import re
from ..astq import Node, up, strip, strip_cast, walk_no_nested_fn, walk, calls, dominates, binding_before
from ..rules.layout import origin, origin_short

CLI = "bigtools/src/utils/cli.rs"
CLIDIR = "bigtools/src/utils/cli/"
NAMED = ["-unc", "-blockSize", "-chrom", "-start", "-end"]
NAMED_CMDS = {"-unc": ["bedgraphtobigwig", "bedtobigbed"], "-blockSize": ["bedgraphtobigwig", "bedtobigbed"],
              "-chrom": ["bigwigtobedgraph", "bigbedtobed"], "-start": ["bigwigtobedgraph", "bigbedtobed"], "-end": ["bigwigtobedgraph", "bigbedtobed"]}


def _long_flags(ctx, struct_node, seen=None):
    """long flag names declared by a clap Args/Parser struct (following #[command(flatten)])"""
    out = set()
    for f in struct_node["fields"]:
        attrs = " ".join(f["attrs"])
        if "command(flatten)" in attrs.replace(" ", ""):
            ty = f["ty"].split("::")[-1]
            for (file, nm), sd in ctx.ast.structs.items():
                if nm == ty and sd.k == "struct_def":
                    out |= _long_flags(ctx, sd)
            continue
        m = re.search(r"#\[arg\(([^\]]*)\)\]", attrs)
        allargs = " ".join(re.findall(r"#\[arg\(([^\]]*)\)\]", attrs))
        if re.search(r"\blong\b", allargs):
            mm = re.search(r'long\s*=\s*"([^"]+)"', allargs)
            out.add("--" + (mm.group(1) if mm else f["name"].replace("_", "-")))
    return out


def _command_flags(ctx):
    flags = {}
    for file, f in ctx.ast.files.items():
        if not file.startswith(CLIDIR):
            continue
        cmd = file[len(CLIDIR):-3]
        for it in f["items"]:
            if isinstance(it, Node) and it.k == "struct_def" and it["name"].endswith("Args") and any("Parser" in a for a in it["attrs"]):
                flags[cmd] = _long_flags(ctx, it)
    return flags


def _compat_table(ctx):
    fn = ctx.ast.fn(CLI, "compat_arg_mut")
    ms = [n for n in walk_no_nested_fn(fn.body) if n.k == "macro" and n["path"] == "compat_replace_mut"]
    if len(ms) != 1:
        return None, None, None, fn
    t = ms[0]["tokens"]
    m = re.search(r"replace:(.*)ignore:(.*)unimplemented:(.*)$", t, re.S)
    if not m:
        return None, None, None, ms[0]
    pairs = re.findall(r'"([^"]+)"\s*,\s*"([^"]+)"', m.group(1))
    ignore = re.findall(r'"([^"]+)"', m.group(2))
    unimpl = re.findall(r'"([^"]+)"', m.group(3))
    return pairs, ignore, unimpl, ms[0]


def _simulate(pairs, ignore, unimpl, arg, prefix_only=True):
    for f, r in pairs:
        if arg.startswith(f):
            return arg.replace(f, r, 1) if prefix_only else arg.replace(f, r)
    for i in ignore:
        if arg.startswith(i):
            return ""
    for u in unimpl:
        if arg.startswith(u):
            return "PANIC"
    return arg


def ob_compat_table(ctx, res):
    """C16-T1"""
    pairs, ignore, unimpl, node = _compat_table(ctx)
    if pairs is None:
        res.fail("compat/table", node, "compat_replace_mut! invocation in compat_arg_mut not recognised")
        return
    if len(pairs) < 14:
        res.fail("compat/floor", node, "only %d replacement pairs found, expected >= 14" % len(pairs))
        return
    # macro semantics: first entry whose $find is a prefix wins; which occurrences are rewritten is read from the macro body
    mac = [it for it in ctx.ast.files[CLI]["items"] if isinstance(it, Node) and it.k == "item_macro" and it.get("name") == "compat_replace_mut"]
    mt = mac[0]["tokens"].replace(" ", "") if len(mac) == 1 else ""
    if "b.starts_with($find)" not in mt or not ("b.replacen($find,$replace,1)" in mt or "b.replace($find,$replace)" in mt):
        res.fail("compat/macro", CLI, "compat_replace_mut! no longer rewrites `starts_with($find)` arguments with replace/replacen($find, $replace)")
        return
    prefix_only = "b.replacen($find,$replace,1)" in mt
    # the value after `=` must survive the rewriting untouched, also when it contains the text of a flag
    for s_ in NAMED:
        if s_ not in dict(pairs):
            continue
        for val in ("x" + s_ + "1", "a-chrom1", "7"):
            arg = s_ + "=" + val
            got = _simulate(pairs, ignore, unimpl, arg, prefix_only)
            want = dict(pairs)[s_] + "=" + val
            if got != want and not [v for v in res.violations if v["role"] == "compat/value-rewritten"]:
                res.fail("compat/value-rewritten", mac[0],
                         "`%s` is rewritten to `%s` instead of `%s`: the macro replaces EVERY occurrence of the flag text, also inside the value "
                         "(bigwigtobedgraph -chrom=a-chrom1 looks up `a--chrom1`, reports it missing and writes an empty file with exit 0)" % (arg, got, want))
    if [v for v in res.violations if v["role"] == "compat/value-rewritten"]:
        return
    flags = _command_flags(ctx)
    # the commands that go through compat rewriting
    ca = ctx.ast.fn(CLI, "compat_args")
    # commands whose match arm (any pattern spelling) applies compat_arg_mut to the arguments
    cmds = set()
    arms_seen = 0
    for m in walk_no_nested_fn(ca.body):
        if m.k != "match":
            continue
        for a in m["arms"]:
            arms_seen += 1
            if "compat_arg_mut" in up(a["body"]):
                cmds |= set(re.findall(r'"(\w+)"', up(a["pat"])))
    if not arms_seen:
        res.undecided(ca, "compat_args no longer dispatches on the command name with a match: rewritten commands not determined")
        return
    table = dict(pairs)
    for s in NAMED:
        if s not in table:
            res.fail("compat/%s/missing" % s, node, "UCSC spelling `%s` has no rewrite" % s)
            continue
        for suffix in ("", "=7"):
            got = _simulate(pairs, ignore, unimpl, s + suffix, prefix_only)
            want = table[s] + suffix
            if got != want:
                res.fail("compat/%s/shadowed" % s, node, "`%s` is rewritten to `%s` (an earlier entry matches first), expected `%s`" % (s + suffix, got, want))
        for cmd in NAMED_CMDS[s]:
            if cmd not in cmds:
                res.fail("compat/%s/command" % s, ca, "command `%s` does not go through the compatibility rewriting" % cmd)
            elif table[s] not in flags.get(cmd, set()):
                res.fail("compat/%s/target" % s, node, "`%s` is rewritten to `%s`, which is not a long flag of `%s` (flags: %s)" % (s, table[s], cmd, sorted(flags.get(cmd, []))))
        if not [v for v in res.violations if "compat/%s/" % s in v["role"]]:
            res.ok(node, "`%s` -> `%s`, a long flag of %s" % (s, table[s], ", ".join(NAMED_CMDS[s])))
    # remaining rows: informational
    allflags = set().union(*[flags.get(c, set()) for c in cmds]) if cmds else set()
    for f, r in pairs:
        if f in NAMED:
            continue
        if r not in allflags:
            res.note("informational: `%s` -> `%s` is not a long flag of any rewritten command" % (f, r))
    for u in unimpl:
        got = _simulate(pairs, ignore, unimpl, u)
        if got != "PANIC":
            res.note("informational: unimplemented option `%s` is shadowed by an earlier replace entry (becomes `%s`)" % (u, got))
    res.count("pairs", len(pairs))


def ob_option_flow(ctx, res):
    """C16-F1"""
    for cmd, impl, opts in (("bedgraphtobigwig", "BigWigWrite", ["max_zooms", "manual_zoom_sizes", "compress", "input_sort_type", "block_size", "inmemory"]),
                            ("bedtobigbed", "BigBedWrite", ["max_zooms", "manual_zoom_sizes", "compress", "input_sort_type", "inmemory"])):
        fn = ctx.ast.fn(CLIDIR + cmd + ".rs", cmd)
        asg = {}
        for n in walk_no_nested_fn(fn.body):
            if n.k == "assign" and re.fullmatch(r"outb\.options\.(\w+)", up(strip(n["l"]))):
                asg[up(strip(n["l"])).split(".")[-1]] = n
        want = {"max_zooms": r"p0\.write_args\.nzooms", "manual_zoom_sizes": r"p0\.write_args\.zooms", "compress": r"!p0\.write_args\.uncompressed",
                "inmemory": r"p0\.write_args\.inmemory", "block_size": r"p0\.write_args\.block_size", "input_sort_type": r"match\(p0\.write_args\.sorted.*"}
        ok = True
        for o in opts:
            if o not in asg:
                res.fail("optionFlow/%s/%s/missing" % (cmd, o), fn, "option `%s` is never set from the command line" % o)
                ok = False
                continue
            og = origin(fn, asg[o]["r"])
            if not re.fullmatch(want[o], og):
                res.fail("optionFlow/%s/%s" % (cmd, o), asg[o], "options.%s is set from `%s` (origin %s)" % (o, up(asg[o]["r"]), og))
                ok = False
        # any further option that is set must come from the like-named command-line argument (or the one the table names)
        for o, node in asg.items():
            if o in opts:
                continue
            og = origin(fn, node["r"])
            if not og.startswith("p0."):
                continue            # not taken from the arguments at all: nothing to compare
            w = want.get(o, r"!?p0\.write_args\.%s" % re.escape(o))
            if not re.fullmatch(w, og):
                res.fail("optionFlow/%s/%s" % (cmd, o), node, "options.%s is set from `%s` (origin %s): a different command-line argument than the one of that name" % (o, up(node["r"]), og))
                ok = False
        # sorted table
        sm = [n for n in walk_no_nested_fn(fn.body) if n.k == "match" and "sorted" in up(n["scrut"])]
        tab = {}
        if sm:
            for a in sm[0]["arms"]:
                if a["pat"].k == "p_lit":
                    tab[a["pat"]["lit"]["v"]] = up(strip(a["body"])).split("::")[-1]
        if tab.get("all") != "ALL" or tab.get("start") != "START":
            res.fail("optionFlow/%s/sorted" % cmd, fn, "`--sorted all|start` must select InputSortType::ALL|START; table %s" % tab)
            ok = False
        # nthreads == 1 -> current thread runtime and channel_size 0
        i1 = [n for n in walk_no_nested_fn(fn.body) if n.k == "if" and up(strip(n["cond"])) == "nthreads == 1"]
        if len(i1) != 1 or "new_current_thread()" not in up(i1[0]["then"]) or "channel_size = 0" not in up(i1[0]["then"]) or "worker_threads(nthreads)" not in up(i1[0]["else"]):
            res.fail("optionFlow/%s/runtime" % cmd, fn, "thread count 1 must select the current-thread runtime with channel_size 0, otherwise a multi-thread runtime with that many workers")
            ok = False
        # allow_out_of_order_chroms = !matches!(input_sort_type, ALL)
        ao = [n for n in walk_no_nested_fn(fn.body) if n.k == "let" and up(n["pat"]) == "allow_out_of_order_chroms"]
        if len(ao) != 1 or up(ao[0]["init"]).replace(" ", "") != "!matches!(outb.options.input_sort_type,InputSortType::ALL)":
            res.fail("optionFlow/%s/allow" % cmd, fn, "out-of-order chromosomes are allowed iff the input is not declared fully sorted")
            ok = False
        # the four arms: (parallel x single_pass)
        wr = list(calls(fn.body, method="write"))
        wm = list(calls(fn.body, method="write_multipass"))
        wr = [c for c in wr if up(strip(c["recv"])) == "outb"]
        wm = [c for c in wm if up(strip(c["recv"])) == "outb"]
        if len(wr) != 3 or len(wm) != 2:
            res.fail("optionFlow/%s/arms" % cmd, fn, "expected write x3 (stdin, parallel, serial) and write_multipass x2; found %d/%d" % (len(wr), len(wm)))
            ok = False
        else:
            for c in wr[1:]:
                iff = c.parent
                while iff is not None and not (iff.k == "if" and "single_pass" in up(iff["cond"])):
                    iff = iff.parent
                if iff is None:
                    res.fail("optionFlow/%s/single-pass" % cmd, c, "single-pass write must be selected by --single-pass")
                    ok = False
            parser = "parse_bedgraph" if cmd == "bedgraphtobigwig" else "parse_bed"
            par = [c for c in walk_no_nested_fn(fn.body) if c.k == "call" and up(c["func"]) == "BedParserParallelStreamingIterator::new"]
            ser = [c for c in walk_no_nested_fn(fn.body) if c.k == "call" and up(c["func"]).startswith("BedParserStreamingIterator::from_")]
            if len(par) != 2 or any(up(strip(c["args"][3])) != parser or up(strip(c["args"][1])) != "allow_out_of_order_chroms" for c in par):
                res.fail("optionFlow/%s/parallel-source" % cmd, fn, "both parallel arms must build the source from (index, allow_out_of_order, path, %s)" % parser)
                ok = False
            if len(ser) != 3 or any(up(strip(c["args"][1])) != "allow_out_of_order_chroms" for c in ser):
                res.fail("optionFlow/%s/serial-source" % cmd, fn, "the serial arms must pass allow_out_of_order_chroms")
                ok = False
            paths = set()
            for c in par:
                paths.add(up(strip(c["args"][2])).replace(".clone()", ""))
            if len(paths) != 1:
                res.fail("optionFlow/%s/path" % cmd, fn, "parallel arms read different paths: %s" % paths)
                ok = False
        if ok:
            res.ok(fn, "%s: %s set from the like-named flags (compress = !uncompressed); -t 1 -> current-thread runtime + channel_size 0; 4 source/pass arms consistent" % (cmd, ", ".join(opts)))


def ob_restrict(ctx, res):
    """C16-F2: start/end honoured only together with chrom; unknown chrom handled"""
    for file, name in ((CLIDIR + "bigwigtobedgraph.rs", "write_bg_singlethreaded"), (CLIDIR + "bigbedtobed.rs", "write_bed_singlethreaded")):
        fn = ctx.ast.fn(file, name)
        st = [n for n in fn.body["stmts"][:2]]
        t = [up(s) for s in st]
        if t != ["let start = chrom.as_ref().and_then(|_| start);", "let end = chrom.as_ref().and_then(|_| end);"]:
            res.fail("restrict/%s/only-with-chrom" % name, fn, "start/end must be ignored unless a chromosome is given; first statements: %s" % t)
            continue
        ch = [n for n in walk_no_nested_fn(fn.body) if n.k == "mcall" and n["method"] == "find" and "c.name == arg_chrom" in up(n)]
        if len(ch) != 1:
            res.fail("restrict/%s/chrom-select" % name, fn, "the requested chromosome must be selected by name")
            continue
        res.ok(fn, "%s: --start/--end only with --chrom; chromosome selected by exact name; query (name, start|0, end|length)" % name)
    for file, name in ((CLIDIR + "bigwigtobedgraph.rs", "bigwigtobedgraph"), (CLIDIR + "bigbedtobed.rs", "bigbedtobed")):
        fn = ctx.ast.fn(file, name)
        single = [c for c in walk_no_nested_fn(fn.body) if c.k == "call" and up(c["func"]).endswith("_singlethreaded")]
        if len(single) != 1:
            res.fail("restrict/%s/dispatch" % name, fn, "expected one call of the single-threaded writer")
            continue
        a = [origin(fn, x) for x in single[0]["args"][2:5]]
        if a != ["p0.chrom", "p0.start", "p0.end"]:
            res.fail("restrict/%s/args" % name, single[0], "restriction arguments must be (args.chrom, args.start, args.end); got %s" % a)
            continue
        iff = single[0].parent
        while iff is not None and iff.k != "if":
            iff = iff.parent
        if iff is None or "nthreads == 1" not in up(iff["cond"]) or "chrom.is_some()" not in up(iff["cond"]):
            res.fail("restrict/%s/when" % name, single[0], "a restricted query must use the single-threaded writer (nthreads == 1 || chrom.is_some())")
            continue
        res.ok(single[0], "%s: restricted or single-thread runs use the serial writer with (chrom, start, end)" % name)


# ------------------------------------------------------------------ C17
AV = CLIDIR + "bigwigaverageoverbed.rs"
MISC = "bigtools/src/utils/misc.rs"


def ob_name_table(ctx, res):
    """C17-T1: name_for_bed_item and the --namecol parser are small pure functions over strings: both are evaluated on every mode / column"""
    from ..rules.interp import Interp, NotPure, _Return
    fn = ctx.ast.fn(MISC, "name_for_bed_item")
    holder = [None]

    def method(m, recv, args):
        if isinstance(recv, (str, int)) and not isinstance(recv, bool) and m in ("to_string", "to_owned", "as_str", "clone", "into", "as_deref", "as_ref", "trim") and not args:
            return str(recv) if m in ("to_string", "to_owned") else (recv.strip() if m == "trim" else recv)
        if (recv is None or (isinstance(recv, tuple) and len(recv) == 2 and recv[0] == "some")) and m in ("as_deref", "as_ref", "cloned") and not args:
            return recv
        if isinstance(recv, str) and m in ("split", "splitn") and args:
            return recv.split(args[-1])
        if isinstance(recv, str) and m in ("split_whitespace", "split_ascii_whitespace") and not args:
            return recv.split()
        if isinstance(recv, str) and m == "parse" and not args:
            return ("some", int(recv)) if recv.isdigit() else ("err", "ParseIntError")
        if isinstance(recv, list):
            if m == "nth" and len(args) == 1 and isinstance(args[0], int):
                return ("some", recv[args[0]]) if 0 <= args[0] < len(recv) else None
            if m in ("collect", "into_iter", "iter") and not args:
                return list(recv)
            if m in ("len", "count") and not args:
                return len(recv)
            if m == "get" and len(args) == 1 and isinstance(args[0], int):
                return ("some", recv[args[0]]) if 0 <= args[0] < len(recv) else None
        raise NotPure("method %s on %s" % (m, type(recv).__name__))

    def binop(op, a_, b_):
        if isinstance(a_, int) and isinstance(b_, int) and op in ("+", "-", "*"):
            if op == "-" and a_ - b_ < 0:
                raise NotPure("unsigned subtraction below zero")
            return a_ + b_ if op == "+" else (a_ - b_ if op == "-" else a_ * b_)
        raise NotPure("arithmetic")

    def macro(n, args):
        if n["path"] == "format" and args and isinstance(args[0], str):
            out, rest_ = args[0], list(args[1:])
            while "{}" in out and rest_:
                out = out.replace("{}", str(rest_.pop(0)), 1)
            return out
        raise NotPure("macro " + n["path"])

    def call(pth, args):
        if pth.split("::")[-1] in ("InvalidNameColError", "new") and args:
            return ("ERRVAL",) + tuple(str(a_)[:20] for a_ in args[:1])
        return NotImplemented
    ext = {"None": None, "method": method, "binop": binop, "macro": macro, "call": call}
    # the rest holds a field with a space and an empty field: columns are TAB separated, nothing else
    entry = {"__ref": True, "start": 7, "end": 9, "rest": "r 0\t\tr2"}
    cases = [(("variant", "Interval", []), ("some", "chrX:7-9")), (("variant", "None", []), ("some", "chrX\t7\t9\tr 0\t\tr2")),
             (("variant", "Column", [0]), ("some", "chrX")), (("variant", "Column", [1]), ("some", "7")), (("variant", "Column", [2]), ("some", "9")),
             (("variant", "Column", [3]), ("some", "r 0")), (("variant", "Column", [4]), ("some", "")), (("variant", "Column", [5]), ("some", "r2")),
             (("variant", "Column", [6]), "ERR")]
    for nm_, want in cases:
        it = Interp(ctx.ast, MISC, extern=ext)
        holder[0] = it
        try:
            got = it.call(fn, [nm_, "chrX", dict(entry)])
        except NotPure as e:
            res.undecided("nameTable/not-evaluable", fn, "name_for_bed_item is outside the fragment the rule evaluates (%s)" % e)
            break
        okc = (want == "ERR" and isinstance(got, tuple) and got[0] == "err") or got == want
        if not okc:
            res.fail("nameTable/fixed", fn, "name mode %s%s must give %s; name_for_bed_item returns %s (columns 0/1/2 are chrom/start/end, column k >= 3 is field k-3 of the tab-separated rest, "
                                            "a missing column is an error; interval -> chrom:start-end; none -> the input columns)" % (nm_[1], nm_[2] or "", want, got))
            return
    else:
        res.ok(fn, "name column k: 0/1/2 -> chrom/start/end, k>=3 -> field k-3 of the rest (missing -> Err; fields are TAB separated: a space or an empty field is part of / a field); interval -> chrom:start-end; none -> input line (9 cases evaluated)")
    # --namecol
    f2 = ctx.ast.fn(AV, "bigwigaverageoverbed", inline=True, keep=("process_chunk",))
    lets = [n for n in walk_no_nested_fn(f2.body) if n.k == "let" and n.get("init") is not None and "namecol" in up(n["init"]) and
            ("Name::" in up(n["init"]) or any(c_.k == "call" and any(g.name == up(c_["func"]).split("::")[-1] and g.body is not None and "Name::" in up(g.body)
                                                                      for g in ctx.ast.fns_in(AV)) for c_ in walk_no_nested_fn(n["init"])))]
    if len(lets) != 1:
        res.undecided("nameTable/parse", f2, "the statement turning --namecol into a Name was not located")
        return
    table = [(None, ("variant", "Column", [3])), ("interval", ("variant", "Interval", [])), ("none", ("variant", "None", [])), ("1", ("variant", "Column", [0])),
             ("4", ("variant", "Column", [3])), ("0", "ERR"), ("abc", "ERR")]
    for arg, want in table:
        it = Interp(ctx.ast, AV, extern=ext)
        try:
            env = {"args": {"__ref": True, "namecol": None if arg is None else ("some", arg)}}
            got = it.ev(lets[0]["init"], env, 0)
        except _Return as r:
            got = ("ret", r.v)
        except NotPure as e:
            res.undecided("nameTable/parse", lets[0], "--namecol parsing is outside the fragment the rule evaluates (%s)" % e)
            return
        is_err = isinstance(got, tuple) and got[0] in ("ret", "err") and (got[0] == "err" or (isinstance(got[1], tuple) and got[1][0] == "err"))
        if (want == "ERR" and not is_err) or (want != "ERR" and got != want):
            res.fail("nameTable/parse-table", lets[0], "--namecol %s must give %s; got %s (interval | none | 1-based integer, 0 and non-numbers are errors, default column 4)" % (arg, want, got))
            return
    res.ok(lets[0], "--namecol: interval | none | 1-based integer (0 and non-numbers -> Err); default column 4 (7 cases evaluated)")


def _nm(fn, name, at):
    n = Node({"k": "path", "path": name, "sp": at["sp"]})
    n.parent = at
    n.pkey = "x"
    n.fn = fn
    n.file = fn.file
    n.order = at.order
    return n


def _fmt_sites(root):
    out = []
    for n in walk_no_nested_fn(root):
        if n.k == "macro" and n["path"] in ("format", "writeln", "write") and "args" in n:
            a = n["args"]
            lit = [x for x in a if x.k == "lit" and x["t"] == "str"]
            if lit:
                i = a.index(lit[0])
                out.append((n["path"], lit[0]["v"], [up(strip(x)) for x in a[i + 1:]], n))
    return out


def ob_avg_siblings(ctx, res):
    """C17-S1"""
    main = ctx.ast.fn(AV, "bigwigaverageoverbed", inline=True, keep=("process_chunk",))
    pc = ctx.ast.fn(AV, "process_chunk", inline=True)
    ser = [n for n in walk_no_nested_fn(main.body) if n.k == "if" and up(strip(n["cond"])) == "parallel"]
    if len(ser) != 1 or ser[0].get("else") is None:
        res.fail("avgSiblings/shape", main, "`if parallel {..} else {..}` not found")
        return
    sb = ser[0]["else"]
    a = [(p, f, args) for p, f, args, n in _fmt_sites(pc.body)]
    b = [(p, f, args) for p, f, args, n in _fmt_sites(sb)]
    want_fmts = ["{}\t{}\t{:.3}\t{:.3}\t{:.3}\t{:.3}\t{:.3}", "{}\t{}\t{:.3}\t{:.3}\t{:.3}", "{}\t{}"]
    fa = [x[1] for x in a]
    fb = [x[1] for x in b if x[1] in want_fmts]
    if fa != want_fmts or fb != want_fmts:
        res.fail("avgSiblings/formats", pc, "row formats must be (7-column with min/max | 5-column) then `name\\tstats`; threaded %s serial %s" % (fa, fb))
        return
    aa = [x[2] for x in a]
    bb = [x[2] for x in b if x[1] in want_fmts]
    if aa != bb:
        res.fail("avgSiblings/args", pc, "threaded and serial rows use different arguments: %s vs %s" % (aa, bb))
        return
    if aa[0] != ["entry.size", "entry.bases", "entry.sum", "entry.mean0", "entry.mean", "entry.min", "entry.max"] or aa[1] != aa[0][:5] or aa[2] != ["name", "stats"]:
        res.fail("avgSiblings/columns", pc, "row columns must be size, bases, sum, mean0, mean[, min, max]; got %s" % aa)
        return
    for root, what in ((pc.body, "threaded"), (sb, "serial")):
        nf = [c for c in walk_no_nested_fn(root) if c.k == "call" and up(c["func"]) == "name_for_bed_item"]
        sf = [c for c in walk_no_nested_fn(root) if c.k == "call" and up(c["func"]) == "stats_for_bed_item"]
        if len(nf) != 1 or len(sf) != 1 or [up(strip(x)) for x in nf[0]["args"]] != ["name", "chrom", "entry"] or [up(strip(x)) for x in sf[0]["args"]][:2] != ["chrom", "entry"]:
            res.fail("avgSiblings/%s/calls" % what, main, "%s path must call name_for_bed_item(name, chrom, &entry) and stats_for_bed_item(chrom, entry, bigwig)" % what)
            return
        mm = [n for n in walk_no_nested_fn(root) if n.k == "match" and up(strip(n["scrut"])) == "add_min_max"]
        if len(mm) != 1:
            res.fail("avgSiblings/%s/minmax" % what, main, "row form must be selected by --min-max")
            return
    res.ok(pc, "threaded (process_chunk) and serial loops: same name/stats calls, same two row formats and argument lists, `name\\tstats` line")


def ob_avg_reassembly(ctx, res):
    """C17-D1"""
    fn = ctx.ast.fn(AV, "bigwigaverageoverbed")
    ms = {}
    for n in walk_no_nested_fn(fn.body):
        if n.k == "mcall" and up(strip(n["recv"])) == "chunk_data":
            ms.setdefault(n["method"], []).append(n)
    if set(ms) - {"push_back", "pop_front", "len"} or len(ms.get("push_back", [])) != 1 or len(ms.get("pop_front", [])) != 1:
        res.fail("avgReassembly/fifo", fn, "chunk_data must be used FIFO (one push_back site, one pop_front site); methods %s" % sorted(ms))
        return
    pb = ms["push_back"][0]
    lp = pb.parent
    while lp is not None and lp.k != "for":
        lp = lp.parent
    if lp is None or up(strip(lp["iter"])) != "chunks" or "bounded(1)" not in up(lp["body"]):
        res.fail("avgReassembly/per-chunk", pb, "one result receiver per chunk must be queued in chunk order")
        return
    snd = [c for c in calls(lp["body"], method="send")]
    if len(snd) != 1 or not re.match(r"\(start,end,", up(strip(snd[0]["args"][0])).replace(" ", "")):
        res.fail("avgReassembly/work", lp, "each chunk (start, end) must be sent to the workers with its own result sender")
        return
    # drain loop: every non-returning path out of the inner loop copies the chunk's temp file to the output
    w = ms["pop_front"][0]
    wl = w.parent
    while wl is not None and wl.k != "while":
        wl = wl.parent
    if wl is None:
        res.fail("avgReassembly/drain", w, "drain loop not found")
        return
    breaks = [n for n in walk_no_nested_fn(wl["body"]) if n.k == "break"]
    copies = [c for c in walk_no_nested_fn(wl["body"]) if c.k == "call" and up(c["func"]) == "io::copy"]
    if not breaks or len(copies) != len(breaks):
        res.fail("avgReassembly/drain-copy", wl, "every exit of the per-chunk wait must follow io::copy of that chunk's rows (%d breaks, %d copies)" % (len(breaks), len(copies)))
        return
    for b in breaks:
        blk = b.parent
        while blk is not None and blk.k != "block":
            blk = blk.parent
        t = up(blk)
        if not re.search(r"\.seek\(SeekFrom::Start\(0\)\)\?; io::copy\(&mut \w+,&mut bedoutwriter\)\?; break", t):
            res.fail("avgReassembly/drain-order", b, "a chunk's rows must be rewound and copied to the output before moving to the next chunk")
            return
    res.ok(wl, "chunk receivers queued in chunk order; each popped receiver is drained (seek 0 + io::copy into the output) before the next pop")
    # C18-F2 (process_chunk side): the view is exactly the chunk pair
    pc = ctx.ast.fn(AV, "process_chunk")
    fv = [c for c in walk_no_nested_fn(pc.body) if c.k == "call" and up(c["func"]) == "FileView::new"]
    if len(fv) != 1 or [origin(pc, a) for a in fv[0]["args"][1:]] != ["p0", "p1"]:
        res.fail("avgReassembly/view", pc, "process_chunk must read exactly the byte range (start, end) it was given")
        return
    cs = [c for c in walk_no_nested_fn(fn.body) if c.k == "call" and up(c["func"]) == "process_chunk"]
    for c in cs:
        a0, a1 = strip(c["args"][0]), strip(c["args"][1])
        st = binding_before(fn, up(a0), c) if a0.k == "path" else None
        st1 = binding_before(fn, up(a1), c) if a1.k == "path" else None
        # both names come from positions 0 and 1 of ONE pattern (a tuple `let`, `while let Ok((start, end, ..)) = rx.recv()`, a match arm ..)
        same = st is not None and st1 is not None and st[1] is st1[1] and st[-1] and st1[-1] and st[-1][:-1] == st1[-1][:-1] and st[-1][-1] == 0 and st1[-1][-1] == 1
        if not same:
            res.fail("avgReassembly/chunk-args", c, "process_chunk must receive the (start, end) pair of the received work item positionally")
            return
    res.ok(pc, "each worker reads FileView[start, end) of its chunk pair (%d call sites)" % len(cs))


def ob_values_over_bed(ctx, res):
    """C17-F1"""
    fn = ctx.ast.fn(CLIDIR + "bigwigvaluesoverbed.rs", "write")
    gi = list(calls(fn.body, method="get_interval"))
    if len(gi) != 1 or [up(strip(a)) for a in gi[0]["args"]] != ["chrom", "start", "end"]:
        res.fail("valuesOverBed/query", fn, "values must be queried for the region (chrom, start, end)")
        return
    t = up(fn.body)
    if "let size = end - start;" not in t or "vec![0f32; size as usize]" not in t.replace("vec!(", "vec![").replace(")", "]") and "vec![0f32; size as usize]" not in t:
        pass
    vec = [n for n in walk_no_nested_fn(fn.body) if n.k == "macro" and n["path"] == "vec" and "repeat" in n]
    okv = False
    if len(vec) == 1:
        ln = strip_cast(vec[0]["repeat"]["len"])
        txt = up(ln)
        if ln.k == "path":
            b = binding_before(fn, ln["path"], vec[0])
            txt = up(strip(b[1]["init"])) if b is not None and b[0] == "let" else txt
        okv = txt == "%s - %s" % (up(strip(gi[0]["args"][2])), up(strip(gi[0]["args"][1])))
    if not okv:
        res.fail("valuesOverBed/size", fn, "the per-region array must have end - start slots")
        return
    from ..astq import iter_loops, upn
    st = [n for n in walk_no_nested_fn(fn.body) if n.k == "assign" and strip(n["l"]).k == "index"]
    if len(st) != 1:
        res.undecided("valuesOverBed/fill", fn, "expected one indexed assignment filling the per-region array, found %d" % len(st))
        return
    # the innermost per-item loop around the assignment: `for i in a..b` or `(a..b).for_each(|i| ..)`
    lps = [l for l in iter_loops(fn.body) if any(x is st[0] for x in walk_no_nested_fn(l["body"]))]
    lps.sort(key=lambda l: -l.order)
    if not lps:
        res.undecided("valuesOverBed/fill", st[0], "the per-base loop around the slot assignment was not recognised")
        return
    lp = lps[0]
    iv = up(lp["pat"]).replace("mut ", "")
    outer = [l for l in lps[1:]]
    vv = up(outer[0]["pat"]).replace("mut ", "") if outer else "val"
    startn = up(strip(gi[0]["args"][1]))
    want_slot = sorted(["vals[%s - %s as usize]" % (iv, startn)])
    slot = upn(fn, st[0]["l"])
    if not re.fullmatch(r"\w+\[\(?%s - %s\)? as usize\]" % (re.escape(iv), re.escape(startn)), slot) or upn(fn, st[0]["r"]) != vv + ".value":
        res.fail("valuesOverBed/fill", st[0], "slot i - start must receive the value covering base i; the statement is `%s = %s`" % (slot, upn(fn, st[0]["r"])))
        return
    if upn(fn, lp["iter"]) != "%s.start..%s.end" % (vv, vv):
        res.fail("valuesOverBed/range", st[0], "each returned (clipped) value fills bases val.start..val.end; the loop runs over `%s`" % upn(fn, lp["iter"]))
        return
    res.ok(fn, "per region: array of end-start slots; each returned value fills slots [val.start-start, val.end-start)")


def ob_avg_iterator(ctx, res):
    """C17-S2: the library iterator (used by the Python binding) makes the same per-row calls as the tool and yields (name, stats) of the same row"""
    M = "bigtools/src/utils/misc.rs"
    fn = ctx.ast.fn(M, "bigwig_average_over_bed")
    cl = [n for n in walk_no_nested_fn(fn.body) if n.k == "closure"]
    ff = [c for c in walk_no_nested_fn(fn.body) if c.k == "call" and up(c["func"]).endswith("from_fn")]
    if len(ff) != 1 or len(cl) < 1:
        res.fail("avgIter/shape", fn, "expected a from_fn iterator")
        return
    body = strip(ff[0]["args"][0])
    if body.k != "closure":
        res.fail("avgIter/shape", fn, "from_fn must take the per-row closure")
        return
    b = body["body"]
    reads = [c for c in walk_no_nested_fn(b) if c.k == "mcall" and c["method"] == "read" and origin(fn, c["recv"]) == "new(p0)"]
    pb = [c for c in walk_no_nested_fn(b) if c.k == "call" and up(c["func"]) == "parse_bed"]
    nf = [c for c in walk_no_nested_fn(b) if c.k == "call" and up(c["func"]) == "name_for_bed_item"]
    sf = [c for c in walk_no_nested_fn(b) if c.k == "call" and up(c["func"]) == "stats_for_bed_item"]
    if [len(x) for x in (reads, pb, nf, sf)] != [1, 1, 1, 1]:
        res.fail("avgIter/calls", fn, "each call of the iterator must read one line, parse it, name it and compute its statistics exactly once; found read=%d parse_bed=%d name=%d stats=%d"
                 % (len(reads), len(pb), len(nf), len(sf)))
        return
    loops = [n for n in walk_no_nested_fn(b) if n.k in ("loop", "while", "for")]
    if loops:
        res.fail("avgIter/loop", loops[0], "a loop inside the per-row step can skip or merge rows")
        return
    if "read" not in origin(fn, pb[0]["args"][0]):
        res.fail("avgIter/line", pb[0], "parse_bed must be given the line just read")
        return
    na = [up(strip(x)) for x in nf[0]["args"]]
    sa = [up(strip(x)) for x in sf[0]["args"]]
    o_chrom_n, o_entry_n = origin(fn, nf[0]["args"][1]), origin(fn, nf[0]["args"][2])
    o_chrom_s, o_entry_s = origin(fn, sf[0]["args"][0]), origin(fn, sf[0]["args"][1])
    if "parse_bed" not in o_chrom_n or o_chrom_n != o_chrom_s or "parse_bed" not in o_entry_n or o_entry_n.lstrip("&") != o_entry_s.lstrip("&") or o_chrom_n == o_entry_n:
        res.fail("avgIter/args", sf[0], "name and statistics must be computed from the (chrom, entry) of the same parsed line; name args %s, stats args %s" % (na, sa))
        return
    if na[0] != "name" or "bigwig" not in sa[2]:
        res.fail("avgIter/args2", nf[0], "name mode and reader must be the function's own arguments")
        return
    # the successful item pairs the name with the statistics
    oks = [c for c in walk_no_nested_fn(b) if c.k == "call" and up(c["func"]) == "Some" and up(strip(c["args"][0])).startswith("Ok(")]
    good = 0
    for c in oks:
        inner = strip(strip(c["args"][0])["args"][0])
        if inner.k == "tuple" and len(inner["elems"]) == 2:
            o0, o1 = origin(fn, inner["elems"][0]), origin(fn, inner["elems"][1])
            if "name_for_bed_item" in o0 and "stats_for_bed_item" in o1:
                good += 1
            else:
                res.fail("avgIter/yield", c, "the row yielded must be (name_for_bed_item result, stats_for_bed_item result); got origins (%s, %s)" % (o0[:60], o1[:60]))
                return
    if good != 1:
        res.fail("avgIter/yield", fn, "exactly one success exit yielding (name, stats) expected, found %d" % good)
        return
    res.ok(fn, "library iterator: one line read, parsed, named and measured per step, from the same (chrom, entry); yields (name, stats); no loop inside the step")
