"""Span coverage of R-tree nodes and the index header (C04-V2 / C05-V1 / C09-V1)."""
from __future__ import annotations
import re
from ..astq import Node, up, strip, walk_no_nested_fn
from ..rules.layout import origin, emissions, flat_emits
from ..rules.idioms import first_of, last_of
from .wlayout import W, split_structure, recv_is_param0

LEXMAX = re.compile(r"^(?P<c>.+)\.iter\(\)\.map\(λ\(\.(?P<a>\w+),\.(?P<b>\w+)\)\)\.max\(\)\.unwrap\(\)#(?P<i>[01])$")


LEXMAXKEY = re.compile(r"^(?P<c>.+)\.iter\(\)\.max_by_key\(λ\(\.(?P<a>\w+),\.(?P<b>\w+)\)\)\.unwrap\(\)\.(?P<f>\w+)$")


def _end_pair_ok(fn, n_chrom, n_base, coll_hint, fields):
    """(end_chrom, end_base) is the lexicographic max over every child of (fields[0], fields[1])."""
    oc, ob = origin(fn, n_chrom), origin(fn, n_base)
    mc, mb = LEXMAX.match(oc), LEXMAX.match(ob)
    if mc and mb and mc.group("c") == mb.group("c") and mc.group("i") == "0" and mb.group("i") == "1" and \
            (mc.group("a"), mc.group("b")) == tuple(fields) == (mb.group("a"), mb.group("b")):
        return "max", mc.group("c")
    # `children.iter().max_by_key(|n| (n.a, n.b)).unwrap()` read field by field: the element holding the lexicographic maximum
    kc, kb = LEXMAXKEY.match(oc), LEXMAXKEY.match(ob)
    if kc and kb and kc.group("c") == kb.group("c") and (kc.group("a"), kc.group("b")) == tuple(fields) == (kb.group("a"), kb.group("b")) \
            and kc.group("f") == fields[0] and kb.group("f") == fields[1]:
        return "max", kc.group("c")
    lc, lb = last_of(fn, n_chrom), last_of(fn, n_base)
    if lc is not None and lb is not None and lc[0] == lb[0] and lc[1] == [fields[0]] and lb[1] == [fields[1]]:
        return "last", lc[0]
    return None, "%s / %s" % (oc, ob)


def _start_pair_ok(fn, n_chrom, n_base, fields):
    fc, fb = first_of(fn, n_chrom), first_of(fn, n_base)
    return fc is not None and fb is not None and fc[0] == fb[0] and fc[1] == [fields[0]] and fb[1] == [fields[1]]


def ob_rtree_node_spans(ctx, res):
    fn0 = ctx.ast.fn(W, "get_rtreeindex")
    from ..astq import private_callees
    lits = []
    for g in [fn0] + private_callees(ctx.ast, fn0, 1):
        for n in walk_no_nested_fn(g.body):
            if n.k == "struct" and n["path"].endswith("RTreeNode"):
                lits.append((g, n))
    if len(lits) != 2:
        (res.undecided if lits else res.fail)("rtreeNode/literals", fn0, "expected 2 RTreeNode literals (children = data sections / child nodes) in get_rtreeindex or the helpers it uses, found %d" % len(lits))
        return
    for fn, lit in lits:
        f = {x["name"]: x["e"] for x in lit["fields"]}
        # which arm: enclosing match arm pattern
        arm = lit.parent
        while arm is not None and arm.k != "arm":
            arm = arm.parent
        leaf = arm is not None and "DataSections" in up(arm["pat"])
        fields_s = ("chrom", "start") if leaf else ("start_chrom_idx", "start_base")
        fields_e = ("chrom", "end") if leaf else ("end_chrom_idx", "end_base")
        role = "leafparent" if leaf else "inner"
        if not _start_pair_ok(fn, f["start_chrom_idx"], f["start_base"], fields_s):
            res.fail("rtreeNode/%s/start" % role, lit, "node start bound must be the first child's (%s,%s); got %s / %s" % (
                fields_s[0], fields_s[1], up(f["start_chrom_idx"]), up(f["start_base"])))
            continue
        kind, c = _end_pair_ok(fn, f["end_chrom_idx"], f["end_base"], None, fields_e)
        if kind == "max":
            res.ok(lit, "R-tree node over %s: start<-first child, end<-lexicographic max over all children of (%s,%s)" % (
                "data sections" if leaf else "child nodes", fields_e[0], fields_e[1]))
        elif kind == "last":
            res.fail("rtreeNode/%s/end-last" % role, lit,
                     "node end bound is taken from the LAST child; children are ordered by start, so an earlier child (a bigBed block "
                     "holding a long entry) can end beyond it and the search prunes the node for queries it overlaps "
                     "(needs the lexicographic max over all children)")
        else:
            res.fail("rtreeNode/%s/end" % role, lit, "node end bound not recognised as covering every child: %s" % c)


def ob_rtree_header_bounds(ctx, res):
    from .wlayout import cir_header_parts
    fn = ctx.ast.fn(W, "write_rtreeindex", inline=True, keep=("rtree_block_size",))
    hp = cir_header_parts(fn)
    if hp is None or len(hp[2]) not in (2, 3):
        res.undecided("cirHeader/bounds-shape", fn, "the alternative (leaf root / inner root [/ empty index]) producing the 4 header bounds was not recognised")
        return
    class _Br:
        pass
    for label, g, vals, site, _ems in hp[2]:
        br = _Br()
        br.node, br.label = site, label

        class _E:
            def __init__(self, arg, node):
                self.arg, self.node = arg, node
        ems = [_E(v, v if isinstance(v, Node) else site) for v in vals]
        if g is not None:
            # the only accepted guarded arm: an empty leaf root with all-zero bounds
            from ..astq import strip_cast
            if up(strip(g)).endswith(".is_empty()") and len(ems) == 4 and all(e.arg is not None and up(strip_cast(e.arg)) == "0" for e in ems):
                res.ok(br.node, "empty index (no sections): zero bounds")
            else:
                res.fail("cirHeader/guarded-arm", br.node, "guarded bounds arm `%s` not recognised" % label)
            continue
        if len(ems) != 4:
            res.fail("cirHeader/bounds-count", br.node, "expected 4 bounds, found %d" % len(ems))
            continue
        leaf = "DataSections" in (br.label or "")
        fields_s = ("chrom", "start") if leaf else ("start_chrom_idx", "start_base")
        fields_e = ("chrom", "end") if leaf else ("end_chrom_idx", "end_base")
        role = "leafroot" if leaf else "innerroot"
        if not _start_pair_ok(fn, ems[0].arg, ems[1].arg, fields_s):
            res.fail("cirHeader/%s/start" % role, ems[0].node, "index start bound must be the first child's")
            continue
        kind, c = _end_pair_ok(fn, ems[2].arg, ems[3].arg, None, fields_e)
        if kind == "max":
            res.ok(br.node, "index header bounds (%s root): start<-first child, end<-lexicographic max over children" % ("leaf" if leaf else "inner"))
        elif kind == "last":
            res.fail("cirHeader/%s/end-last" % role, ems[2].node,
                     "index header end bound is taken from the LAST child of the root; an earlier child can end beyond it "
                     "(needs the lexicographic max over all children)")
        else:
            res.fail("cirHeader/%s/end" % role, ems[2].node, "index end bound not recognised: %s" % c)
