"""R-FLOW / R-ORDER obligations on the write pipeline: offsets, sizes, buffer-size maxima, header arguments."""
from __future__ import annotations
import re
from ..astq import resolves_to, Node, up, strip, strip_cast, walk_no_nested_fn, calls, dominates, stmt_of, binding_before, precedes_toplevel
from ..rules.layout import origin, origin_short, emissions, flat_emits
from .wlayout import W, WW, BW, slot_params, split_structure, recv_is_param0


def _tail_ok_tuple(fn):
    """names in the final `Ok((a,b,..))` / `(a,b,..)` of fn"""
    st = fn.body["stmts"]
    if not st or st[-1].k != "expr_stmt":
        return None
    t = strip(st[-1]["e"])
    if t.k == "call" and up(t["func"]) == "Ok" and len(t["args"]) == 1:
        t = strip(t["args"][0])
    if t.k == "tuple":
        return [strip(e) for e in t["elems"]]
    return None


def ob_write_data(ctx, res):
    """C01-F2 + C01-O1"""
    fn = ctx.ast.fn(W, "write_data")
    loops = [n for n in walk_no_nested_fn(fn.body) if n.k in ("while", "loop")]
    if len(loops) != 1:
        res.fail("writeData/loop", fn, "expected one receive loop")
        return
    lp = loops[0]
    c = strip(lp["cond"]) if lp.k == "while" else None
    if c is None or c.k != "let_expr" or not re.fullmatch(r"p2\.next\(\)", origin(fn, c["e"])):
        res.fail("writeData/recv", lp, "loop must be `while let Some(h) = frx.next().await` on the section-handle channel (3rd parameter)")
        return
    hname = up(c["pat"]["elems"][0]) if c["pat"].k == "p_tstruct" else None
    wa = list(calls(lp["body"], method="write_all"))
    if len(wa) != 1 or origin(fn, wa[0]["recv"]) != "p0":
        res.fail("writeData/write", lp, "exactly one write_all to the data file per received section")
        return
    o_w = origin(fn, wa[0]["args"][0])
    if not o_w.endswith("#0.data") or "iflet(p2.next())" not in o_w:
        res.fail("writeData/bytes", wa[0], "bytes written must be the `data` of the section obtained by awaiting the received handle; origin %s" % o_w)
        return
    sec = o_w[:-len(".data")]
    lits = [n for n in walk_no_nested_fn(lp["body"]) if n.k == "struct" and n["path"].endswith("Section")]
    if len(lits) != 1:
        res.fail("writeData/section", lp, "one Section record per written section")
        return
    f = {x["name"]: x["e"] for x in lits[0]["fields"]}
    want = {"chrom": sec + ".chrom", "start": sec + ".start", "end": sec + ".end", "size": sec + ".data.len()"}
    for k, v in want.items():
        if origin(fn, f[k]) != v:
            res.fail("writeData/section-" + k, lits[0], "Section.%s origin %s, expected %s (size must be the length of the very buffer written)" % (k, origin(fn, f[k]), v))
            return
    acc = strip(f["offset"])
    if acc.k != "path":
        res.fail("writeData/offset", lits[0], "Section.offset must be the running offset variable")
        return
    accn = acc["path"]
    b = binding_before(fn, accn, lp)
    if b is None or b[0] != "let" or up(strip_cast(b[1]["init"])) != "0" or not b[1]["pat"]["mut"]:
        res.fail("writeData/offset-init", lits[0], "running offset must start at 0 before the loop")
        return
    upd = [n for n in walk_no_nested_fn(fn.body) if n.k == "binary" and n["op"] == "+=" and up(strip(n["l"])) == accn]
    asg = [n for n in walk_no_nested_fn(fn.body) if n.k == "assign" and up(strip(n["l"])) == accn]
    if len(upd) != 1 or asg or origin(fn, upd[0]["r"]) != sec + ".data.len()":
        res.fail("writeData/offset-update", lits[0], "running offset must advance exactly once per section by the written size")
        return
    if not (lits[0].order < upd[0].order and dominates(lits[0], upd[0])):
        res.fail("writeData/offset-order", upd[0], "Section.offset must be the offset BEFORE it is advanced by this section's size")
        return
    snd = list(calls(lp["body"], method="send"))
    if len(snd) != 1 or origin(fn, snd[0]["recv"]) != "p1" or not resolves_to(fn, snd[0]["args"][0], lits[0]):
        res.fail("writeData/send", lp, "the Section record must be sent on the section channel (2nd parameter)")
        return
    if not dominates(wa[0], snd[0]):
        res.fail("writeData/send-order", snd[0], "the section must be written before its record is published")
        return
    res.ok(lp, "sequential loop: await handle -> write_all(section.data) -> Section{offset: acc, size: data.len()} sent -> acc += size; acc starts at 0")
    # returned (count, max buffer size)
    t = _tail_ok_tuple(fn)
    if t is None or len(t) != 2:
        res.fail("writeData/return", fn, "must return (section count, max uncompressed size)")
        return
    cnt = up(t[0])
    incs = [n for n in walk_no_nested_fn(lp["body"]) if n.k == "binary" and n["op"] == "+=" and up(strip(n["l"])) == cnt and up(strip(n["r"])) == "1"]
    if len(incs) != 1 or not _unconditional_in(incs[0], lp):
        res.fail("writeData/count", fn, "section count must be incremented once per received section")
        return
    res.ok(fn, "returns (number of sections written, max uncompressed buffer size)")


def _unconditional_in(n, loop):
    from ..astq import cond_ancestors
    for anc, key in cond_ancestors(n):
        if anc is loop:
            return True
        return False
    return False


# ---------------------------------------------------------------- re-basing closures
def rebase_closures(fn):
    """closures `|mut s| { s.offset = V; V += s.size; s }` -> list of (closure, V name, let-of-V)"""
    out = []
    for n in walk_no_nested_fn(fn.body):
        if n.k != "closure" or len(n["inputs"]) != 1:
            continue
        p = n["inputs"][0]
        if p.k != "p_ident":
            continue
        s = p["name"]
        b = strip(n["body"])
        if b.k != "block" or len(b["stmts"]) != 3:
            continue
        a, u, t = b["stmts"]
        if not (a.k == "expr_stmt" and strip(a["e"]).k == "assign" and up(strip(a["e"])["l"]) == s + ".offset"):
            continue
        V = up(strip(strip(a["e"])["r"]))
        ue = strip(u["e"]) if u.k == "expr_stmt" else None
        if not (ue is not None and ue.k == "binary" and ue["op"] == "+=" and up(strip(ue["l"])) == V and up(strip(ue["r"])) == s + ".size"):
            out.append((n, None, None))
            continue
        if not (t.k == "expr_stmt" and not t["semi"] and up(strip(t["e"])) == s):
            out.append((n, None, None))
            continue
        bnd = binding_before(fn, V, n)
        out.append((n, V, bnd[1] if bnd is not None and bnd[0] == "let" else None))
    return out


def ob_write_mid(ctx, res):
    """C01-F3 (callee side)"""
    fn = ctx.ast.fn(W, "write_mid", inline=True, keep=("get_rtreeindex", "write_rtreeindex", "write_chrom_tree", "rtree_block_size"))
    rc = rebase_closures(fn)
    if len(rc) != 1 or rc[0][1] is None or rc[0][2] is None:
        res.fail("writeMid/rebase", fn, "expected the re-basing closure `section.offset = cur; cur += section.size; section`")
        return
    cl, V, let = rc[0]
    pre_p = [i for i, (nm, ty) in enumerate(fn.params) if ty == "u64"]
    if len(pre_p) != 1 or origin(fn, let["init"]) != "p%d" % pre_p[0]:
        res.fail("writeMid/rebase-base", let, "section offsets must be re-based from pre_data (the u64 parameter); base is `%s`" % up(let["init"]))
        return
    # the closure is mapped over the raw sections parameter and the result feeds get_rtreeindex
    mp = cl.parent
    if not (mp is not None and mp.k == "mcall" and mp["method"] == "map" and re.fullmatch(r"p\d+", origin(fn, mp["recv"]))):
        res.fail("writeMid/rebase-map", cl, "re-basing must be mapped over the raw section iterator parameter")
        return
    from ..astq import value_stmt_of
    st = value_stmt_of(mp)
    sname = up(st["pat"]) if st is not None and st.k == "let" else None
    gi = list(calls(fn.body, func="get_rtreeindex"))
    wi = list(calls(fn.body, func="write_rtreeindex"))
    ct = list(calls(fn.body, func="write_chrom_tree"))
    if len(gi) != 1 or len(wi) != 1 or len(ct) != 1 or up(strip(gi[0]["args"][0])) != sname:
        res.fail("writeMid/index-input", fn, "get_rtreeindex must consume the re-based sections")
        return
    res.ok(cl, "section offsets re-based from pre_data by size; fed to get_rtreeindex")
    # tells
    tells = [c for c in calls(fn.body, method="tell")]
    tell_lets = {}
    for t in tells:
        s_ = stmt_of(t)
        if s_ is not None and s_.k == "let":
            tell_lets[up(s_["pat"])] = (s_, t)
    tail = _tail_ok_tuple(fn)
    if tail is None or len(tail) != 4:
        res.fail("writeMid/return", fn, "write_mid must return a 4-tuple")
        return
    names = [up(x) for x in tail]
    pos = {}
    body = fn.body["stmts"]

    def next_stmt_calls(let_stmt, callee):
        i = body.index(let_stmt) if let_stmt in body else -1
        if i < 0 or i + 1 >= len(body):
            return False
        nxt = body[i + 1]
        return any(True for _ in calls(nxt, func=callee))
    for nm, (s_, t) in tell_lets.items():
        if next_stmt_calls(s_, "write_chrom_tree") and nm in names:
            pos["chromIndexStart"] = names.index(nm)
        elif (next_stmt_calls(s_, "get_rtreeindex") or next_stmt_calls(s_, "write_rtreeindex")) and nm in names:
            # nothing may be written between this tell and write_rtreeindex
            between = [e for e in flat_emits(emissions(fn.body, recv_is_param0(fn)))]
            pos["indexStart"] = names.index(nm)
    # data_size = tell() - pre_data, first statement
    for i, x in enumerate(tail):
        o = origin(fn, x)
        if o == "(p0.tell()-p%d)" % pre_p[0]:
            s_ = binding_before(fn, up(x), tail[0])
            if s_ is not None and s_[1] is body[0]:
                pos["dataSize"] = i
        if o.startswith("get_rtreeindex(") and o.endswith("#2"):
            pos["totalSections"] = i
    if set(pos) != {"chromIndexStart", "indexStart", "dataSize", "totalSections"} or len(set(pos.values())) != 4:
        res.fail("writeMid/positions", fn, "write_mid must return data_size (=tell()-pre_data, taken first), the tell() immediately before write_chrom_tree, "
                 "the tell() immediately before the index, and the section count from get_rtreeindex; recognised %s" % pos)
        return
    if not (ct[0].order < gi[0].order):
        res.fail("writeMid/order", fn, "the chromosome tree must be written before the index position is taken")
        return
    # get_rtreeindex result passed through positionally to write_rtreeindex with the same options
    _index_pair(ctx, res, fn, gi[0], wi[0], "writeMid")
    ctx.cache["write_mid_pos"] = pos
    res.ok(fn, "returns %s" % pos)


def _index_pair(ctx, res, fn, gi, wi, what):
    """C05-F2: (nodes, levels, total) of get_rtreeindex reach write_rtreeindex positionally; same options value"""
    st = stmt_of(gi)
    if st is None or st.k != "let" or st["pat"].k != "p_tuple" or len(st["pat"]["elems"]) != 3:
        res.fail(what + "/index-bind", gi, "get_rtreeindex result must be bound as (nodes, levels, total_sections)")
        return False
    names = [up(e) for e in st["pat"]["elems"]]
    a = [up(strip(x)) for x in wi["args"]]
    if a[1:4] != names:
        res.fail(what + "/index-args", wi, "write_rtreeindex must receive (nodes, levels, total_sections) = %s in that order; got %s" % (names, a[1:4]))
        return False
    o1, o2 = origin(fn, gi["args"][1]), origin(fn, wi["args"][4])
    if o1 != o2:
        res.fail(what + "/index-options", wi, "get_rtreeindex and write_rtreeindex must use the same options value (%s vs %s)" % (o1, o2))
        return False
    if not dominates(gi, wi) and not gi.order < wi.order:
        res.fail(what + "/index-order", wi, "index must be built before it is written")
        return False
    res.ok(wi, "index built and written with the same options; (nodes, levels, section count) passed positionally")
    return True


def ob_index_pairs(ctx, res):
    """C05-F2: the four (get_rtreeindex, write_rtreeindex) pairs"""
    n = 0
    for name in ("write_mid", "write_zooms", "write_zoom_vals"):
        fn = ctx.ast.fn(W, name)
        gis = sorted(calls(fn.body, func="get_rtreeindex"), key=lambda c: c.order)
        wis = sorted(calls(fn.body, func="write_rtreeindex"), key=lambda c: c.order)
        if len(gis) != len(wis):
            res.fail("indexPairs/%s" % name, fn, "%d get_rtreeindex vs %d write_rtreeindex calls" % (len(gis), len(wis)))
            continue
        for g, w in zip(gis, wis):
            n += 1
            _index_pair(ctx, res, fn, g, w, "indexPairs/" + name)


def ob_zoom_offsets(ctx, res):
    """C07-F1: data_offset = tell() before the level's data, index_offset = tell() before write_rtreeindex, re-basing from data_offset"""
    # write_zooms
    fn = ctx.ast.fn(W, "write_zooms")
    _zoom_header_sites(ctx, res, fn, expected=1)
    fn = ctx.ast.fn(W, "write_zoom_vals")
    _zoom_header_sites(ctx, res, fn, expected=2)


def _zoom_header_sites(ctx, res, fn, expected):
    lits = [n for n in walk_no_nested_fn(fn.body) if n.k == "struct" and n["path"].endswith("ZoomHeader")]
    if len(lits) != expected:
        res.fail("zoomOffsets/%s/sites" % fn.name, fn, "expected %d ZoomHeader literal(s), found %d" % (expected, len(lits)))
        return
    rcs = rebase_closures(fn)
    for lit in lits:
        f = {x["name"]: x["e"] for x in lit["fields"]}
        od, oi = origin_short(fn, f["data_offset"]), origin_short(fn, f["index_offset"])
        if not od.endswith(".tell()") or not oi.endswith(".tell()"):
            res.fail("zoomOffsets/%s/tell" % fn.name, lit, "zoom data_offset/index_offset must be positions taken with tell(); origins %s / %s" % (od, oi))
            continue
        dn, inn = up(strip(f["data_offset"])), up(strip(f["index_offset"]))
        dlet = binding_before(fn, dn, lit)
        ilet = binding_before(fn, inn, lit)
        if dlet is None or ilet is None or dlet[0] != "let" or ilet[0] != "let":
            res.fail("zoomOffsets/%s/bind" % fn.name, lit, "offset bindings not found")
            continue
        # index_offset tell immediately precedes write_rtreeindex (next statement in the same block)
        blk = ilet[1].parent
        stmts = blk["stmts"] if blk is not None and blk.k == "block" else []
        i = stmts.index(ilet[1]) if ilet[1] in stmts else -1
        nxt_ok = False
        if i >= 0:
            for j in range(i + 1, min(i + 3, len(stmts))):
                if any(True for _ in calls(stmts[j], func="write_rtreeindex")):
                    nxt_ok = True
                    break
                if not (stmts[j].k == "expr_stmt" and strip(stmts[j]["e"]).k == "macro"):
                    break
        if not nxt_ok:
            res.fail("zoomOffsets/%s/index" % fn.name, ilet[1], "index_offset must be the position immediately before write_rtreeindex")
            continue
        # a re-basing closure based on data_offset precedes
        ok = False
        for cl, V, let in rcs:
            if V is not None and let is not None and up(strip(let["init"])) == dn and cl.order < lit.order:
                ok = True
        if not ok:
            res.fail("zoomOffsets/%s/rebase" % fn.name, lit, "section offsets of this level must be re-based from its data_offset (`%s`)" % dn)
            continue
        # data copied/handed over between data_offset and index_offset: expect_closed_write / await_real_file / switch
        mid = [c for c in walk_no_nested_fn(fn.body) if c.k == "mcall" and c["method"] in ("expect_closed_write", "await_real_file", "switch")
               and dlet[1].order < c.order < ilet[1].order]
        if not mid:
            res.fail("zoomOffsets/%s/data" % fn.name, lit, "the level's data must be placed between data_offset and index_offset")
            continue
        lv = origin_short(fn, f["reduction_level"])
        res.ok(lit, "ZoomHeader{level<-%s, data_offset<-tell() before the data, index_offset<-tell() right before write_rtreeindex}; sections re-based from data_offset" % lv[:40])


def ob_header_args(ctx, res):
    """C01-F3 / C06-F1 (caller side): what each of the four write entry points passes to write_info"""
    sp_ = slot_params(ctx)
    need = ["magic", "zoomLevels", "chromosomeTreeOffset", "fullDataOffset", "fullIndexOffset", "fieldCount", "definedFieldCount",
            "autoSqlOffset", "totalSummaryOffset", "uncompressBufSize", "zoomHeaders", "summary", "dataCount"]
    if any(k not in sp_ for k in need):
        res.fail("headerArgs/slots", ctx.ast.fn(W, "write_info"), "write_info slot->parameter map incomplete: %s" % sp_)
        return
    mid = ctx.cache.get("write_mid_pos")
    if mid is None:
        r2 = type(res)(res.ob)
        ob_write_mid(ctx, r2)
        mid = ctx.cache.get("write_mid_pos")
    if mid is None:
        res.undecided("headerArgs/write_mid", ctx.ast.fn(W, "write_mid"), "write_mid return positions not recognised")
        return
    from .wlayout import ob_write_pre_bw, ob_write_pre_bb
    for key, f in (("write_pre_pos_bw", ob_write_pre_bw), ("write_pre_pos_bb", ob_write_pre_bb)):
        if key not in ctx.cache:
            f(ctx, type(res)(res.ob))
    for file, impl, magic, prekey in ((WW, "BigWigWrite", "BIGWIG_MAGIC", "write_pre_pos_bw"), (BW, "BigBedWrite", "BIGBED_MAGIC", "write_pre_pos_bb")):
        pre = ctx.cache.get(prekey)
        if pre is None:
            res.fail("headerArgs/write_pre", file, "write_pre return positions not recognised")
            continue
        for name in ("write", "write_multipass"):
            fn = ctx.ast.fn(file, name, impl=impl)
            cs = list(calls(fn.body, func="write_info"))
            if len(cs) != 1:
                res.fail("headerArgs/%s/site" % name, fn, "expected one write_info call")
                continue
            a = cs[0]["args"]
            o = {k: origin_short(fn, a[sp_[k]]) for k in need}
            two = name == "write_multipass"
            vals = "write_vals_no_zoom()" if two else "write_vals()"
            want = {
                "magic": lambda s: s == "const:" + magic,
                "chromosomeTreeOffset": lambda s: s == "write_mid()#%d" % mid["chromIndexStart"],
                "fullIndexOffset": lambda s: s == "write_mid()#%d" % mid["indexStart"],
                "fullDataOffset": lambda s: s == "write_pre()#%d" % pre["fullDataOffset"],
                "totalSummaryOffset": lambda s: s == "write_pre()#%d" % pre["totalSummaryOffset"],
                "autoSqlOffset": (lambda s: s == "write_pre()#%d" % pre["autoSqlOffset"]) if "autoSqlOffset" in pre else (lambda s: s == "lit:0"),
                "zoomHeaders": lambda s: s == ("write_zoom_vals()#1" if two else "write_zooms()"),
                "zoomLevels": lambda s: s == ("write_zoom_vals()#1.len()" if two else "write_zooms().len()"),
                "summary": lambda s: s == vals + "#1",
            }
            if impl == "BigWigWrite":
                want["fieldCount"] = want["definedFieldCount"] = lambda s: s == "lit:0"
                want["dataCount"] = lambda s: s == "write_mid()#%d" % mid["totalSections"]
            else:
                want["fieldCount"] = want["definedFieldCount"] = lambda s: re.fullmatch(r"write_pre\(\)#\d+", s) is not None and s not in (
                    "write_pre()#%d" % v for v in pre.values())
                want["dataCount"] = lambda s: s == vals + "#1.total_items"
            if two:
                want["uncompressBufSize"] = lambda s: s in ("write_vals_no_zoom()#5.max()",) or re.fullmatch(r"write_zoom_vals\(\)#2\.max\(\)", s) is not None
            else:
                want["uncompressBufSize"] = lambda s: s == "write_vals()#5"
            bad = [k for k in need if not want[k](o[k])]
            if two and not bad:
                # the max must combine both passes
                full = origin(fn, a[sp_["uncompressBufSize"]])
                if not ("write_vals_no_zoom(" in full and "write_zoom_vals(" in full):
                    bad.append("uncompressBufSize")
            for k in bad:
                res.fail("headerArgs/%s/%s" % (name, k), cs[0], "%s::%s passes `%s` (origin %s) for header slot %s" % (impl, name, up(a[sp_[k]]), o[k], k))
            if not bad:
                res.ok(cs[0], "%s::%s: all 13 header arguments originate where the format requires (offsets from write_pre/write_mid tells, count, summary, max buffer size)" % (impl, name))
            # write_mid receives pre_data and the raw sections of the first pass
            wm = list(calls(fn.body, func="write_mid"))
            if len(wm) != 1:
                res.fail("headerArgs/%s/write_mid" % name, fn, "expected one write_mid call")
                continue
            o_pre = origin_short(fn, wm[0]["args"][1])
            o_sec = origin_short(fn, wm[0]["args"][2])
            o_ids = origin_short(fn, wm[0]["args"][4])
            if o_pre != "write_pre()#%d" % pre["preData"] or not o_sec.startswith(vals + "#") or not o_ids.startswith(vals + "#0"):
                res.fail("headerArgs/%s/write_mid-args" % name, wm[0], "write_mid must receive pre_data from write_pre, the first pass' sections and chromosome ids; got %s, %s, %s" % (o_pre, o_sec, o_ids))
            else:
                res.ok(wm[0], "write_mid(pre_data<-write_pre, sections and ids <- %s)" % vals)


def ob_vals_returns(ctx, res):
    """positions used above really are what the callee returns: write_vals -> (ids, summary, file, sections, zooms, max buf)"""
    for name, want in (("write_vals", {0: "chrom_ids", 1: "summary", 5: "maxbuf"}), ("write_vals_no_zoom", {0: "chrom_ids", 1: "summary", 5: "maxbuf"})):
        fn = ctx.ast.fn(W, name)
        t = _tail_ok_tuple(fn)
        if t is None or len(t) != 6:
            res.fail("valsReturn/%s" % name, fn, "expected a 6-tuple result")
            continue
        o0 = origin_short(fn, t[0])
        o1 = origin_short(fn, t[1])
        o5 = origin_short(fn, t[5])
        ok = True
        if o0 != "IdMap::default()" and "IdMap" not in o0 and "default()" not in o0:
            res.fail("valsReturn/%s/ids" % name, t[0], "position 0 must be the chromosome id map; origin %s" % o0)
            ok = False
        if ".unwrap_or()" not in o1:
            res.fail("valsReturn/%s/summary" % name, t[1], "position 1 must be the accumulated summary (or zeros); origin %s" % o1)
            ok = False
        full5 = origin(fn, t[5])
        if not re.search(r"block_on\(\)(\.unwrap\(\))?#1$", o5) or "write_chroms_with" not in full5:
            res.fail("valsReturn/%s/maxbuf" % name, t[5], "position 5 must be the max uncompressed buffer size reported by the chromosome writer task; origin %s" % o5)
            ok = False
        if ok:
            res.ok(fn, "%s returns (ids, summary, .., max buffer size at #5)" % name)
    fn = ctx.ast.fn(W, "write_zoom_vals")
    t = _tail_ok_tuple(fn)
    if t is None or len(t) != 3 or up(t[1]) != "zoom_entries":
        res.fail("valsReturn/write_zoom_vals", fn, "expected (file, zoom_entries, max buffer size)")
    else:
        res.ok(fn, "write_zoom_vals returns (file, zoom entries, max buffer size)")
    for wn in ("write_chroms_with_zooms", "write_chroms_without_zooms"):
        fn = ctx.ast.fn(W, wn)
        t = _tail_ok_tuple(fn)
        if t is None or len(t) < 3 or up(t[1]) not in _max_vars(fn):
            res.fail("valsReturn/" + wn, fn, "position 1 must be the running max of uncompressed buffer sizes")
        else:
            res.ok(fn, "%s returns (file, max buffer size, ..)" % wn)


_MAX_OTHER = {}


def _max_vars(fn):
    out = {}
    for n in walk_no_nested_fn(fn.body):
        if n.k == "assign":
            l = up(strip(n["l"]))
            r = strip(n["r"])
            # `m = m.max(x)` / `m = x.max(m)` / `m = max(m, x)`: rewritten in place so that callers can keep reading (recv = m, args = [x])
            ops = None
            if r.k == "mcall" and r["method"] == "max" and len(r["args"]) == 1:
                ops = [r["recv"], r["args"][0]]
            elif r.k == "call" and up(r["func"]).split("::")[-1] == "max" and len(r["args"]) == 2:
                ops = list(r["args"])
            if ops is not None and l in [up(strip(x)) for x in ops]:
                other = [x for x in ops if up(strip(x)) != l]
                if len(other) == 1:
                    _MAX_OTHER[id(n)] = other[0]
                    out.setdefault(l, []).append(n)
    return out


def ob_bufsize_flows(ctx, res):
    """C01-F4: every reported uncompressed size flows into a running max that is returned / reaches the header"""
    total = 0
    sites = [(W, "write_chroms_with_zooms", 2), (W, "write_chroms_without_zooms", 1), (W, "write_zoom_vals", 3), (W, "write_data", 1)]
    for file, name, floor in sites:
        fn = ctx.ast.fn(file, name)
        mv = _max_vars(fn)
        n = sum(len(v) for v in mv.values())
        if n < floor:
            res.fail("bufsize/%s/count" % name, fn, "%d `m = m.max(size)` accumulations, expected %d: a reported uncompressed size is dropped" % (n, floor))
            continue
        good = True
        for var, assigns in mv.items():
            for a in assigns:
                arg = strip(_MAX_OTHER[id(a)])
                o = origin_short(fn, arg)
                if not (re.search(r"#1$", o) or re.search(r"\.2$", o) or re.search(r"#2$", o)):
                    res.fail("bufsize/%s/source" % name, a, "`%s` accumulates `%s` (origin %s): must be the size component of a data-write / encode result" % (var, up(arg), o))
                    good = False
        # every awaited (count, size) pair binds its size to a used name
        for n_ in walk_no_nested_fn(fn.body):
            if n_.k == "let" and n_["pat"].k == "p_tuple" and len(n_["pat"]["elems"]) == 2 and n_.get("init") is not None:
                oi = up(n_["init"])
                if ("data_write" in oi or "section_raw" in oi) and ("await" in oi or "unwrap" in oi):
                    second = n_["pat"]["elems"][1]
                    while second.k == "p_type":
                        second = second["pat"]
                    nm = up(second)
                    if nm.startswith("_"):
                        res.fail("bufsize/%s/dropped" % name, n_, "uncompressed size of an awaited write result is discarded (`%s`)" % nm)
                        good = False
                    else:
                        used = any(up(strip(a["r"]["args"][0])) == nm for v in mv.values() for a in v)
                        if not used:
                            res.fail("bufsize/%s/unused" % name, n_, "uncompressed size `%s` never reaches a running max" % nm)
                            good = False
        if good:
            total += n
            res.ok(fn, "%d size(s) folded into a running max" % n)
    for file, impl in ((WW, "BigWigWrite"), (BW, "BigBedWrite")):
        fn = ctx.ast.fn(file, "write_multipass", impl=impl)
        mv = _max_vars(fn)
        n = sum(len(v) for v in mv.values())
        if n != 1:
            res.fail("bufsize/%s/multipass" % impl, fn, "two-pass writer must combine the buffer sizes of both passes with max")
        else:
            total += 1
            res.ok(fn, "two-pass: max(first pass, zoom pass)")
    res.count("max_flows", total)


def ob_idmap(ctx, res):
    """C01-D1: ids handed out by a monotone counter on first sight only"""
    fn = ctx.ast.fn("bigtools/src/utils/idmap.rs", "get_id")
    body = fn.body
    early = [n for n in walk_no_nested_fn(body) if n.k == "if" and strip(n["cond"]).k == "let_expr" and ".get(" in up(n["cond"]) and "return" in up(n["then"])]
    inc = [n for n in walk_no_nested_fn(body) if n.k == "binary" and n["op"] == "+=" and up(strip(n["l"])) == "self.next_id" and up(strip(n["r"])) == "1"]
    ins = list(calls(body, method=("or_insert", "insert")))
    if len(early) != 1 or len(inc) != 1 or len(ins) != 1:
        res.fail("idmap/shape", fn, "get_id must return the existing id, else take next_id, increment it by one and insert")
        return
    taken = [n for n in walk_no_nested_fn(body) if n.k == "let" and n.get("init") is not None and up(strip(n["init"])) == "self.next_id"]
    if len(taken) != 1 or not (taken[0].order < inc[0].order) or up(strip(ins[0]["args"][-1])) != up(taken[0]["pat"]):
        res.fail("idmap/order", fn, "the id inserted must be the counter value before the increment")
        return
    if not dominates(early[0], inc[0]):
        res.fail("idmap/first-sight", fn, "the counter must only advance for unseen keys")
        return
    res.ok(fn, "existing key -> stored id; new key -> next_id (then next_id += 1): ids follow first-appearance order")
    # do_read closures allocate the id only after the size lookup succeeded (C13-G7)
    for name in ("write_vals", "write_vals_no_zoom"):
        f2 = ctx.ast.fn(W, name)
        gid = list(calls(f2.body, method="get_id"))
        errs = [n for n in walk_no_nested_fn(f2.body) if n.k == "return" and "InvalidChromosome" in up(n)]
        if len(gid) != 1 or len(errs) != 1 or not (errs[0].order < gid[0].order):
            res.fail("idmap/%s/unknown-chrom" % name, f2, "an unknown chromosome must be refused (InvalidChromosome) before an id is allocated")
            continue
        from ..astq import opt_dispatch
        m = errs[0].parent
        scr = None
        while m is not None and isinstance(m, Node):
            d = opt_dispatch(m) if m.k in ("match", "if", "let") else None
            if d is not None and d[3] is not None and any(x is errs[0] for x in walk_no_nested_fn(d[3])):
                scr = d[0]
                break
            m = m.parent
        if scr is None:
            res.undecided("idmap/%s/lookup" % name, f2, "the InvalidChromosome refusal is not the None outcome of an Option dispatch the rule recognises")
            continue
        if ".get(" not in up(scr) or "p4" not in origin(f2, scr):
            res.fail("idmap/%s/lookup" % name, f2, "the refusal must be the None arm of chrom_sizes.get(chrom); it dispatches on `%s`" % up(scr)[:60])
            continue
        sc = [c for c in walk_no_nested_fn(f2.body) if c.k == "call" and up(c["func"]) in ("setup_chrom",)]
        if sc and not (gid[0].order < sc[0].order):
            res.fail("idmap/%s/order" % name, f2, "channels must be set up after the id is allocated")
            continue
        # one run per chromosome: sections are written in input order and the index needs them sorted by chromosome id, so a
        # chromosome that already holds an id (it re-appears after another one) must be refused, not given its old id again
        seen = [n for n in walk_no_nested_fn(f2.body) if n.k == "if" and n.order < gid[0].order and "return" in up(n["then"]) and "Err(" in up(n["then"])
                and re.fullmatch(r"(\w+)\.(contains|contains_key)\(&?(\w+)\)", up(strip(n["cond"])))]
        keyarg = up(strip(gid[0]["args"][0])).lstrip("&")
        okseen = [n for n in seen if up(strip(strip(n["cond"])["recv"])) == up(strip(gid[0]["recv"])) and up(strip(strip(n["cond"])["args"][0])).lstrip("&") == keyarg]
        if len(okseen) != 1:
            res.fail("idmap/%s/second-run" % name, gid[0],
                     "a chromosome that re-appears after another one (A, B, A with out-of-order chromosomes allowed) gets its old id again: its sections land after B's, "
                     "the data is no longer sorted by chromosome id, index nodes (span from the first child) no longer cover it and range queries silently miss the later run; "
                     "it must be refused before get_id")
            continue
        res.ok(gid[0], "%s: unknown chromosome -> Err(InvalidChromosome) before get_id / channel setup; chromosome seen before -> Err before get_id" % name)
    cf = ctx.ast.fn("bigtools/src/utils/idmap.rs", "contains", required=False)
    if cf is None or not re.fullmatch(r"\{self\.map\.contains_key\((\w+)\)\}", up(cf.body)):
        res.fail("idmap/contains", fn, "IdMap::contains must report exactly the keys that already hold an id")
    else:
        res.ok(cf, "IdMap::contains(key) == map.contains_key(key)")


def ob_process_data_positions(ctx, res):
    """C01-F6: the positional hand-over structs (InternalProcessData & co.) are built and destructured with the same meaning per position"""
    structs = {"InternalProcessData": "write_vals", "NoZoomsInternalProcessData": "write_vals_no_zoom", "ZoomsInternalProcessData": "write_zoom_vals"}
    for sname, builder in structs.items():
        bf = ctx.ast.fn(W, builder)
        cons = [c for c in walk_no_nested_fn(bf.body) if c.k == "call" and up(c["func"]).split("::")[-1] == sname]
        if len(cons) != 1:
            res.fail("processData/%s/constructor" % sname, bf, "expected one construction of %s in %s" % (sname, builder))
            continue
        built = []
        for a in cons[0]["args"]:
            t = up(strip(a))
            t = re.sub(r"\.clone\(\)$", "", t)
            t = re.sub(r"\.handle\(\)$", "", t)
            t = {"runtime": "runtime", "options": "options"}.get(t, t)
            built.append(t)
        n = 0
        for file in (WW, BW):
            for fn in ctx.ast.fns_in(file):
                if fn.name != "create" or fn.body is None:
                    continue
                pats = [x for x in walk_no_nested_fn(fn.body) if x.k == "let" and x["pat"].k == "p_tstruct" and x["pat"]["path"].split("::")[-1] == sname]
                for p in pats:
                    n += 1
                    names = [up(e) for e in p["pat"]["elems"]]
                    if len(names) != len(built):
                        res.fail("processData/%s/arity" % sname, p, "%s built with %d fields, destructured into %d" % (sname, len(built), len(names)))
                        continue
                    alias = {"length": {"length"}, "chrom": {"chrom"}, "chrom_id": {"chrom_id"}, "ftx": {"ftx"}, "zooms_channels": {"zooms_channels"},
                             "zoom_infos": {"temp_zoom_items", "zoom_infos"}, "options": {"options"}, "runtime": {"runtime"}}
                    bad = [(b, nm) for b, nm in zip(built, names) if nm not in alias.get(b, {b})]
                    if bad:
                        res.fail("processData/%s/%s" % (sname, fn.qual.split("::")[-2]), p, "%s is built as (%s) but destructured as (%s): positions %s disagree" % (
                            sname, ", ".join(built), ", ".join(names), bad))
                    else:
                        res.ok(p, "%s: (%s) built in %s and destructured position by position" % (sname, ", ".join(built), builder))
        if n < 2:
            res.fail("processData/%s/floor" % sname, bf, "expected the bigWig and bigBed processors to destructure %s" % sname)
