"""C03/C04/C05 query-path clauses: search order, cache discipline, cached/uncached siblings, values array, block data."""
from __future__ import annotations
import re
from ..astq import Node, up, strip, strip_cast, walk_no_nested_fn, calls, binding_before, dominates
from ..rules.layout import origin, origin_short

R = "bigtools/src/bbi/bbiread.rs"
RW = "bigtools/src/bbi/bigwigread.rs"
RB = "bigtools/src/bbi/bigbedread.rs"


def stmt_or_for(n):
    """'for' when n is (part of) the iterator expression of a for loop"""
    x = n
    while x is not None and isinstance(x, Node) and x.k == "mcall":
        if x.parent is not None and isinstance(x.parent, Node) and x.parent.k == "for" and x.pkey == "iter":
            return "for"
        x = x.parent
    return None


def ob_search_order(ctx, res):
    """C03-O1 / C05-O1: children visited depth-first in stored order; blocks appended in visit order"""
    fn = ctx.ast.fn(R, "next", impl="CirTreeBlockSearchIter")
    from ..rules.interp import Interp, NotPure
    # the search step is evaluated on a small index tree (node offsets and blocks are atoms; the queue and the node reader are mocked):
    # the blocks must come out in stored (depth-first, left-to-right) order, every node visited once with the iterator's own query
    TREE = {"R": (["A", "B", "C"], []), "A": (["A1", "A2"], []), "A1": ([], ["a1", "a1'"]), "A2": ([], ["a2"]), "B": (["B1"], []), "B1": ([], ["b1"]), "C": (["C1"], []), "C1": ([], ["c1"])}
    for fail_at in (None, "A2"):
        visited = []

        def method(m, recv, args, visited=visited, fail_at=fail_at):
            if isinstance(recv, dict) and recv.get("what") == "queue":
                q = recv["q"]
                if m == "pop_front" and not args:
                    return ("some", q.pop(0)) if q else None
                if m == "pop_back" and not args:
                    return ("some", q.pop()) if q else None
                if m == "push_front" and len(args) == 1:
                    q.insert(0, args[0])
                    return None
                if m == "push_back" and len(args) == 1:
                    q.append(args[0])
                    return None
                if m in ("is_empty",) and not args:
                    return not q
                if m == "len" and not args:
                    return len(q)
            if recv == "FILE" and m == "blocks_for_cir_tree_node" and len(args) == 5:
                visited.append(tuple(args))
                if args[1] == fail_at:
                    return ("err", "E")
                ch, bl = TREE[args[1]]
                return ("some", (list(ch), list(bl)))
            if isinstance(recv, list):
                if m in ("into_iter", "iter", "copied", "cloned", "drain") and len(args) <= 1:
                    return list(recv)
                if m == "rev" and not args:
                    return list(reversed(recv))
                if m == "is_empty" and not args:
                    return not recv
                if m == "for_each" and len(args) == 1:
                    for x_ in recv:
                        holder[0].apply_closure(args[0], [x_])
                    return None
            raise NotPure("method %s" % m)
        holder = [None]
        me = {"__ref": True, "remaining_childblocks": {"__ref": True, "what": "queue", "q": ["R"]}, "file": "FILE", "endianness": "ENDIAN", "chrom_ix": "C", "start": "S", "end": "E"}
        out, err = [], None
        try:
            for _ in range(len(TREE) + 2):
                holder[0] = Interp(ctx.ast, R, extern={"None": None, "method": method}, max_steps=20000)
                got = holder[0].call(fn, [me])
                if got is None:
                    break
                if got[0] == "some" and isinstance(got[1], tuple) and got[1][0] == "err":
                    err = got[1]
                    break
                out += list(got[1][1])
        except NotPure as e:
            res.undecided("searchOrder/not-evaluable", fn, "CirTreeBlockSearchIter::next is outside the fragment the rule evaluates (%s)" % e)
            return
        bad_args = [v for v in visited if v[0] != "ENDIAN" or list(v[2:]) != ["C", "S", "E"]]
        if bad_args:
            res.fail("searchOrder/args", fn, "every node must be read with the iterator's own (endianness, chrom, start, end); got %s" % (bad_args[0],))
            return
        if fail_at is None:
            if sorted(v[1] for v in visited) != sorted(TREE) or out != ["a1", "a1'", "a2", "b1", "c1"] or err is not None:
                res.fail("searchOrder/methods", fn, "every node must be visited once and the blocks come out in stored order: nodes visited %s, blocks yielded %s (required a1, a1', a2, b1, c1)" % ([v[1] for v in visited], out))
                return
        else:
            if err != ("err", "E") or [b_ for b_ in out if b_ not in ("a1", "a1'")]:
                res.fail("searchOrder/error", fn, "a node read error must be yielded, not skipped: yielded %s then %s" % (out, err))
                return
    res.ok(fn, "search step evaluated on an 8-node balanced index tree: every node visited once, with the iterator's own query; blocks yielded in that order; a read error is yielded")
    # search_cir_tree_inner collects in iteration order, starting from the root offset
    si = ctx.ast.fn(R, "search_cir_tree_inner")
    for with_err in (False, True):
        seen = {}

        def method(m, recv, args):
            if isinstance(recv, dict) and recv.get("what") == "queue":
                if m in ("push_front", "push_back") and len(args) == 1:
                    recv["q"].insert(0, args[0]) if m == "push_front" else recv["q"].append(args[0])
                    return None
            if isinstance(recv, list):
                if m == "extend" and len(args) == 1 and isinstance(args[0], list):
                    recv.extend(args[0])
                    return None
                if m == "push" and len(args) == 1:
                    recv.append(args[0])
                    return None
                if m in ("into_iter", "iter") and not args:
                    return list(recv)
            raise NotPure("method %s" % m)

        def call(path, args):
            if path.split("::")[-1] in ("with_capacity", "new") and ("VecDeque" in path or "Vec" in path):
                return {"__ref": True, "what": "queue", "q": []} if "VecDeque" in path else []
            return NotImplemented

        def macro(n, args):
            if n["path"] in ("vec", "smallvec"):
                return []
            raise NotPure("macro " + n["path"])

        def iterate(v, seen=seen, with_err=with_err):
            if isinstance(v, dict) and v.get("__type") == "CirTreeBlockSearchIter":
                seen.update(v)
                return [("some", ["b1", "b2"])] + ([("err", "E")] if with_err else []) + [("some", ["b3"])]
            raise NotPure("iteration over %r" % (type(v).__name__,))
        try:
            got = Interp(ctx.ast, R, extern={"None": None, "method": method, "call": call, "macro": macro, "iterate": iterate}).call(si, ["ENDIAN", "FILE", "AT", "C", "S", "E"])
        except NotPure as e:
            res.undecided("searchOrder/collect", si, "search_cir_tree_inner is outside the fragment the rule evaluates (%s)" % e)
            break
        q = seen.get("remaining_childblocks")
        if not seen or not isinstance(q, dict) or q.get("q") != ["AT"]:
            res.fail("searchOrder/collect", si, "the search must start from the root node offset alone; pending nodes at start: %s" % (q.get("q") if isinstance(q, dict) else q))
            return
        if [seen.get(k) for k in ("chrom_ix", "start", "end", "endianness", "file")] != ["C", "S", "E", "ENDIAN", "FILE"]:
            res.fail("searchOrder/iter-fields", si, "the search iterator must carry the query unchanged; carries %s" % {k: seen.get(k) for k in ("chrom_ix", "start", "end", "endianness")})
            return
        if (not with_err and got != ("some", ["b1", "b2", "b3"])) or (with_err and got != ("err", "E")):
            res.fail("searchOrder/collect", si, "blocks must be appended in visit order and a node error returned; got %s" % (got,))
            return
    res.ok(si, "search_cir_tree_inner: root first, blocks appended in visit order, query carried unchanged")
    # nodes_overlapping pushes in iteration order
    no = ctx.ast.fn(R, "nodes_overlapping")
    ORDER_KEEPING = {"filter", "map", "filter_map", "collect", "cloned", "copied", "into_iter", "iter", "by_ref", "inspect", "map_while", "flatten", "flat_map", "for_each", "extend"}
    scans, bad, unknown = 0, None, None
    for x in walk_no_nested_fn(no.body):
        if x.k == "for":
            base = strip(x["iter"])
            meths = []
            while base.k == "mcall":
                meths.append(base["method"])
                base = strip(base["recv"])
            if base.k == "path" and base["path"] == "iter":
                scans += 1
                wrong = [m_ for m_ in meths if m_ not in ORDER_KEEPING]
                if wrong:
                    bad = (x, wrong[0])
        elif x.k == "path" and x["path"] == "iter" and x.parent is not None and x.parent.k == "mcall" and strip(x.parent["recv"]) is x:
            meths, y = [], x.parent
            while y is not None and isinstance(y, Node) and y.k == "mcall":
                meths.append(y["method"])
                y = y.parent if (y.parent is not None and isinstance(y.parent, Node) and y.parent.k == "mcall" and strip(y.parent["recv"]) is y) else None
            top = x.parent
            if stmt_or_for(top) == "for":
                continue        # counted above
            scans += 1
            wrong = [m_ for m_ in meths if m_ not in ORDER_KEEPING]
            if wrong and wrong[0] in ("rev", "sorted", "sorted_by", "sorted_by_key", "step_by", "skip", "take", "skip_while", "take_while", "last", "nth", "next", "find", "max_by_key", "min_by_key"):
                bad = (x.parent, wrong[0])
            elif wrong:
                unknown = (x.parent, wrong[0])
    if bad:
        res.fail("searchOrder/nodes", bad[0], "both node kinds must scan ALL their items in stored order; the scan uses `.%s(..)`" % bad[1])
    elif unknown or scans != 2:
        res.undecided("searchOrder/nodes", (unknown or (no,))[0], "item scans of the two node kinds not recognised (%d scans found%s)" % (scans, ", adaptor `%s`" % unknown[1] if unknown else ""))
    else:
        res.ok(no, "leaf and non-leaf items scanned in stored order; kept items pushed in that order")
    # search_cir_tree resolves the chromosome by exact name and passes the index location
    sc = ctx.ast.fn(R, "search_cir_tree")
    c = list(calls(sc.body, func="search_cir_tree_inner"))
    if len(c) != 1:
        res.fail("searchOrder/entry", sc, "search_cir_tree must delegate once")
        return
    a = [origin(sc, x) for x in c[0]["args"]]
    if not (a[0].endswith("endianness") and a[1] == "p1" and re.fullmatch(r"p2(\.1|#\w*CirTreeIndex\.1)", a[2]) and a[4:] == ["p4", "p5"] and "find(" in a[3] and ".id" in a[3]):
        res.fail("searchOrder/entry-args", c[0], "search_cir_tree must pass (header endianness, file, index offset, id of the chromosome found by name, start, end); got %s" % a)
        return
    fnd = [n for n in walk_no_nested_fn(sc.body) if n.k == "mcall" and n["method"] == "find"]
    if len(fnd) != 1 or not re.search(r"\|&?(\w+)\| \1\.name == chrom_name", up(fnd[0]["args"][0])):
        res.fail("searchOrder/chrom", sc, "the chromosome must be resolved by exact name")
        return
    res.ok(sc, "search_cir_tree: chromosome id by exact name (unknown -> Err), query passed positionally")


CACHE_OK = {"block_data": {"get", "len", "clear", "insert", "clone"}, "cir_tree_node_map": {"entry", "clone"}}


def ob_cache(ctx, res):
    """C03-C1"""
    blk = ctx.ast.struct(R, "Block")
    der = " ".join(blk["attrs"])
    names = [f["name"] for f in blk["fields"]]
    if not ("Hash" in der and "Eq" in der and "PartialEq" in der) or names != ["offset", "size"]:
        res.fail("cache/key", R, "the block-cache key `Block` must derive Hash + Eq over exactly (offset, size); derives `%s`, fields %s" % (der, names))
        return
    for it in ctx.ast.files[R]["items"]:
        if isinstance(it, Node) and it.k == "impl" and it.get("trait") and it["trait"].split("<")[0] in ("Hash", "PartialEq", "Eq") and it["self_ty"] == "Block":
            res.fail("cache/manual-key", R, "manual %s impl for Block (the derived one covers both fields)" % it["trait"])
            return
    res.ok(R, "cache key Block derives Hash/PartialEq/Eq over (offset, size)")
    n = 0
    for fn in ctx.ast.fns_in(R):
        if fn.body is None or not any("CachedBBIFileRead" in nm for kind, nm in fn.container):
            continue
        for x in walk_no_nested_fn(fn.body):
            if x.k == "mcall":
                r = up(strip(x["recv"]))
                for field, allowed in CACHE_OK.items():
                    if r == "self." + field:
                        n += 1
                        if x["method"] not in allowed:
                            res.fail("cache/%s/%s" % (field, x["method"]), x, "cache `%s` is accessed with `%s` (allowed: %s): a stored value could be mutated or aliased" % (field, x["method"], sorted(allowed)))
    if n < 6:
        res.fail("cache/floor", R, "only %d cache accesses found (expected >= 6)" % n)
        return
    g = ctx.ast.fn(R, "get_block_data", impl="CachedBBIFileRead")
    from ..rules.interp import Interp, NotPure
    undec = False
    for hit in (True, False):
        for full in (False, True):
            for fails in (False, True):
                log = []
                BLK = {"__type": "Block", "offset": "OFF", "size": "SZ"}
                K = lambda x: tuple(sorted((k_, v_) for k_, v_ in x.items() if not k_.startswith("__"))) if isinstance(x, dict) else x
                cache = {"__ref": True, "store": {K(BLK): "STORED"} if hit else {}, "n": 5000 if full else 3}

                def method(m, recv, args, cache=cache, log=log):
                    if recv is cache:
                        if m == "get" and len(args) == 1:
                            return ("some", cache["store"][K(args[0])]) if K(args[0]) in cache["store"] else None
                        if m == "contains_key" and len(args) == 1:
                            return K(args[0]) in cache["store"]
                        if m == "len" and not args:
                            return cache["n"]
                        if m == "clear" and not args:
                            cache["store"].clear()
                            cache["n"] = 0
                            return None
                        if m == "insert" and len(args) == 2:
                            log.append(("insert", args[0], args[1]))
                            cache["store"][K(args[0])] = args[1]
                            return None
                    if m in ("cloned", "to_vec", "to_owned") and not args:
                        return recv
                    raise NotPure("method %s" % m)

                def reader(*args, fails=fails, log=log):
                    log.append(("read",) + tuple(args))
                    return ("err", "E") if fails else ("some", "DATA")
                me = {"__ref": True, "block_data": cache, "read": "READ", "cir_tree_node_map": "NODEMAP"}
                try:
                    got = Interp(ctx.ast, R, extern={"None": None, "method": method, "read_block_data": reader}).call(g, [me, "INFO", BLK])
                except NotPure as e:
                    res.undecided("cache/not-evaluable", g, "get_block_data is outside the fragment the rule evaluates (%s)" % e)
                    undec = True
                    break
                case = "%s, cache %s, read %s" % ("hit" if hit else "miss", "full" if full else "not full", "fails" if fails else "succeeds")
                if hit:
                    if got != ("some", "STORED") or log:
                        res.fail("cache/hit", g, "a cache hit must return a clone of the stored bytes and touch nothing else; %s -> %s, effects %s" % (case, got, log))
                        return
                    continue
                reads = [e for e in log if e[0] == "read"]
                if [(e[0], e[1], e[2], K(e[3])) for e in reads if len(e) == 4] != [("read", "INFO", "READ", K(BLK))]:
                    res.fail("cache/miss", g, "a miss must read the block once with (info, reader, block); %s -> effects %s" % (case, log))
                    return
                if fails:
                    if got != ("err", "E") or any(e[0] == "insert" for e in log):
                        res.fail("cache/miss", g, "a failed read must be returned and nothing stored; %s -> %s, effects %s" % (case, got, log))
                        return
                    continue
                if got != ("some", "DATA") or cache["store"].get(K(BLK)) != "DATA":
                    res.fail("cache/miss", g, "a miss must store the bytes read under the same key and return them; %s -> %s, stored %s" % (case, got, cache["store"]))
                    return
            if undec:
                break
        if undec:
            break
    if undec:
        return
    res.ok(g, "block cache: hit -> clone; miss -> read_block_data(info, reader, block), insert(*block, clone), return; only get/insert/len/clear/clone used")
    # node cache: Occupied -> the stored items reach nodes_overlapping (all that can overlap the query); Vacant -> read_node, insert clone
    b = ctx.ast.fn(R, "blocks_for_cir_tree_node", impl="CachedBBIFileRead")

    def item(s_, e_, tag):
        return {"__type": "Item", "start_chrom_ix": 0, "start_base": s_, "end_chrom_ix": 0, "end_base": e_, "data_offset": tag, "data_size": 1}
    QC, QS, QE = 0, 50, 150

    def keep(items):
        # the items of a node that can overlap the query (what nodes_overlapping selects): shares or touches [QS, QE] on chromosome QC
        return [x["data_offset"] for x in items if isinstance(x, dict) and x["end_base"] >= QS and x["start_base"] <= QE]
    for kind, side in (("Leaf", "Left"), ("NonLeaf", "Right")):
        for hit in (True, False):
            for fails in (False, True):
                log = []
                ENTRY = {"__ref": True, "what": "entry"}
                STORED = [item(0, 60, "s1"), item(60, 140, "s2"), item(140, 300, "s3"), item(300, 400, "s4")]
                FRESH = [item(0, 60, "r1"), item(60, 140, "r2"), item(140, 300, "r3")]
                box = []

                def method(m, recv, args, log=log, ENTRY=ENTRY, hit=hit, kind=kind, side=side, STORED=STORED, box=box):
                    if recv == "NODEMAP" and m == "entry" and len(args) == 1:
                        log.append(("entry", args[0]))
                        return ("variant", "Occupied" if hit else "Vacant", [ENTRY])
                    if recv == "NODEMAP" and m in ("get", "get_mut") and len(args) == 1:
                        log.append(("entry", args[0]))
                        return ("some", ("variant", side, [list(STORED)])) if hit else None
                    if recv == "NODEMAP" and m == "insert" and len(args) == 2:
                        log.append(("insert", args[0], args[1]))
                        return None
                    if recv is ENTRY and m == "get" and not args:
                        return ("variant", side, [list(STORED)])
                    if recv is ENTRY and m == "insert" and len(args) == 1:
                        log.append(("insert", "OFF", args[0]))
                        return None
                    if isinstance(recv, list) and m in ("into_iter", "iter", "collect", "cloned", "copied", "to_vec") and not args:
                        return list(recv)
                    if isinstance(recv, list) and m == "len" and not args:
                        return len(recv)
                    if isinstance(recv, list) and m == "partition_point" and len(args) == 1:
                        k_ = 0
                        while k_ < len(recv) and box[0].apply_closure(args[0], [recv[k_]]):
                            k_ += 1
                        return k_
                    if isinstance(recv, list) and m in ("skip_while", "take_while", "filter") and len(args) == 1:
                        if m == "filter":
                            return [x for x in recv if box[0].apply_closure(args[0], [x])]
                        k_ = 0
                        while k_ < len(recv) and box[0].apply_closure(args[0], [recv[k_]]):
                            k_ += 1
                        return recv[k_:] if m == "skip_while" else recv[:k_]
                    if isinstance(recv, list) and m in ("skip", "take") and len(args) == 1 and isinstance(args[0], int):
                        return recv[args[0]:] if m == "skip" else recv[:args[0]]
                    raise NotPure("method %s" % m)

                def read_node(*args, fails=fails, log=log, kind=kind, FRESH=FRESH):
                    log.append(("read_node",) + tuple(args))
                    return ("err", "E") if fails else ("some", ("variant", kind, [list(FRESH)]))

                def overlapping(*args):
                    return ("OVERLAPPING",) + tuple(args)
                me = {"__ref": True, "cir_tree_node_map": "NODEMAP", "read": "READ", "block_data": "BLOCKS"}
                it_ = Interp(ctx.ast, R, extern={"None": None, "method": method, "read_node": read_node, "nodes_overlapping": overlapping})
                box.append(it_)
                try:
                    got = it_.call(b, [me, "ENDIAN", "OFF", QC, QS, QE])
                except NotPure as e:
                    res.undecided("cache/node", b, "the caching blocks_for_cir_tree_node is outside the fragment the rule evaluates (%s)" % e)
                    return
                case = "%s node, %s, read %s" % (kind, "cached" if hit else "not cached", "fails" if fails else "succeeds")
                if ("entry", "OFF") not in log:
                    res.fail("cache/node", b, "node cache must be keyed by node_offset; %s -> effects %s" % (case, log))
                    return
                reads = [e for e in log if e[0] == "read_node"]

                def passed(g):
                    # ("some", ("OVERLAPPING", ("variant", kind, [items]), C, S, E)) -> (items, query) or None
                    if isinstance(g, tuple) and len(g) == 2 and g[0] == "some" and isinstance(g[1], tuple) and len(g[1]) == 5 and g[1][0] == "OVERLAPPING":
                        v_ = g[1][1]
                        if isinstance(v_, tuple) and len(v_) == 3 and v_[0] == "variant" and v_[1] == kind and len(v_[2]) == 1 and isinstance(v_[2][0], list):
                            return v_[2][0], tuple(g[1][2:])
                    return None
                if hit:
                    pz = passed(got)
                    if reads or any(e[0] == "insert" for e in log) or pz is None or pz[1] != (QC, QS, QE):
                        res.fail("cache/node", b, "a cached node must be iterated from the stored items, with the query unchanged and nothing read; %s -> %s, effects %s" % (case, str(got)[:200], log))
                        return
                    if keep(pz[0]) != keep(STORED):
                        res.fail("cache/node", b, "a cached node hands %s to nodes_overlapping for the query %s-%s; the stored items that can overlap it are %s (items [start,end): s1 [0,60) s2 [60,140) "
                                                  "s3 [140,300) s4 [300,400)): a second query through the same reader loses blocks the first one found" % (keep(pz[0]), QS, QE, keep(STORED)))
                        return
                    continue
                if reads != [("read_node", "READ", "OFF", "ENDIAN")]:
                    res.fail("cache/node", b, "an uncached node must be read once with read_node(reader, node_offset, endianness); %s -> effects %s" % (case, log))
                    return
                if fails:
                    if got != ("err", "E") or any(e[0] == "insert" for e in log):
                        res.fail("cache/node", b, "a failed node read must be returned and nothing stored; %s -> %s, effects %s" % (case, got, log))
                        return
                    continue
                ins = [e for e in log if e[0] == "insert"]
                pz = passed(got)
                stored_ok = len(ins) == 1 and ins[0][:2] == ("insert", "OFF") and isinstance(ins[0][2], tuple) and ins[0][2][:2] == ("variant", side) \
                    and [x.get("data_offset") for x in ins[0][2][2][0]] == ["r1", "r2", "r3"]
                if not stored_ok or pz is None or pz[1] != (QC, QS, QE) or keep(pz[0]) != keep(FRESH):
                    res.fail("cache/node", b, "an uncached node's items must be stored (all of them, under node_offset) and iterated, with the query unchanged; %s -> %s, effects %s" % (case, str(got)[:200], str(log)[:300]))
                    return
    res.ok(b, "node cache keyed by node_offset: Occupied -> clone iterated; Vacant -> read_node result collected, clone inserted")


def ob_cached_siblings(ctx, res):
    """C03-S2"""
    pl = ctx.ast.fn(R, "blocks_for_cir_tree_node", impl="S as BBIFileRead")
    ca = ctx.ast.fn(R, "blocks_for_cir_tree_node", impl="CachedBBIFileRead")
    for fn, what in ((pl, "plain"), (ca, "cached")):
        no = [c for c in walk_no_nested_fn(fn.body) if c.k == "call" and up(c["func"]) == "nodes_overlapping"]
        want = 1 if what == "plain" else 2
        if len(no) != want:
            res.fail("cachedSiblings/%s/tail" % what, fn, "expected %d nodes_overlapping call(s)" % want)
            return
        for c in no:
            a = [origin(fn, x) for x in c["args"][1:]]
            if a != ["p3", "p4", "p5"]:
                res.fail("cachedSiblings/%s/args" % what, c, "nodes_overlapping must receive (chrom_ix, start, end) unchanged; got %s" % a)
                return
        rn = [c for c in walk_no_nested_fn(fn.body) if c.k == "call" and up(c["func"]) == "read_node"]
        if len(rn) != 1 or [origin(fn, x) for x in rn[0]["args"][1:]] != ["p2", "p1"]:
            res.fail("cachedSiblings/%s/read_node" % what, fn, "the node must be read with read_node(reader, node_offset, endianness)")
            return
    g1 = ctx.ast.fn(R, "get_block_data", impl="S as BBIFileRead")
    if up(strip(g1.body["stmts"][-1]["e"])) != "read_block_data(info,self,block)":
        res.fail("cachedSiblings/plain/block", g1, "plain reader must return read_block_data(info, self, block)")
        return
    res.ok(ca, "plain and caching readers: same read_node(.., node_offset, endianness) and nodes_overlapping(iter, chrom_ix, start, end); both reach read_block_data(info, reader, block)")
    # cached() conversions keep info and wrap the reader
    for file, ty in ((RW, "BigWigRead"), (RB, "BigBedRead")):
        c = ctx.ast.fn(file, "cached")
        t = up(c.body)
        lit_ = [n for n in walk_no_nested_fn(c.body) if n.k == "struct" and n["path"].split("::")[-1] in (ty, "Self")]
        fo = {x["name"]: origin(c, x["e"]) for x in lit_[0]["fields"]} if len(lit_) == 1 else {}
        if len(lit_) != 1:
            res.undecided("cachedSiblings/%s/cached" % ty, c, "cached() does not build the reader with one struct literal")
            continue
        okc = re.fullmatch(r"(CachedBBIFileRead::)?new\((self|p0)(\.read|#\w+\.read)\)", fo.get("read", "")) and "CachedBBIFileRead::new(" in t and re.fullmatch(r"(self|p0)(\.info|#\w+\.info)", fo.get("info", ""))
        if not okc and ("CachedBBIFileRead::new(self.read)" not in t or "info: self.info" not in t):
            res.fail("cachedSiblings/%s/cached" % ty, c, "cached() must wrap the same reader and keep the same info")
        else:
            res.ok(c, "%s::cached(): same info, reader wrapped" % ty)


def ob_interval_siblings(ctx, res):
    """C03-S3"""
    for file, ty, pairs in ((RW, "BigWigRead", [("get_interval", "get_interval_move"), ("get_zoom_interval", "get_zoom_interval_move")]),
                            (RB, "BigBedRead", [("get_interval", "get_interval_move"), ("get_zoom_interval", "get_zoom_interval_move")])):
        for a, b in pairs:
            fa, fb = ctx.ast.fn(file, a, impl=ty), ctx.ast.fn(file, b, impl=ty)
            if up(fa.body) == up(fb.body):
                res.ok(fa, "%s::%s and %s identical up to ownership of self" % (ty, a, b))
                continue
            # spelled differently: both must do the same three things - search the same index with the caller's (chrom, start, end),
            # and build the iterator from the blocks in search order with the same range
            sig = []
            for f_ in (fa, fb):
                sc = [c for c in walk_no_nested_fn(f_.body) if c.k == "call" and up(c["func"]) == "search_cir_tree"]
                lit = [n for n in walk_no_nested_fn(f_.body) if n.k == "struct" and n["path"].endswith("IntervalIter")]
                ctor = [c for c in walk_no_nested_fn(f_.body) if c.k == "call" and re.search(r"IntervalIter::new$", up(c["func"]))]
                if len(sc) == 1 and not lit and len(ctor) == 1:
                    sig.append(([origin(f_, x) for x in sc[0]["args"][2:]], {"args": [re.sub(r"\bp0\b|self", "SELF", origin(f_, x)) for x in ctor[0]["args"]]}))
                    continue
                if len(sc) != 1 or len(lit) != 1:
                    sig.append(None)
                    continue
                fl = {x["name"]: origin(f_, x["e"]) if x.get("e") is not None and not x.get("shorthand") else origin(f_, x["e"]) if x.get("e") is not None else x["name"] for x in lit[0]["fields"]}
                sig.append(([origin(f_, x) for x in sc[0]["args"][2:]], {k: re.sub(r"\bp0\b|self", "SELF", v) for k, v in fl.items() if k in ("blocks", "start", "end", "chrom", "expected_chrom")}))
            # the blocks handed to the iterator: the result of the one search (compared above), whatever follows it
            def _search_tok(v):
                i = v.find("search_cir_tree(")
                if i < 0:
                    return v
                d, j = 0, i + len("search_cir_tree")
                while j < len(v):
                    d += v[j] == "("
                    d -= v[j] == ")"
                    j += 1
                    if d == 0:
                        break
                return v[:i] + "SEARCH" + v[j:]
            for sg in sig:
                if sg is not None:
                    for k_, v_ in list(sg[1].items()):
                        sg[1][k_] = [_search_tok(x) for x in v_] if isinstance(v_, list) else _search_tok(v_)
            # the index searched: which index function with which argument (how its error is mapped is not part of the comparison)
            unk = False
            for sg in sig:
                if sg is None:
                    continue
                mi = re.search(r"\b(zoom_cir_tree|full_data_cir_tree)\(([^()]*)\)", sg[0][0]) if sg[0] else None
                if mi:
                    sg[0][0] = "%s(%s)" % (mi.group(1), mi.group(2))
                else:
                    unk = True
            if None not in sig and unk and sig[0] != sig[1]:
                res.undecided("intervalSiblings/%s/%s" % (ty, a), fb, "%s and %s are spelled differently and the index they search was not recognised (%s vs %s)" % (a, b, sig[0][0], sig[1][0]))
                continue
            if None in sig:
                res.undecided("intervalSiblings/%s/%s" % (ty, a), fb, "%s and %s are spelled differently and their shape was not recognised" % (a, b))
            elif sig[0] != sig[1]:
                res.fail("intervalSiblings/%s/%s" % (ty, a), fb, "%s and %s differ beyond ownership of self: index/query %s vs %s, iterator fields %s vs %s" % (a, b, sig[0][0], sig[1][0], sig[0][1], sig[1][1]))
            else:
                res.ok(fa, "%s::%s and %s: same index searched with the same query, iterator built from the same blocks and range (spelled differently)" % (ty, a, b))
    # the query reaches search_cir_tree and the iterator unchanged
    for file, ty in ((RW, "BigWigRead"), (RB, "BigBedRead")):
        fn = ctx.ast.fn(file, "get_interval", impl=ty, inline=True, keep=("search_cir_tree", "search_cir_tree_inner"))
        sc = [c for c in walk_no_nested_fn(fn.body) if c.k == "call" and up(c["func"]) == "search_cir_tree"]
        if len(sc) != 1 or [origin(fn, x) for x in sc[0]["args"][3:]] != ["p1", "p2", "p3"] or "full_data_cir_tree()" not in origin(fn, sc[0]["args"][2]):
            res.fail("intervalSiblings/%s/search" % ty, fn, "get_interval must search the full-data index with (chrom_name, start, end)")
            continue
        lit = [n for n in walk_no_nested_fn(fn.body) if n.k == "struct" and n["path"].endswith("IntervalIter")]
        f = {x["name"]: up(strip(x["e"])) for x in lit[0]["fields"]} if lit else {}
        if f.get("start") != "start" or f.get("end") != "end" or "blocks.into_iter()" != f.get("blocks"):
            res.fail("intervalSiblings/%s/iter" % ty, fn, "the iterator must carry the blocks in search order and the query range")
            continue
        res.ok(fn, "%s::get_interval: full-data index searched with (chrom, start, end); iterator carries blocks in order and the range" % ty)
    # iterators: blocks consumed front to back, one block's values exhausted before the next.  next() is evaluated (finite abstract interpretation: blocks,
    # values and errors are opaque atoms; the block list, the per-block value iterators and the decoder are mocked) on every 3-block scenario
    # whose blocks decode to (two values | no value in range | [bigWig] Ok(None) | a decode error).  In particular a block that holds no value in range
    # (the index search is inclusive, so a block merely touching the range is returned) must not end the iteration.
    import itertools
    from ..rules.interp import Interp, NotPure
    for file, ty, dec in ((RW, "BigWigIntervalIter", "get_block_values"), (RB, "BigBedIntervalIter", "get_block_entries"), (R, "ZoomIntervalIter", "get_zoom_block_values")):
        fn = ctx.ast.fn(file, "next", impl=ty)
        sd = ctx.ast.struct(file, ty)
        fields = [f["name"] for f in sd["fields"]]
        if "vals" not in fields or "blocks" not in fields or "start" not in fields or "end" not in fields:
            res.undecided("intervalSiblings/%s/state" % ty, sd, "iterator state (vals, blocks, start, end, ..) not recognised: %s" % fields)
            continue
        kinds = ["two", "empty", "err"] + (["none"] if ty == "BigWigIntervalIter" else [])
        rows, failed = 0, False
        for scen in itertools.product(kinds, repeat=3):
            blocks = ["B1", "B2", "B3"]
            decoded = []

            def mkiter(items):
                return {"__ref": True, "items": list(items), "pos": 0}

            def method(m, recv, args):
                if m == "next" and isinstance(recv, dict) and "items" in recv and not args:
                    if recv["pos"] < len(recv["items"]):
                        recv["pos"] += 1
                        return ("some", recv["items"][recv["pos"] - 1])
                    return None
                if m in ("borrow_mut", "borrow", "by_ref", "as_mut") and not args:
                    return recv
                raise NotPure("method " + m)

            def decoder(*args, scen=scen, decoded=decoded):
                blk = args[1]
                decoded.append(args)
                k = scen[blocks.index(blk)] if blk in blocks else "err"
                if k == "two":
                    return ("some", ("some", mkiter([blk + ".v1", blk + ".v2"])) if ty == "BigWigIntervalIter" else mkiter([blk + ".v1", blk + ".v2"]))
                if k == "empty":
                    return ("some", ("some", mkiter([])) if ty == "BigWigIntervalIter" else mkiter([]))
                if k == "none":
                    return ("some", None)
                return ("err", "E:" + blk)
            me = {"__ref": True}
            for f in fields:
                me[f] = "F:" + f
            me["vals"] = None
            me["blocks"] = mkiter(blocks)
            want = []
            for blk, k in zip(blocks, scen):
                if k == "two":
                    want += [("some", ("some", blk + ".v1")), ("some", ("some", blk + ".v2"))]
                elif k == "err":
                    want.append(("some", ("err", "E:" + blk)))
                    break
            else:
                want.append(None)
            got = []
            try:
                for _ in range(len(want)):
                    it = Interp(ctx.ast, file, extern={"None": None, "method": method, dec: decoder, "call": lambda pth, a: decoder(*a) if pth.split("::")[-1] == dec else NotImplemented}, max_steps=5000)
                    got.append(it.call(fn, [me]))
            except NotPure as e:
                res.undecided("intervalSiblings/%s/not-evaluable" % ty, fn, "%s::next is outside the fragment the rule evaluates (%s)" % (ty, e))
                failed = True
                break
            rows += 1
            if got != want:
                res.fail("intervalSiblings/%s/exits" % ty, fn, "%s::next: for three blocks decoding to %s the iterator yields %s, required %s (a block's values first and in order, then the next block; "
                                                               "blocks without a value in range are skipped; a decode error is yielded)" % (ty, list(scen), got, want))
                failed = True
                break
            for i, a_ in enumerate(decoded):
                if a_[1] != blocks[i] or list(a_[-2:]) != ["F:start", "F:end"]:
                    res.fail("intervalSiblings/%s/decode-args" % ty, fn, "%s::next must decode the blocks in search order with the iterator's own (start, end); call %d got %s" % (ty, i + 1, list(a_[1:])))
                    failed = True
                    break
            if failed:
                break
        if not failed:
            res.ok(fn, "%s::next evaluated on %d three-block scenarios: current block's values first, then blocks.next() (search order), decoded by %s with the query range; "
                       "exits only with a block value, a decode error, or when the block list is exhausted" % (ty, rows, dec))


def ob_values_array(ctx, res):
    """C03-F1"""
    fn = ctx.ast.fn(RW, "values", impl="BigWigRead")
    vec = [n for n in walk_no_nested_fn(fn.body) if n.k == "macro" and n["path"] == "vec" and "repeat" in n]
    if len(vec) != 1 or "NAN" not in up(vec[0]["repeat"]["e"]) or origin(fn, vec[0]["repeat"]["len"]) != "(p3-p2)":
        res.fail("valuesArray/alloc", fn, "the per-base array must have end - start slots initialised with NaN")
        return
    gb = [c for c in walk_no_nested_fn(fn.body) if c.k == "call" and up(c["func"]) == "get_block_values"]
    if len(gb) != 1 or [origin(fn, a) for a in gb[0]["args"][4:]] != ["p2", "p3"]:
        res.fail("valuesArray/decode", fn, "blocks must be decoded with the same (start, end)")
        return
    # every decoded (clipped) value fills slots [v.start - start, v.end - start): `for i in &mut values[a..b] { *i = v.value }` or `values[a..b].fill(v.value)`
    from ..rules import equiv as EQ
    from ..astq import upn, _tnorm
    arr = up(vec[0].parent["pat"]).replace("mut ", "").split(":")[0].strip() if vec[0].parent is not None and vec[0].parent.k == "let" else "values"
    sites = []
    for n in walk_no_nested_fn(fn.body):
        if n.k == "for" and strip(n["iter"]).k in ("ref", "index"):
            ix = strip(n["iter"])
            while ix.k == "ref":
                ix = strip(ix["e"])
            if ix.k == "index" and up(strip(ix["base"])) == arr:
                asg = [x for x in walk_no_nested_fn(n["body"]) if x.k == "assign"]
                if len(asg) == 1 and up(strip(asg[0]["l"])).lstrip("*") == up(n["pat"]).replace("mut ", ""):
                    sites.append((n, ix["index"], asg[0]["r"]))
        if n.k == "mcall" and n["method"] == "fill" and len(n["args"]) == 1 and strip(n["recv"]).k == "index" and up(strip(strip(n["recv"])["base"])) == arr:
            sites.append((n, strip(n["recv"])["index"], n["args"][0]))
    if len(sites) != 1:
        res.undecided("valuesArray/fill", fn, "expected one place filling a slice of the per-base array per decoded value, found %d" % len(sites))
        return
    site, rng, val = sites[0]
    rng = _tnorm(fn, strip(rng))
    if rng.k != "range" or rng.get("from") is None or rng.get("to") is None:
        res.undecided("valuesArray/fill", site, "the filled slots are not given as a range `a..b`")
        return
    startn = fn.params[2][0]
    roles = {"VS": r"\w+\.start", "VE": r"\w+\.end", "S": re.escape(startn)}
    pre = lambda e: e["S"] <= e["VS"] < e["VE"]
    qa = EQ.equiv(None, rng["from"], roles, lambda e: e["VS"] - e["S"], domain=range(0, 4), pre=pre)
    qb = EQ.equiv(None, rng["to"], roles, lambda e: e["VE"] - e["S"], domain=range(0, 4), pre=pre)
    if qa[0] == "differs" or qb[0] == "differs":
        q = qa if qa[0] == "differs" else qb
        res.fail("valuesArray/fill", site, "slots clipped.start-start .. clipped.end-start must receive the value; `%s` gives %s, required %s, for %s" % (up(rng), q[2], q[3], q[1]))
        return
    if qa[0] == "unknown" or qb[0] == "unknown":
        res.undecided("valuesArray/fill", site, "filled slot range not decided (%s)" % (qa[1] if qa[0] == "unknown" else qb[1]))
    if not re.fullmatch(r"\w+\.value", upn(fn, val)):
        res.fail("valuesArray/fill", site, "the slots must receive the decoded value; they receive `%s`" % upn(fn, val))
        return
    res.ok(fn, "values(): NaN array of end-start; every clipped value fills [v.start-start, v.end-start)")


def ob_block_data(ctx, res):
    """C10-F1 / C01-T1 (reader side): read_block_data evaluated with a mocked reader and decompressor for uncompressBufSize 0 / > 0"""
    from ..rules.interp import Interp, NotPure
    fn = ctx.ast.fn(R, "read_block_data")
    for ubs in (0, 4096):
        log = []

        def method(m, recv, args, log=log):
            if recv == "READ" and m == "seek" and len(args) == 1:
                log.append(("seek", args[0]))
                return ("some", 0)
            if recv == "READ" and m == "read_exact" and len(args) == 1:
                log.append(("read_exact", args[0]["len"] if isinstance(args[0], dict) else args[0]))
                if isinstance(args[0], dict):
                    args[0]["filled"] = True
                return ("some", ())
            if recv == "DECOMP" and m == "zlib_decompress" and len(args) == 2:
                log.append(("inflate", args[0].get("tag") if isinstance(args[0], dict) else args[0], args[1].get("len") if isinstance(args[1], dict) else args[1]))
                return ("some", "NBYTES")
            if isinstance(recv, dict) and recv.get("tag") and m in ("truncate", "resize") and args:
                recv["len"] = args[0]
                return None
            if m == "unwrap" and isinstance(recv, tuple) and recv and recv[0] == "some":
                return recv[1]
            raise NotPure("method %s" % m)

        def call(pth, args):
            if pth.endswith("Decompressor::new"):
                return "DECOMP"
            return NotImplemented
        nbuf = [0]

        def macro(n, args, nbuf=nbuf):
            if n["path"] == "vec" and "repeat" in n:
                ln = args[1]
                nbuf[0] += 1
                return {"__ref": True, "tag": "buf%d" % nbuf[0], "len": ln}
            raise NotPure("macro " + n["path"])
        info = {"__ref": True, "header": {"__ref": True, "uncompress_buf_size": ubs}}
        blk = {"__ref": True, "offset": "OFF", "size": "SZ"}
        itp = Interp(ctx.ast, R, extern={"None": None, "method": method, "call": call, "macro": macro})
        cur_env = [{}]
        _orig_block = itp.block

        def _blk(b_, env_, depth_):
            cur_env[0] = env_
            return _orig_block(b_, env_, depth_)
        itp.block = _blk
        try:
            got = itp.call(fn, [info, "READ", blk])
        except NotPure as e:
            res.undecided("blockData/not-evaluable", fn, "read_block_data is outside the fragment the rule evaluates (%s)" % e)
            return
        seeks = [e for e in log if e[0] == "seek"]
        reads = [e for e in log if e[0] == "read_exact"]
        infl = [e for e in log if e[0] == "inflate"]
        if seeks != [("seek", ("variant", "Start", ["OFF"]))] or reads != [("read_exact", "SZ")] or log.index(seeks[0]) > log.index(reads[0]):
            res.fail("blockData/seek", fn, "the block must be read as block.size bytes at SeekFrom::Start(block.offset); effects %s" % log)
            return
        ok_val = isinstance(got, tuple) and got[0] == "some" and isinstance(got[1], dict)
        if ubs == 0:
            if infl or not ok_val or got[1].get("tag") != "buf1" or got[1].get("len") != "SZ":
                res.fail("blockData/raw", fn, "with uncompressBufSize 0 the block must be returned as read; effects %s, returns %s" % (log, got))
                return
        else:
            if len(infl) != 1 or infl[0][1] != "buf1" or infl[0][2] != ubs or not ok_val or got[1].get("tag") == "buf1" or got[1].get("len") != "NBYTES":
                res.fail("blockData/inflate", fn, "with uncompressBufSize > 0 the block must be inflated (zlib) into a buffer of that size and cut to the inflated length; effects %s, returns %s" % (log, got))
                return
    res.ok(fn, "read_block_data evaluated: block.size bytes at block.offset; inflated (zlib) into uncompressBufSize bytes iff that is > 0, cut to the inflated length; else returned as read")


def _field_from_open(fn, lit):
    x = [y for y in lit["fields"] if y["name"] == "file"]
    if not x:
        return False
    e = x[0].get("e")
    t = up(strip(e)) if e is not None else "file"
    if "File::open" in t:
        return True
    if re.fullmatch(r"\w+", t):
        b = binding_before(fn, t, lit)
        return b is not None and b[0] == "let" and b[1].get("init") is not None and "File::open" in up(b[1]["init"])
    return False


def _field_src(fn, e):
    """normal form of a struct field initialiser; a plain local bound once by `let x = <init>;` (also an init with `?`) is replaced by its init"""
    from ..astq import upn, binding_before
    t = upn(fn, e)
    if re.fullmatch(r"[a-z_]\w*", t):
        b = binding_before(fn, t, e)
        if b is not None and b[0] == "let" and b[2] == () and b[1].get("init") is not None:
            t = upn(fn, b[1]["init"])
    return re.sub(r"\.clone\(\)|&", "", t)


def ob_reopen(ctx, res):
    """C03-R1: a reopened reader reads the same file with the same info and independent position"""
    RO = "bigtools/src/utils/file/reopen.rs"
    fn = ctx.ast.fn(RO, "reopen", impl="ReopenableFile")
    lit = [n for n in walk_no_nested_fn(fn.body) if n.k == "struct" and n["path"].endswith("ReopenableFile")]
    from ..astq import upn
    f = {}
    for x in (lit[0]["fields"] if lit else []):
        e = x.get("e")
        f[x["name"]] = re.sub(r"\.clone\(\)|&", "", upn(fn, e)) if e is not None else x["name"]
    opens = [c for c in walk_no_nested_fn(fn.body) if c.k == "call" and up(c["func"]).endswith("File::open")]
    opened = [re.sub(r"\.clone\(\)|&", "", upn(fn, c["args"][0])) for c in opens]
    if not lit:
        res.undecided("reopen/file", fn, "no ReopenableFile literal in reopen()")
    elif f.get("path") != "self.path" or opened != ["self.path"] or not _field_from_open(fn, lit[0]):
        res.fail("reopen/file", fn, "reopen must open the SAME path again (independent file position); path field `%s`, opened %s" % (f.get("path"), opened))
    else:
        res.ok(fn, "ReopenableFile::reopen: File::open(&self.path), same path")
    for file, ty in ((RW, "BigWigRead"), (RB, "BigBedRead")):
        r = ctx.ast.fn(file, "reopen", impl=ty)
        lit = [n for n in walk_no_nested_fn(r.body) if n.k == "struct" and n["path"].endswith(ty)]
        f = {x["name"]: _field_src(r, x["e"]) for x in lit[0]["fields"]} if lit else {}
        if not lit:
            res.undecided("reopen/%s" % ty, r, "no %s literal in reopen()" % ty)
        elif f.get("info") != "self.info" or f.get("read") != "self.read.reopen()?":
            res.fail("reopen/%s" % ty, r, "%s::reopen must clone the info and reopen the reader; got %s" % (ty, f))
        else:
            res.ok(r, "%s::reopen: info cloned, reader reopened" % ty)
    c = ctx.ast.fn(R, "reopen", impl="CachedBBIFileRead")
    clit = [n for n in walk_no_nested_fn(c.body) if n.k == "struct" and n["path"].split("::")[-1] in ("Self", "CachedBBIFileRead")]
    cf = {x["name"]: _field_src(c, x["e"]) for x in clit[0]["fields"]} if clit else {}
    if not clit:
        res.undecided("reopen/cached", c, "no CachedBBIFileRead literal in reopen()")
    elif cf.get("read") != "self.read.reopen()?":
        res.fail("reopen/cached", c, "CachedBBIFileRead::reopen must reopen the wrapped reader")
    else:
        res.ok(c, "CachedBBIFileRead::reopen: wrapped reader reopened, caches cloned (values are immutable: C03-C1)")
    # the read path of ReopenableFile forwards to the file
    for name in ("seek", "read", "read_exact"):
        f2 = ctx.ast.fn(RO, name, impl="ReopenableFile")
        t = up(f2.body)
        if not re.fullmatch(r"\{self\.file\.%s\((\w+)\)\}" % name, t):
            res.fail("reopen/forward-%s" % name, f2, "ReopenableFile::%s must forward to the file unchanged" % name)


def ob_intersect_tool(ctx, res):
    """C04-T1: `bigtools intersect` queries each BED line's (chrom, start, end) and prints every returned entry"""
    BT = "bigtools/src/bin/bigtools.rs"
    fn = ctx.ast.fn(BT, "intersect")
    gi = list(calls(fn.body, method="get_interval"))
    if len(gi) != 1:
        res.fail("intersect/query", fn, "expected one get_interval per input line")
        return
    a = gi[0]["args"]
    oc, os_, oe = origin(fn, a[0]), origin(fn, a[1]), origin(fn, a[2])
    # chrom, start, end are the 1st, 2nd, 3rd `split.next()` of the same line, start/end parsed as u32
    splits = [c for c in walk_no_nested_fn(fn.body) if c.k == "mcall" and c["method"] == "next" and "splitn" in origin(fn, c["recv"])]
    splits.sort(key=lambda c: (c["sp"][0], c["sp"][1]))
    def holder(c):
        s = c
        while s is not None and isinstance(s, Node) and s.k != "let":
            s = s.parent
        return up(s["pat"]) if s is not None and isinstance(s, Node) else None
    names = [holder(c) for c in splits]
    want = [up(strip(a[0])), up(strip(a[1])), up(strip(a[2]))]
    if len(splits) != 3 or names != want:
        res.fail("intersect/columns", gi[0], "the query must be (column 1, column 2, column 3) of the line in that order; columns are bound to %s, query uses %s" % (names, want))
        return
    for nm, o in (("start", os_), ("end", oe)):
        if "parse" not in o:
            res.fail("intersect/parse", gi[0], "%s must be the parsed integer column" % nm)
            return
    # every returned entry is printed: the only `continue`s are in error arms; no filter
    fl = [n for n in walk_no_nested_fn(fn.body) if n.k == "for" and "get_interval" in origin(fn, n["iter"])]
    if len(fl) != 1:
        res.fail("intersect/loop", fn, "expected one loop over the query result")
        return
    for n in walk_no_nested_fn(fl[0]["body"]):
        if n.k in ("continue", "break", "return"):
            arm = n.parent
            while arm is not None and isinstance(arm, Node) and arm.k != "arm":
                arm = arm.parent
            if arm is None or not up(arm["pat"]).startswith("Err("):
                res.fail("intersect/skip", n, "a returned entry is skipped outside an error arm")
                return
        if n.k == "if":
            res.fail("intersect/filter", n, "returned entries must not be filtered again (the query decides overlap)")
            return
    wf = [c for c in walk_no_nested_fn(fl[0]["body"]) if c.k == "mcall" and c["method"] in ("write_fmt", "write_all")]
    wm = [m for m in walk_no_nested_fn(fl[0]["body"]) if m.k == "macro" and m["path"] in ("format_args", "writeln", "write")]
    if len(wf) + len([m for m in wm if m["path"] != "format_args"]) != 1 or not wm:
        res.fail("intersect/print", fl[0], "each entry must be printed exactly once")
        return
    m = [m for m in wm][0]
    fmt = m["args"][0]["v"] if m["path"] == "format_args" else m["args"][1]["v"]
    args = [up(strip(x)) for x in (m["args"][1:] if m["path"] == "format_args" else m["args"][2:])]
    ev = up(fl[0]["pat"])
    vn = None
    for l in walk_no_nested_fn(fl[0]["body"]):
        if l.k == "let" and ev in up(l["init"]) and l["pat"].k == "p_ident":
            vn = l["pat"]["name"]
            break
    if fmt != "{}\t{}\t{}\t{}\n" or args != [want[0], "%s.start" % vn, "%s.end" % vn, "%s.rest" % vn] or not up(stmt_of_(m)).rstrip(";").endswith("?"):
        res.fail("intersect/row", m, "each row must be `chrom<TAB>entry.start<TAB>entry.end<TAB>entry.rest` with write errors propagated; got %r %s" % (fmt, args))
        return
    res.ok(fn, "intersect: query = (col1, parsed col2, parsed col3) of each line; every returned entry printed once as chrom, start, end, rest; skips only in error arms")


def stmt_of_(n):
    x = n
    while x is not None and isinstance(x, Node):
        if x.k in ("let", "expr_stmt"):
            return x
        x = x.parent
    return n
