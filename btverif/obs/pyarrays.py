"""C20: pybigtools array routines -- `missing` taint, division guards, sibling agreement, clamping / oob fill, per-base form."""
from __future__ import annotations
import re
from ..astq import Node, up, strip, strip_cast, walk_no_nested_fn, walk, calls, binding_before
from ..rules.layout import origin

PY = "pybigtools/src/lib.rs"
ROUTINES = ["to_array", "to_array_bins", "to_array_zoom", "to_entry_array", "to_entry_array_bins", "to_entry_array_zoom"]
DRIVERS = ["intervals_to_array", "entries_to_array"]


def ob_missing_taint(ctx, res):
    """C20-F1"""
    n = 0
    for name in ROUTINES + DRIVERS:
        fn = ctx.ast.fn(PY, name)
        for x in walk_no_nested_fn(fn.body):
            if not (x.k == "path" and x["path"] == "missing"):
                continue
            b = binding_before(fn, "missing", x)
            if b is None or b[0] != "param":
                continue
            n += 1
            p = x.parent
            child = x
            while p is not None and p.k in ("ref", "cast"):
                child = p
                p = p.parent
            ok = False
            why = up(p)[:70] if p is not None else "?"
            if p is None:
                pass
            elif p.k == "mcall" and child.pkey == "args" and p["method"] in ("fill", "unwrap_or"):
                ok = True
            elif p.k == "if" or (p.k == "block" and p.parent is not None and p.parent.k == "if" and re.search(r"\.is_nan\(\)", up(p.parent["cond"]))):
                ok = True
            elif p.k == "expr_stmt" and p.parent is not None and p.parent.k == "block" and p.parent.parent is not None and p.parent.parent.k == "if" and \
                    ".is_nan()" in up(p.parent.parent["cond"]):
                ok = True
            elif p.k == "call" and child.pkey == "args":
                cal = up(p["func"]).split("::")[-1]
                idx = [i for i, a in enumerate(p["args"]) if a is child]
                tf = [f for f in ctx.ast.fns_in(PY) if f.name == cal]
                ok = bool(tf and idx and idx[0] < len(tf[0].params) and tf[0].params[idx[0]][0] == "missing")
            elif p.k == "macro" and p["path"] == "vec" and "repeat" in p and p["repeat"]["e"] is child:
                # allowed only for the OUTPUT array handed to numpy
                pp = p.parent
                ok = pp is not None and pp.k == "call" and up(pp["func"]).endswith("from_vec_bound")
                if not ok:
                    res.fail("missingTaint/%s/scratch" % name, p,
                             "a per-base scratch vector is seeded with the caller's `missing` value and then used in arithmetic / min / max: with a "
                             "finite `missing` uncovered bases contribute it to the bin (wrong counts for missing > 0, wrong minimum for missing = 0)")
                    continue
            if not ok:
                res.fail("missingTaint/%s" % name, x, "`missing` flows into `%s`: it may only fill the output, replace NaN or be an `unwrap_or` default" % why)
    res.count("missing_uses", n)
    if n < 20:
        res.fail("missingTaint/floor", PY, "only %d uses of `missing` found in the array routines (expected >= 20)" % n)
        return
    if not res.violations:
        res.ok(PY, "%d uses of `missing` in the 6 array routines and 2 drivers: output fill, unwrap_or default, NaN replacement, output allocation, forwarding only" % n)


def ob_division_guards(ctx, res):
    """C20-N1"""
    n = 0
    for name in ["to_array_bins", "to_array_zoom", "to_entry_array_bins", "to_entry_array_zoom"]:
        fn = ctx.ast.fn(PY, name)
        for x in walk_no_nested_fn(fn.body):
            if not (x.k == "binary" and x["op"] == "/"):
                continue
            den = strip_cast(x["r"])
            dt = up(den)
            # only divisions by a covered-base count (closure / tuple-bound `c`)
            if dt not in ("c",):
                continue
            arm = x.parent
            in_mean = False
            while arm is not None and isinstance(arm, Node):
                if arm.k == "arm" and up(arm["pat"]).endswith("Summary::Mean"):
                    in_mean = True
                arm = arm.parent
            if not in_mean:
                continue
            n += 1
            # guard forms: enclosing closure is the argument of `.map(..)` whose receiver chain contains `.then(` after `.any(|v| *v > 0)`
            # or `.filter(|(c, _)| *c > 0)` / `(c > 0).then(..)` / enclosing `if c > 0`
            cl = x.parent
            while cl is not None and cl.k != "closure":
                cl = cl.parent
            guarded = False
            if cl is not None and cl.parent is not None and cl.parent.k == "mcall":
                chain = up(cl.parent["recv"])
                if re.search(r"\.any\(\|\w+\| \*\w+ > 0\)\.then\(", chain) or re.search(r"\.filter\(\|[^|]*\| \*?\w+(\.0)? > 0\)", chain):
                    guarded = True
            t = x.parent
            while t is not None and isinstance(t, Node) and not guarded:
                if t.k == "if" and re.search(r"\bc > 0\b|\*c > 0", up(t["cond"])):
                    guarded = True
                if t.k == "mcall" and t["method"] == "then" and re.search(r"\bc > 0\b", up(t["recv"])):
                    guarded = True
                t = t.parent
            if not guarded:
                res.fail("divGuard/%s" % name, x,
                         "mean `%s` divides by a covered-base count that can be 0 (a bin created for an interval can receive no overlap when the "
                         "fractional bin edges are truncated): the bin becomes NaN for finite data and finite `missing`" % up(x))
            else:
                res.ok(x, "%s: division by the covered count is guarded (count > 0)" % name)
    res.count("mean_divisions", n)
    if n < 8:
        res.fail("divGuard/floor", PY, "only %d mean divisions found in the four bin routines (expected 8: two flush sites each)" % n)


def _sq(s):
    return re.sub(r"[\s()]", "", s)


def _flush_sites(fn):
    """the `match summary {..}` blocks that write v[bin] (flush of a finished bin)"""
    out = []
    for x in walk_no_nested_fn(fn.body):
        if x.k == "match" and up(strip(x["scrut"])) == "summary" and re.search(r"v\[bin\] = ", up(x)):
            out.append(x)
    return out


class NotInt(Exception):
    pass


def ieval(n, env, funcs, depth=0):
    """evaluate a pure integer expression (Rust semantics for the operators used here: floor division on non-negative operands,
    casts between integer types are value-preserving on the small domain) - paths, int literals, + - * /, .min/.max, calls of `funcs`"""
    n = strip(n)
    if depth > 40:
        raise NotInt("too deep")
    k = n.k
    if k == "lit" and n["t"] == "int":
        return int(re.sub(r"[a-z_].*$", "", str(n["v"]))) if not str(n["v"]).lstrip("-").isdigit() else int(n["v"])
    if k == "cast":
        t = n.get("ty") if isinstance(n.get("ty"), str) else ""
        if "f32" in t or "f64" in t:
            raise NotInt("float cast: " + up(n))
        return ieval(n["e"], env, funcs, depth + 1)
    if k == "paren":
        return ieval(n["e"], env, funcs, depth + 1)
    if k == "path":
        if n["path"] in env:
            return env[n["path"]]
        raise NotInt("free variable " + n["path"])
    if k == "unary" and n["op"] == "-":
        return -ieval(n["e"], env, funcs, depth + 1)
    if k == "binary" and n["op"] in ("+", "-", "*", "/"):
        l, r = ieval(n["l"], env, funcs, depth + 1), ieval(n["r"], env, funcs, depth + 1)
        if n["op"] == "+":
            return l + r
        if n["op"] == "-":
            return l - r
        if n["op"] == "*":
            return l * r
        if r == 0:
            raise NotInt("division by zero in " + up(n))
        q = abs(l) // abs(r)
        return q if (l >= 0) == (r >= 0) else -q   # Rust truncates toward zero
    if k == "mcall" and n["method"] in ("min", "max") and len(n["args"]) == 1:
        l, r = ieval(n["recv"], env, funcs, depth + 1), ieval(n["args"][0], env, funcs, depth + 1)
        return min(l, r) if n["method"] == "min" else max(l, r)
    if k == "call" and up(n["func"]) in funcs:
        f = funcs[up(n["func"])]
        args = [ieval(a, env, funcs, depth + 1) for a in n["args"]]
        return f(*args)
    raise NotInt("unsupported: " + up(n)[:60])


def _fn_as_int_function(ctx, name, funcs):
    """a one-expression integer helper as a Python callable over its parameters"""
    fn = ctx.ast.fn(PY, name)
    st = fn.body["stmts"]
    if len(st) != 1 or st[0].k != "expr_stmt":
        raise NotInt("%s is not a single expression" % name)
    names = [nm for nm, _ in fn.params]
    e = st[0]["e"]

    def call(*args):
        return ieval(e, dict(zip(names, args)), funcs)
    return fn, call


def ob_bin_arithmetic(ctx, res):
    """C20-B1: bin_bound / bin_of decided by exhaustive evaluation of their source expressions on a small domain"""
    try:
        fb, bound = _fn_as_int_function(ctx, "bin_bound", {})
        fo, binof = _fn_as_int_function(ctx, "bin_of", {})
    except Exception as e:
        res.fail("binArith/helpers", PY, "the integer bin helpers bin_bound(len, bins, bin) / bin_of(len, bins, pos) were not found or are not pure integer expressions (%s): "
                                         "bin indices and bin spans computed in floating point disagree for non-integral widths and round wrongly (ceil(15/(15/13)) = 14)" % e)
        return
    if [ty for _, ty in fb.params] != ["i32", "usize", "usize"] or [ty for _, ty in fo.params] != ["i32", "usize", "i32"]:
        res.fail("binArith/signature", fb, "expected bin_bound(len: i32, bins: usize, bin: usize) and bin_of(len: i32, bins: usize, pos: i32)")
        return
    n = 0
    try:
        for ln in range(1, 15):
            for bins in range(1, ln + 4):
                bs = [bound(ln, bins, k) for k in range(bins + 1)]
                if bs[0] != 0 or bs[-1] != ln:
                    res.fail("binArith/cover", fb, "bins must tile the range exactly: len=%d bins=%d gives bounds %s" % (ln, bins, bs))
                    return
                if any(bs[i] > bs[i + 1] for i in range(bins)):
                    res.fail("binArith/monotone", fb, "bin bounds must not decrease: len=%d bins=%d gives %s" % (ln, bins, bs))
                    return
                if bins <= ln and any(bs[i] == bs[i + 1] for i in range(bins)):
                    res.fail("binArith/nonempty", fb, "with bins <= len every bin must hold at least one base: len=%d bins=%d gives %s" % (ln, bins, bs))
                    return
                if ln % bins == 0 and bs != [k * (ln // bins) for k in range(bins + 1)]:
                    res.fail("binArith/integral", fb, "for an integral width bin k must be [k*w, (k+1)*w): len=%d bins=%d gives %s" % (ln, bins, bs))
                    return
                for pos in range(ln):
                    k = binof(ln, bins, pos)
                    n += 1
                    if not (0 <= k < bins and bs[k] <= pos < bs[k + 1]):
                        res.fail("binArith/consistent", fo,
                                 "bin_of and bin_bound disagree: len=%d bins=%d: base %d is assigned to bin %d whose span is [%s, %s) - a covered base is then "
                                 "counted for the wrong bin (mean/min/max outside the data range)" % (ln, bins, pos, k, bs[k] if 0 <= k <= bins else "?", bs[k + 1] if 0 <= k < bins else "?"))
                        return
    except NotInt as e:
        res.fail("binArith/eval", fb, "helper not evaluable as integer arithmetic: %s" % e)
        return
    res.count("bin_cases", n)
    res.ok(fb, "bin_bound/bin_of: bins tile [0,len) exactly, non-empty for bins <= len, integral widths give k*w, and every base lies in the span of the bin it is assigned to (%d cases, len <= 14)" % n)


BIN_ROUTINES = ["to_array_bins", "to_array_zoom", "to_entry_array_bins", "to_entry_array_zoom"]


def ob_bin_routines(ctx, res):
    """C20-B2: the four bin routines clamp the item to the range, skip items without a base in it, index bins with bin_of and span them with bin_bound
    (decided on provenance descriptors, so local names are free)"""
    for name in BIN_ROUTINES:
        fn = ctx.ast.fn(PY, name)
        tys = [ty for _, ty in fn.params]
        if tys[:2] != ["i32", "i32"] or tys.count("usize") != 1:
            res.fail("binRoutine/%s/signature" % name, fn, "expected (start: i32, end: i32, .., bins: usize, ..)")
            continue
        S, E, B = "p0", "p1", "p%d" % tys.index("usize")
        LEN = "(%s-%s)" % (E, S)
        loops = [x for x in walk_no_nested_fn(fn.body) if x.k == "for" and origin(fn, x["iter"]) == "p2"]
        if len(loops) != 1:
            res.fail("binRoutine/%s/loop" % name, fn, "expected one loop over the items")
            continue
        body = loops[0]["body"]
        lo_re = re.compile(r"\((?:\w+\(p2\)|\?deep)\.start\.max\(%s\)-%s\)|\(%s\.max\((?:\w+\(p2\)|\?deep)\.start\)-%s\)" % (S, S, S, S))
        hi_re = re.compile(r"\((?:\w+\(p2\)|\?deep)\.end\.min\(%s\)-%s\)|\(%s\.min\((?:\w+\(p2\)|\?deep)\.end\)-%s\)" % (E, S, E, S))
        bo = [c for c in walk_no_nested_fn(body) if c.k == "call" and up(c["func"]) == "bin_of"]
        bb = [c for c in walk_no_nested_fn(body) if c.k == "call" and up(c["func"]) == "bin_bound"]
        if len(bo) != 2 or len(bb) != 2:
            res.fail("binRoutine/%s/helpers" % name, fn,
                     "an item's first/last bin must come from bin_of and a queued bin's span from bin_bound (2 calls each); found %d/%d - bin indices or spans computed "
                     "otherwise (floating point) disagree for non-integral widths" % (len(bo), len(bb)))
            continue
        ok = True
        o = [[origin(fn, a) for a in c["args"]] for c in bo]
        for oo, c in zip(o, bo):
            if oo[0] != LEN or oo[1] != B:
                res.fail("binRoutine/%s/index-args" % name, c, "bin_of must be asked about (end - start, bins, position); got origins %s" % oo[:2])
                ok = False
        if not ok:
            continue
        first = [oo for oo in o if lo_re.fullmatch(oo[2])]
        last = [oo for oo in o if oo[2].endswith("-lit:1)") and hi_re.fullmatch(oo[2][1:-len("-lit:1)")])]
        if len(first) != 1 or len(last) != 1:
            res.fail("binRoutine/%s/clamp" % name, bo[0],
                     "the first bin must be that of max(item.start, start) - start and the last that of min(item.end, end) - start - 1 (bigBed and zoom queries return "
                     "unclipped items); positions have origins %s" % [oo[2] for oo in o])
            continue
        sp = sorted((_sq(up(c["args"][2])) for c in bb), key=len)
        if any(origin(fn, c["args"][0]) != LEN or origin(fn, c["args"][1]) != B for c in bb) or not re.fullmatch(r"\w+", sp[0]) or sp[1] not in (sp[0] + "+1", "1+" + sp[0]):
            res.fail("binRoutine/%s/span" % name, bb[0], "a queued bin's span must be [bin_bound(len, bins, bin), bin_bound(len, bins, bin + 1)); got %s" % [up(c) for c in bb])
            continue
        # skip guard: compares the two clamped positions, `continue`s, and precedes the first bin_of
        firstcall = min(toplevel_in(body, c).order for c in bo)
        guards = []
        for st in body["stmts"]:
            if st.k == "expr_stmt" and strip(st["e"]).k == "if" and st.order < firstcall:
                i = strip(st["e"])
                c = strip(i["cond"])
                if c.k == "binary" and c["op"] in ("<=", ">=", "<", ">") and re.fullmatch(r"\{continue;?\}", up(i["then"])):
                    ol, orr = origin(fn, c["l"]), origin(fn, c["r"])
                    if c["op"] in ("<=",) and hi_re.fullmatch(ol) and lo_re.fullmatch(orr):
                        guards.append(i)
                    if c["op"] in (">=",) and lo_re.fullmatch(ol) and hi_re.fullmatch(orr):
                        guards.append(i)
        if len(guards) != 1:
            res.fail("binRoutine/%s/touching" % name, bo[0],
                     "an item with no base inside the range (range queries also return items that only touch it, e.g. starting exactly at the range end) must be skipped before "
                     "its bins are computed: otherwise its first bin index is `bins`, a bin that does not exist is queued and v[bins] is written (panic)")
            continue
        fl = [x for x in walk_no_nested_fn(body) if x.k == "binary" and x["op"] == "/" and ("bin_size" in up(x))]
        if fl:
            res.fail("binRoutine/%s/float" % name, fl[0], "bin indices or spans are still computed in floating point")
            continue
        res.ok(fn, "%s: item clamped to the range, skipped when no base is inside, bins bin_of(start)..=bin_of(end-1), spans from bin_bound" % name)


def toplevel_in(body, n):
    x = n
    while x is not None and isinstance(x, Node) and x.parent is not body:
        x = x.parent
    return x


def ob_zoom_entry_stat(ctx, res):
    """C20-Z1: in to_entry_array_zoom the NaN -> 0 seed is applied to the mean only (min/max ignore NaN)"""
    fn = ctx.ast.fn(PY, "to_entry_array_zoom")
    ms = [m for m in walk_no_nested_fn(fn.body) if m.k == "match" and up(strip(m["scrut"])) == "summary" and "min_val" in up(m) and "v[bin]" not in up(m)]
    if len(ms) != 1:
        res.fail("zoomEntry/shape", fn, "per-base statistic update not found")
        return
    m = ms[0]
    arms = {up(a["pat"]).split("::")[-1]: a for a in m["arms"]}
    # nothing outside the match may rewrite the slot before it
    lp = m.parent
    while lp is not None and lp.k != "for":
        lp = lp.parent
    pre = [x for x in walk_no_nested_fn(lp["body"]) if x.k == "assign" and x.order < m.order and up(strip(x["l"])) == "*i"] if lp is not None else []
    if pre:
        res.fail("zoomEntry/seed", pre[0], "`%s` runs before every statistic: an uncovered (NaN) base becomes 0.0 and the minimum of non-negative data is then always 0" % up(pre[0]))
        return
    tmin, tmax, tmean = _sq(up(arms["Min"]["body"])), _sq(up(arms["Max"]["body"])), _sq(up(arms["Mean"]["body"]))
    if tmin != "*i=i.mininterval.summary.min_val" or tmax != "*i=i.maxinterval.summary.max_val":
        res.fail("zoomEntry/minmax", m, "min/max per base must be i.min(record.min_val) / i.max(record.max_val) on the NaN-seeded slot (f64::min/max ignore NaN)")
        return
    if tmean not in ("*i=i.max0.0+mean", "*i=*i.max0.0+mean"):
        res.fail("zoomEntry/mean", m, "mean per base must add the record mean to the slot with NaN read as 0")
        return
    res.ok(m, "to_entry_array_zoom: NaN->0 only for the mean; min/max fold the record's min_val/max_val into the NaN-seeded slot")


def ob_oob_fill(ctx, res):
    """C20-O1: fill_out_of_bounds decided by evaluating its index expressions for all small (start, end, length, bins)"""
    fn = ctx.ast.fn(PY, "fill_out_of_bounds", required=False)
    if fn is None:
        res.fail("oobFill/missing", PY, "fill_out_of_bounds(start, end, length, oob, array) not found")
        return
    try:
        _, bound = _fn_as_int_function(ctx, "bin_bound", {})
        _, binof = _fn_as_int_function(ctx, "bin_of", {})
    except Exception as e:
        res.fail("oobFill/helpers", fn, "integer bin helpers not available: %s" % e)
        return
    funcs = {"bin_of": binof, "bin_bound": bound}
    names = [nm for nm, _ in fn.params]
    if [ty for _, ty in fn.params][:4] != ["i32", "i32", "i32", "f64"] or len(names) != 5:
        res.fail("oobFill/signature", fn, "unexpected signature %s (expected start, end, length: i32, oob: f64, array)" % fn.params)
        return
    P_START, P_END, P_LEN, P_OOB, P_ARR = names
    stmts = fn.body["stmts"]
    # recognised shape: lets (pure ints), an early return on an empty range/array, then `if cond { [lets] for i in A..B / A..=B { array[i] = oob; } }` blocks
    pre_lets, ifs, early = [], [], None
    for st in stmts:
        if st.k == "let":
            pre_lets.append(st)
        elif st.k == "expr_stmt" and strip(st["e"]).k == "if":
            i = strip(st["e"])
            if re.fullmatch(r"\{return;?\}", up(i["then"])):
                early = i
            else:
                ifs.append(i)
        else:
            res.fail("oobFill/shape", st, "unrecognised statement `%s`" % up(st)[:60])
            return
    if len(ifs) != 2 or early is None:
        res.fail("oobFill/shape", fn, "expected an early return for an empty range and two guarded fills (before 0, past the end)")
        return

    def cond_eval(c, env):
        c = strip(c)
        if c.k == "binary" and c["op"] == "||":
            return cond_eval(c["l"], env) or cond_eval(c["r"], env)
        if c.k == "binary" and c["op"] == "&&":
            return cond_eval(c["l"], env) and cond_eval(c["r"], env)
        if c.k == "binary" and c["op"] in ("<", "<=", ">", ">=", "==", "!="):
            l, r = ieval(c["l"], env, funcs), ieval(c["r"], env, funcs)
            return {"<": l < r, "<=": l <= r, ">": l > r, ">=": l >= r, "==": l == r, "!=": l != r}[c["op"]]
        raise NotInt("condition " + up(c))

    n = 0
    try:
        for length in range(1, 7):
            for start in range(-4, length + 4):
                for end in range(start + 1, length + 5):
                    ln = end - start
                    for bins in sorted(set(list(range(1, ln + 1)))):
                        env = {P_START: start, P_END: end, P_LEN: length}
                        for l in pre_lets:
                            nm = l["pat"]["name"]
                            if up(strip(l["init"])) == "%s.len()" % P_ARR:
                                env[nm] = bins
                            else:
                                env[nm] = ieval(l["init"], env, funcs)
                        if cond_eval(early["cond"], env):
                            res.fail("oobFill/early", early, "returns without filling although the range is not empty (start=%d end=%d length=%d bins=%d)" % (start, end, length, bins))
                            return
                        marked = set()
                        for i in ifs:
                            if not cond_eval(i["cond"], env):
                                continue
                            e2 = dict(env)
                            for st in i["then"]["stmts"]:
                                if st.k == "let":
                                    e2[st["pat"]["name"]] = ieval(st["init"], e2, funcs)
                                elif st.k == "expr_stmt" and strip(st["e"]).k == "for":
                                    f = strip(st["e"])
                                    rg = strip(f["iter"])
                                    if rg.k != "range" or not re.fullmatch(r"\{array\[%s\] = oob;?\}" % re.escape(up(f["pat"])), up(f["body"])):
                                        raise NotInt("fill loop " + up(f)[:60])
                                    lo = ieval(rg["from"], e2, funcs) if rg.get("from") is not None else 0
                                    hi = ieval(rg["to"], e2, funcs)
                                    if rg.get("inclusive") or "..=" in up(rg):
                                        hi += 1
                                    for k in range(lo, hi):
                                        if not 0 <= k < bins:
                                            res.fail("oobFill/index", f, "writes array[%d] with %d bins (start=%d end=%d length=%d): out of bounds" % (k, bins, start, end, length))
                                            return
                                        marked.add(k)
                                else:
                                    raise NotInt("statement " + up(st)[:60])
                        bs = [bound(ln, bins, k) for k in range(bins + 1)]
                        want = set(k for k in range(bins) if any(start + p < 0 or start + p >= length for p in range(bs[k], bs[k + 1])))
                        n += 1
                        if marked != want:
                            res.fail("oobFill/bins", fn, "start=%d end=%d length=%d bins=%d: bins filled with oob %s, bins holding a base outside the chromosome %s"
                                     % (start, end, length, bins, sorted(marked), sorted(want)))
                            return
    except NotInt as e:
        res.fail("oobFill/eval", fn, "not evaluable as integer arithmetic: %s" % e)
        return
    res.count("oob_cases", n)
    res.ok(fn, "fill_out_of_bounds: for every small (start, end, length, bins <= len) exactly the bins holding a base before 0 or at/after `length` are set to oob, all indices in range (%d cases)" % n)


def ob_bin_siblings(ctx, res):
    """C20-S1"""
    for a, b in (("to_array_bins", "to_array_zoom"), ("to_entry_array_bins", "to_entry_array_zoom")):
        fa, fb = ctx.ast.fn(PY, a), ctx.ast.fn(PY, b)
        sa, sb = _flush_sites(fa), _flush_sites(fb)
        if len(sa) != 2 or len(sb) != 2:
            res.fail("binSiblings/%s/flush-sites" % a, fa, "expected two flush blocks (in-loop and final) per routine; found %d/%d" % (len(sa), len(sb)))
            continue
        ta, tb = [up(x) for x in sa], [up(x) for x in sb]
        if ta[0] != ta[1]:
            res.fail("binSiblings/%s/own-flushes" % a, sa[1], "the in-loop and the final flush of %s differ" % a)
        if tb[0] != tb[1]:
            res.fail("binSiblings/%s/own-flushes" % b, sb[1], "the in-loop and the final flush of %s differ" % b)
        if ta[0] != tb[0]:
            res.fail("binSiblings/%s-%s/flush" % (a, b), sb[0], "%s and %s flush a finished bin differently" % (a, b))
        # bin bookkeeping (R-SIB): the statements computing bin_size, the clamped interval, its bin range and each bin's edges,
        # the pop-finished-bins loop and the early `break` are compared between the two siblings
        def book(fn):
            out = {}
            for x in walk_no_nested_fn(fn.body):
                if x.k == "let" and x["pat"].k == "p_ident" and x["pat"]["name"] in ("interval_start", "interval_end", "bin_start", "bin_end") and x.get("init") is not None:
                    out.setdefault(x["pat"]["name"], []).append(up(x["init"]))
                if x.k == "while" and "front_mut()" in up(x["cond"]):
                    out.setdefault("pop-loop-head", []).append(up(x["cond"]) + " " + up(x["body"])[:60])
                if x.k == "if" and "break" in up(x["then"]) and "interval_end" in up(x["cond"]):
                    out.setdefault("stop", []).append(up(x["cond"]))
                if x.k == "mcall" and x["method"] == "fill":
                    out.setdefault("fill", []).append(up(x))
            return out
        ba, bb = book(fa), book(fb)
        for k in ("interval_start", "interval_end", "bin_start", "bin_end", "pop-loop-head", "stop", "fill"):
            if not ba.get(k) or not bb.get(k):
                res.fail("binSiblings/%s-%s/%s-missing" % (a, b, k), fa if not ba.get(k) else fb, "bin bookkeeping step `%s` not found" % k)
            elif ba[k] != bb[k]:
                res.fail("binSiblings/%s-%s/%s" % (a, b, k), fb, "bin bookkeeping step `%s` differs between %s and %s: %s vs %s" % (k, a, b, ba[k], bb[k]))
        if not [v for v in res.violations if a in v["role"]]:
            res.ok(fa, "%s / %s: same bin bookkeeping (size, clamp, range, pop, edges, stop) and identical flush blocks (in-loop = final)" % (a, b))


def ob_drivers(ctx, res):
    """C20-F2 + driver siblings"""
    texts = {}
    for name, read in (("intervals_to_array", "bigwig_start_end_length"), ("entries_to_array", "bigbed_start_end_length")):
        fn = ctx.ast.fn(PY, name)
        t = up(fn.body)
        # the library is queried with a range inside [0, length] on both ends (u32 casts of negative numbers wrap)
        cl = [x for x in walk_no_nested_fn(fn.body) if x.k == "let" and x["pat"].k == "p_tuple" and [up(e) for e in x["pat"]["elems"]] == ["intervals_start", "intervals_end"]]
        okc = False
        if len(cl) == 1 and strip(cl[0]["init"]).k == "tuple":
            lo, hi = [_sq(up(e)) for e in strip(cl[0]["init"])["elems"]]
            okc = lo in ("start.max0asu32", "start.max0.minlengthasu32", "start.minlength.max0asu32") and hi in ("end.minlength.max0asu32", "end.max0.minlengthasu32")
            if lo == "start.max0asu32" and hi == "end.minlengthasu32":
                res.fail("drivers/%s/clamp-neg-end" % name, cl[0],
                         "the queried end is min(end, length) cast to u32 without a lower bound: for a range entirely before the chromosome (end < 0) it wraps to ~4.29e9")
                continue
        if not okc:
            res.fail("drivers/%s/clamp" % name, fn, "the library must be queried with (max(start, 0), max(min(end, length), 0))")
            continue
        qs = [c for c in walk_no_nested_fn(fn.body) if c.k == "mcall" and c["method"] in ("get_interval", "get_zoom_interval")]
        bad = [c for c in qs if [up(strip(a)) for a in c["args"][1:3]] != ["intervals_start", "intervals_end"]]
        if len(qs) != 3 or bad:
            res.fail("drivers/%s/query" % name, fn, "all three queries (zoom, binned, per-base) must use the clamped range")
            continue
        # oob fill after the data fill, over the same (start, end), the chromosome length and the caller's oob value
        oc = [c for c in walk_no_nested_fn(fn.body) if c.k == "call" and up(c["func"]) == "fill_out_of_bounds"]
        if len(oc) != 1 or [up(strip(a)) for a in oc[0]["args"][:4]] != ["start", "end", "length", "oob"]:
            res.fail("drivers/%s/oob-call" % name, fn, "out-of-bounds bins must be filled by fill_out_of_bounds(start, end, length, oob, array)")
            continue
        data_calls = [c for c in walk_no_nested_fn(fn.body) if c.k == "call" and up(c["func"]) in ROUTINES]
        if len(data_calls) != 3 or any(c.order > oc[0].order for c in data_calls):
            res.fail("drivers/%s/oob-order" % name, fn, "out-of-bounds fill must be written after the data fill")
            continue
        bad = [c for c in data_calls if [up(strip(a)) for a in c["args"][:2]] != ["start", "end"]]
        if bad:
            res.fail("drivers/%s/range" % name, bad[0], "the array routines must be given the requested (unclamped) range: the array covers [start, end)")
            continue
        res.ok(fn, "%s: query clamped to [max(start,0), max(min(end,length),0)); the three routines get (start, end); fill_out_of_bounds(start, end, length, oob) afterwards" % name)
        texts[name] = re.sub(r"\b(bigwig|bigbed)_start_end_length\b", "START_END", re.sub(r"\bto_entry_array", "to_array", t))
    if len(texts) == 2:
        a, b = texts["intervals_to_array"], texts["entries_to_array"]
        if a != b:
            i = 0
            while i < min(len(a), len(b)) and a[i] == b[i]:
                i += 1
            res.fail("drivers/siblings", PY, "intervals_to_array and entries_to_array differ beyond the routine names near `%s` vs `%s`" % (a[max(0, i - 40):i + 40], b[max(0, i - 40):i + 40]))
        else:
            res.ok(PY, "intervals_to_array and entries_to_array are identical modulo the bigWig/bigBed routine names")


def ob_per_base(ctx, res):
    """C20-A1"""
    for name, add in (("to_array", "interval.value as f64"), ("to_entry_array", "1.0")):
        fn = ctx.ast.fn(PY, name)
        t = up(fn.body)
        if "v.fill(f64::NAN);" not in t:
            res.fail("perBase/%s/seed" % name, fn, "the per-base array must be NaN-seeded (so that data and `missing` cannot be confused)")
            continue
        lets = {x["pat"]["name"]: x for x in walk_no_nested_fn(fn.body) if x.k == "let" and x["pat"].k == "p_ident" and x["pat"]["name"] in ("interval_start", "interval_end")}
        if set(lets) != {"interval_start", "interval_end"}:
            res.fail("perBase/%s/index" % name, fn, "index bounds not found")
            continue
        ts, te = _sq(up(lets["interval_start"]["init"])), _sq(up(lets["interval_end"]["init"]))
        raw = ts == "interval.startasi32-startasusize" and te == "interval.endasi32-startasusize"
        clamped = ts in ("interval.startasi32.maxstart-startasusize",) and te in ("interval.endasi32.minend-startasusize",)
        if name == "to_entry_array" and not clamped:
            res.fail("perBase/%s/clamp" % name, lets["interval_start"],
                     "bigBed range queries return whole entries (also ones that only touch the range): the slots must be max(entry.start, start) - start .. min(entry.end, end) - start; "
                     "unclamped, an entry reaching past the range end indexes out of bounds and one starting before the range start wraps to an empty loop (the entry is dropped); "
                     "got `%s` / `%s`" % (up(lets["interval_start"]["init"]), up(lets["interval_end"]["init"])))
            continue
        if name == "to_array" and not (raw or clamped):
            res.fail("perBase/%s/index" % name, fn, "bases value.start-start .. value.end-start must be filled (bigWig queries clip values to the range: C03)")
            continue
        lp = [x for x in walk_no_nested_fn(fn.body) if x.k == "for" and _sq(up(strip(x["iter"]))) == "interval_start..interval_end"]
        if len(lp) != 1:
            res.fail("perBase/%s/loop" % name, fn, "every slot interval_start..interval_end must be visited")
            continue
        want = "*v.index_mut(i) = if val.is_nan() {%s} else {val + %s};" % (add, add)
        if want not in t:
            res.fail("perBase/%s/update" % name, fn, "per-base update must be `%s`" % want)
            continue
        if "for val in v.iter_mut() {*val = if val.is_nan() {missing} else {*val};}" not in t:
            res.fail("perBase/%s/missing" % name, fn, "NaN (no data) must be replaced by `missing` at the end")
            continue
        res.ok(fn, "%s: NaN-seeded; covered base <- %s (summed on overlap)%s; uncovered -> missing" % (name, "value" if name == "to_array" else "+1 per entry", "" if raw else ", item clamped to the range"))
