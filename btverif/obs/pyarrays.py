"""C20: pybigtools array routines -- `missing` taint, division guards, sibling agreement, clamping / oob fill, per-base form."""
from __future__ import annotations
import re
from ..astq import Node, up, strip, strip_cast, walk_no_nested_fn, walk, calls, binding_before, cond_ancestors
from ..rules.layout import origin

PY = "pybigtools/src/lib.rs"
ROUTINES = ["to_array", "to_array_bins", "to_array_zoom", "to_entry_array", "to_entry_array_bins", "to_entry_array_zoom"]
DRIVERS = ["intervals_to_array", "entries_to_array"]


def ob_missing_taint(ctx, res):
    """C20-F1"""
    n = 0
    for name in ROUTINES + DRIVERS:
        fn = ctx.ast.fn(PY, name)
        for x in walk_no_nested_fn(fn.body):
            if not (x.k == "path" and x["path"] == "missing"):
                continue
            b = binding_before(fn, "missing", x)
            if b is None or b[0] != "param":
                continue
            n += 1
            p = x.parent
            child = x
            while p is not None and p.k in ("ref", "cast"):
                child = p
                p = p.parent
            ok = False
            why = up(p)[:70] if p is not None else "?"
            if p is None:
                pass
            elif p.k == "mcall" and child.pkey == "args" and p["method"] in ("fill", "unwrap_or"):
                ok = True
            elif p.k == "if" or (p.k == "block" and p.parent is not None and p.parent.k == "if" and re.search(r"\.is_nan\(\)", up(p.parent["cond"]))):
                ok = True
            elif p.k == "expr_stmt" and p.parent is not None and p.parent.k == "block" and p.parent.parent is not None and p.parent.parent.k == "if" and \
                    ".is_nan()" in up(p.parent.parent["cond"]):
                ok = True
            elif p.k == "assign" and child.pkey == "r" and any(a.k == "if" and ".is_nan()" in up(a["cond"]) and key == "then" for a, key in cond_ancestors(p)):
                ok = True       # `if x.is_nan() { *x = missing; }`
            elif p.k == "call" and child.pkey == "args":
                cal = up(p["func"]).split("::")[-1]
                idx = [i for i, a in enumerate(p["args"]) if a is child]
                tf = [f for f in ctx.ast.fns_in(PY) if f.name == cal]
                ok = bool(tf and idx and idx[0] < len(tf[0].params) and tf[0].params[idx[0]][0] == "missing")
            elif p.k == "macro" and p["path"] == "vec" and "repeat" in p and p["repeat"]["e"] is child:
                # allowed only for the OUTPUT array handed to numpy
                pp = p.parent
                ok = pp is not None and pp.k == "call" and up(pp["func"]).endswith("from_vec_bound")
                if not ok:
                    res.fail("missingTaint/%s/scratch" % name, p,
                             "a per-base scratch vector is seeded with the caller's `missing` value and then used in arithmetic / min / max: with a "
                             "finite `missing` uncovered bases contribute it to the bin (wrong counts for missing > 0, wrong minimum for missing = 0)")
                    continue
            if not ok:
                res.fail("missingTaint/%s" % name, x, "`missing` flows into `%s`: it may only fill the output, replace NaN or be an `unwrap_or` default" % why)
    res.count("missing_uses", n)
    if n < 20:
        res.fail("missingTaint/floor", PY, "only %d uses of `missing` found in the array routines (expected >= 20)" % n)
        return
    if not res.violations:
        res.ok(PY, "%d uses of `missing` in the 6 array routines and 2 drivers: output fill, unwrap_or default, NaN replacement, output allocation, forwarding only" % n)


def ob_division_guards(ctx, res):
    """C20-N1: a finished bin that received no covered base is written as `missing`, not as 0/0 - decided by evaluating every flush site for the mean
    with a zero coverage count (the division by the count must be guarded)"""
    from ..rules.interp import NotPure
    n = 0
    for name in BIN_ROUTINES:
        fn = ctx.ast.fn(PY, name, inline=True)
        for r in _flush_roots(fn):
            n += 1
            try:
                bad = [x for x in _eval_flush(ctx, fn, r, entry="entry" in name) if x[0] == "Mean" and isinstance(x[2], float) and (x[2] != x[2] or x[2] in (float("inf"), float("-inf")))]
            except NotPure as e:
                res.undecided("divGuard/%s" % name, r, "flush of a finished bin not evaluated (%s)" % e)
                continue
            if bad:
                res.fail("divGuard/%s" % name, r,
                         "the mean of a bin with %s divides by a covered-base count of 0 and writes %s (a bin created for an item can receive no overlap): "
                         "the bin becomes NaN for finite data and finite `missing`" % (bad[0][1], bad[0][2]))
            else:
                res.ok(r, "%s: mean of a bin without covered bases is `missing` (division by the count guarded)" % name)
    res.count("mean_divisions", n)
    if n < 4:
        res.fail("divGuard/floor", PY, "only %d flush sites found in the four bin routines (expected two each)" % n)


def _sq(s):
    return re.sub(r"[\s()]", "", s)


def _flush_sites(fn):
    """the `match summary {..}` blocks that write v[bin] (flush of a finished bin)"""
    out = []
    for x in walk_no_nested_fn(fn.body):
        if x.k == "match" and up(strip(x["scrut"])) == "summary" and re.search(r"v\[bin\] = ", up(x)):
            out.append(x)
    return out


class NotInt(Exception):
    pass


def ieval(n, env, funcs, depth=0):
    """evaluate a pure integer expression (Rust semantics for the operators used here: floor division on non-negative operands,
    casts between integer types are value-preserving on the small domain) - paths, int literals, + - * /, .min/.max, calls of `funcs`"""
    n = strip(n)
    if depth > 40:
        raise NotInt("too deep")
    k = n.k
    if k == "lit" and n["t"] == "int":
        return int(re.sub(r"[a-z_].*$", "", str(n["v"]))) if not str(n["v"]).lstrip("-").isdigit() else int(n["v"])
    if k == "cast":
        t = n.get("ty") if isinstance(n.get("ty"), str) else ""
        if "f32" in t or "f64" in t:
            raise NotInt("float cast: " + up(n))
        return ieval(n["e"], env, funcs, depth + 1)
    if k == "paren":
        return ieval(n["e"], env, funcs, depth + 1)
    if k == "path":
        if n["path"] in env:
            return env[n["path"]]
        raise NotInt("free variable " + n["path"])
    if k == "unary" and n["op"] == "-":
        return -ieval(n["e"], env, funcs, depth + 1)
    if k == "binary" and n["op"] in ("+", "-", "*", "/"):
        l, r = ieval(n["l"], env, funcs, depth + 1), ieval(n["r"], env, funcs, depth + 1)
        if n["op"] == "+":
            return l + r
        if n["op"] == "-":
            return l - r
        if n["op"] == "*":
            return l * r
        if r == 0:
            raise NotInt("division by zero in " + up(n))
        q = abs(l) // abs(r)
        return q if (l >= 0) == (r >= 0) else -q   # Rust truncates toward zero
    if k == "mcall" and n["method"] in ("min", "max") and len(n["args"]) == 1:
        l, r = ieval(n["recv"], env, funcs, depth + 1), ieval(n["args"][0], env, funcs, depth + 1)
        return min(l, r) if n["method"] == "min" else max(l, r)
    if k == "call" and up(n["func"]) in funcs:
        f = funcs[up(n["func"])]
        args = [ieval(a, env, funcs, depth + 1) for a in n["args"]]
        return f(*args)
    raise NotInt("unsupported: " + up(n)[:60])


def _fn_as_int_function(ctx, name, funcs):
    """a one-expression integer helper as a Python callable over its parameters"""
    fn = ctx.ast.fn(PY, name)
    st = fn.body["stmts"]
    if not st or st[-1].k != "expr_stmt" or st[-1].get("semi") or any(x.k != "let" for x in st[:-1]):
        raise NotInt("%s is not an expression (optionally behind intermediate `let`s)" % name)
    names = [nm for nm, _ in fn.params]
    from ..astq import _tnorm
    e = _tnorm(fn, strip(st[-1]["e"])) if len(st) > 1 else st[-1]["e"]     # intermediate lets inlined

    def call(*args):
        return ieval(e, dict(zip(names, args)), funcs)
    return fn, call


def ob_bin_arithmetic(ctx, res):
    """C20-B1: bin_bound / bin_of decided by exhaustive evaluation of their source expressions on a small domain"""
    try:
        fb, bound = _fn_as_int_function(ctx, "bin_bound", {})
        fo, binof = _fn_as_int_function(ctx, "bin_of", {})
    except Exception as e:
        res.fail("binArith/helpers", PY, "the integer bin helpers bin_bound(len, bins, bin) / bin_of(len, bins, pos) were not found or are not pure integer expressions (%s): "
                                         "bin indices and bin spans computed in floating point disagree for non-integral widths and round wrongly (ceil(15/(15/13)) = 14)" % e)
        return
    if [ty for _, ty in fb.params] != ["i32", "usize", "usize"] or [ty for _, ty in fo.params] != ["i32", "usize", "i32"]:
        res.fail("binArith/signature", fb, "expected bin_bound(len: i32, bins: usize, bin: usize) and bin_of(len: i32, bins: usize, pos: i32)")
        return
    n = 0
    try:
        for ln in range(1, 15):
            for bins in range(1, ln + 4):
                bs = [bound(ln, bins, k) for k in range(bins + 1)]
                if bs[0] != 0 or bs[-1] != ln:
                    res.fail("binArith/cover", fb, "bins must tile the range exactly: len=%d bins=%d gives bounds %s" % (ln, bins, bs))
                    return
                if any(bs[i] > bs[i + 1] for i in range(bins)):
                    res.fail("binArith/monotone", fb, "bin bounds must not decrease: len=%d bins=%d gives %s" % (ln, bins, bs))
                    return
                if bins <= ln and any(bs[i] == bs[i + 1] for i in range(bins)):
                    res.fail("binArith/nonempty", fb, "with bins <= len every bin must hold at least one base: len=%d bins=%d gives %s" % (ln, bins, bs))
                    return
                if ln % bins == 0 and bs != [k * (ln // bins) for k in range(bins + 1)]:
                    res.fail("binArith/integral", fb, "for an integral width bin k must be [k*w, (k+1)*w): len=%d bins=%d gives %s" % (ln, bins, bs))
                    return
                for pos in range(ln):
                    k = binof(ln, bins, pos)
                    n += 1
                    if not (0 <= k < bins and bs[k] <= pos < bs[k + 1]):
                        res.fail("binArith/consistent", fo,
                                 "bin_of and bin_bound disagree: len=%d bins=%d: base %d is assigned to bin %d whose span is [%s, %s) - a covered base is then "
                                 "counted for the wrong bin (mean/min/max outside the data range)" % (ln, bins, pos, k, bs[k] if 0 <= k <= bins else "?", bs[k + 1] if 0 <= k < bins else "?"))
                        return
    except NotInt as e:
        res.fail("binArith/eval", fb, "helper not evaluable as integer arithmetic: %s" % e)
        return
    res.count("bin_cases", n)
    res.ok(fb, "bin_bound/bin_of: bins tile [0,len) exactly, non-empty for bins <= len, integral widths give k*w, and every base lies in the span of the bin it is assigned to (%d cases, len <= 14)" % n)


BIN_ROUTINES = ["to_array_bins", "to_array_zoom", "to_entry_array_bins", "to_entry_array_zoom"]


def ob_bin_routines(ctx, res):
    """C20-B2: the four bin routines clamp the item to the range, skip items without a base in it, index bins with bin_of and span them with bin_bound
    (decided on provenance descriptors, so local names are free)"""
    for name in BIN_ROUTINES:
        fn = ctx.ast.fn(PY, name)
        tys = [ty for _, ty in fn.params]
        if tys[:2] != ["i32", "i32"] or tys.count("usize") != 1:
            res.fail("binRoutine/%s/signature" % name, fn, "expected (start: i32, end: i32, .., bins: usize, ..)")
            continue
        S, E, B = "p0", "p1", "p%d" % tys.index("usize")
        LEN = "(%s-%s)" % (E, S)
        loops = [x for x in walk_no_nested_fn(fn.body) if x.k == "for" and origin(fn, x["iter"]) == "p2"]
        if len(loops) != 1:
            res.fail("binRoutine/%s/loop" % name, fn, "expected one loop over the items")
            continue
        body = loops[0]["body"]
        lo_re = re.compile(r"\((?:\w+\(p2\)|\?deep)\.start\.max\(%s\)-%s\)|\(%s\.max\((?:\w+\(p2\)|\?deep)\.start\)-%s\)" % (S, S, S, S))
        hi_re = re.compile(r"\((?:\w+\(p2\)|\?deep)\.end\.min\(%s\)-%s\)|\(%s\.min\((?:\w+\(p2\)|\?deep)\.end\)-%s\)" % (E, S, E, S))
        bo = [c for c in walk_no_nested_fn(body) if c.k == "call" and up(c["func"]) == "bin_of"]
        bb = [c for c in walk_no_nested_fn(body) if c.k == "call" and up(c["func"]) == "bin_bound"]
        if len(bo) != 2 or len(bb) != 2:
            res.fail("binRoutine/%s/helpers" % name, fn,
                     "an item's first/last bin must come from bin_of and a queued bin's span from bin_bound (2 calls each); found %d/%d - bin indices or spans computed "
                     "otherwise (floating point) disagree for non-integral widths" % (len(bo), len(bb)))
            continue
        ok = True
        o = [[origin(fn, a) for a in c["args"]] for c in bo]
        for oo, c in zip(o, bo):
            if oo[0] != LEN or oo[1] != B:
                res.fail("binRoutine/%s/index-args" % name, c, "bin_of must be asked about (end - start, bins, position); got origins %s" % oo[:2])
                ok = False
        if not ok:
            continue
        first = [oo for oo in o if lo_re.fullmatch(oo[2])]
        last = [oo for oo in o if oo[2].endswith("-lit:1)") and hi_re.fullmatch(oo[2][1:-len("-lit:1)")])]
        if len(first) != 1 or len(last) != 1:
            res.fail("binRoutine/%s/clamp" % name, bo[0],
                     "the first bin must be that of max(item.start, start) - start and the last that of min(item.end, end) - start - 1 (bigBed and zoom queries return "
                     "unclipped items); positions have origins %s" % [oo[2] for oo in o])
            continue
        sp = sorted((_sq(up(c["args"][2])) for c in bb), key=len)
        if any(origin(fn, c["args"][0]) != LEN or origin(fn, c["args"][1]) != B for c in bb) or not re.fullmatch(r"\w+", sp[0]) or sp[1] not in (sp[0] + "+1", "1+" + sp[0]):
            res.fail("binRoutine/%s/span" % name, bb[0], "a queued bin's span must be [bin_bound(len, bins, bin), bin_bound(len, bins, bin + 1)); got %s" % [up(c) for c in bb])
            continue
        # skip guard: compares the two clamped positions, `continue`s, and precedes the first bin_of
        firstcall = min(toplevel_in(body, c).order for c in bo)
        guards = []
        for st in body["stmts"]:
            if st.k == "expr_stmt" and strip(st["e"]).k == "if" and st.order < firstcall:
                i = strip(st["e"])
                c = strip(i["cond"])
                if c.k == "binary" and c["op"] in ("<=", ">=", "<", ">") and re.fullmatch(r"\{continue;?\}", up(i["then"])):
                    ol, orr = origin(fn, c["l"]), origin(fn, c["r"])
                    if c["op"] in ("<=",) and hi_re.fullmatch(ol) and lo_re.fullmatch(orr):
                        guards.append(i)
                    if c["op"] in (">=",) and lo_re.fullmatch(ol) and hi_re.fullmatch(orr):
                        guards.append(i)
        if len(guards) != 1:
            res.fail("binRoutine/%s/touching" % name, bo[0],
                     "an item with no base inside the range (range queries also return items that only touch it, e.g. starting exactly at the range end) must be skipped before "
                     "its bins are computed: otherwise its first bin index is `bins`, a bin that does not exist is queued and v[bins] is written (panic)")
            continue
        wraps = [x for x in walk_no_nested_fn(fn.body) if x.k == "cast" and isinstance(x.get("ty"), str) and re.fullmatch(r"u(8|16|32|64|size)", x["ty"].strip())
                 and strip(x["e"]).k == "path" and origin(fn, x["e"]) in (S, E)]
        if wraps:
            res.fail("binRoutine/%s/signed-range" % name, wraps[0],
                     "`%s` casts a bound of the requested range to an unsigned type: the range may start (or end) below 0 (out-of-bounds portions are part of the request), "
                     "and a negative bound wraps to ~4.29e9, so items are clamped against the wrong position" % up(wraps[0]))
            continue
        fl = [x for x in walk_no_nested_fn(body) if x.k == "binary" and x["op"] == "/" and ("bin_size" in up(x))]
        if fl:
            res.fail("binRoutine/%s/float" % name, fl[0], "bin indices or spans are still computed in floating point")
            continue
        res.ok(fn, "%s: item clamped to the range, skipped when no base is inside, bins bin_of(start)..=bin_of(end-1), spans from bin_bound" % name)


def toplevel_in(body, n):
    x = n
    while x is not None and isinstance(x, Node) and x.parent is not body:
        x = x.parent
    return x


def ob_zoom_entry_stat(ctx, res):
    """C20-Z1: in to_entry_array_zoom the NaN -> 0 seed is applied to the mean only (min/max ignore NaN)"""
    fn = ctx.ast.fn(PY, "to_entry_array_zoom")
    ms = [m for m in walk_no_nested_fn(fn.body) if m.k == "match" and up(strip(m["scrut"])) == "summary" and "min_val" in up(m) and "v[bin]" not in up(m)]
    if len(ms) != 1:
        res.fail("zoomEntry/shape", fn, "per-base statistic update not found")
        return
    m = ms[0]
    arms = {up(a["pat"]).split("::")[-1]: a for a in m["arms"]}
    # nothing outside the match may rewrite the slot before it
    lp = m.parent
    while lp is not None and lp.k != "for":
        lp = lp.parent
    pre = [x for x in walk_no_nested_fn(lp["body"]) if x.k == "assign" and x.order < m.order and up(strip(x["l"])) == "*i"] if lp is not None else []
    if pre:
        res.fail("zoomEntry/seed", pre[0], "`%s` runs before every statistic: an uncovered (NaN) base becomes 0.0 and the minimum of non-negative data is then always 0" % up(pre[0]))
        return
    tmin, tmax, tmean = _sq(up(arms["Min"]["body"])), _sq(up(arms["Max"]["body"])), _sq(up(arms["Mean"]["body"]))
    if tmin != "*i=i.mininterval.summary.min_val" or tmax != "*i=i.maxinterval.summary.max_val":
        res.fail("zoomEntry/minmax", m, "min/max per base must be i.min(record.min_val) / i.max(record.max_val) on the NaN-seeded slot (f64::min/max ignore NaN)")
        return
    if tmean not in ("*i=i.max0.0+mean", "*i=*i.max0.0+mean"):
        res.fail("zoomEntry/mean", m, "mean per base must add the record mean to the slot with NaN read as 0")
        return
    res.ok(m, "to_entry_array_zoom: NaN->0 only for the mean; min/max fold the record's min_val/max_val into the NaN-seeded slot")


def _final_pass_eval(ctx, fn, vname, after):
    """a whole-array pass after the fill loop (`v.mapv_inplace(|x| ..)`, `v.iter_mut().for_each(|x| ..)`, `v.map_inplace(|x| ..)`) evaluated per element:
    None (no such pass) | ("ok",) | ("bad", node, text) | ("unknown", node, reason)"""
    from ..rules.interp import Interp, NotPure, _Return
    cands = []
    for x in walk_no_nested_fn(fn.body):
        if x.k == "mcall" and x.order > after.order and len(x["args"]) == 1 and strip(x["args"][0]).k == "closure":
            r = up(strip(x["recv"]))
            if (x["method"] in ("mapv_inplace", "map_inplace") and r == vname) or (x["method"] == "for_each" and r in ("%s.iter_mut()" % vname,)):
                cands.append(x)
    if len(cands) != 1:
        return None
    c = cands[0]
    cl = strip(c["args"][0])
    if len(cl["inputs"]) != 1:
        return ("unknown", c, "closure parameters")
    pn = up(cl["inputs"][0]).replace("&mut ", "").replace("mut ", "").replace("&", "").split(":")[0].strip()
    if not re.fullmatch(r"[a-z_]\w*", pn):
        return ("unknown", c, "closure parameter `%s`" % pn)
    nan = float("nan")

    def method(m, recv, args):
        if m == "is_nan" and isinstance(recv, float) and not args:
            return recv != recv
        if m == "is_finite" and isinstance(recv, float) and not args:
            return recv == recv and abs(recv) != float("inf")
        raise NotPure("method " + m)
    out = []
    for x in (nan, 1.5, 0.0, -2.0):
        it = Interp(ctx.ast, PY, extern={"None": None, "method": method, "floats": True})
        env = {pn: x, "missing": "MISSING"}
        try:
            b = cl["body"]
            v = it.block(b, env, 0) if b.k == "block" else it.ev(b, env, 0)
        except (NotPure, _Return) as e:
            return ("unknown", c, str(e)[:60])
        except Exception as e:
            return ("unknown", c, str(e)[:60])
        got = v if c["method"] == "mapv_inplace" else env[pn]
        want = "MISSING" if x != x else x
        if got != want and not (got != got and want != want):
            out.append("%s to %s" % ("NaN" if x != x else x, got))
    if out:
        return ("bad", c, ", ".join(out))
    return ("ok",)


def _oob_eval(ctx, fn, bound):
    """fill_out_of_bounds run by the general interpreter on an index-recording array: None (not evaluable) | ("ok", n) | ("bad", role, message)"""
    from ..rules.interp import Interp, NotPure, _Return
    n = 0
    for length in range(1, 7):
        for start in range(-4, length + 4):
            for end in range(start + 1, length + 5):
                ln = end - start
                for bins in range(1, ln + 1):
                    arr = {"__arr": {}, "__ref": True}
                    box = []

                    def method(m, recv, args, bins=bins, box=box):
                        if recv is not None and isinstance(recv, dict) and "__arr" in recv and m in ("len", "dim") and not args:
                            return bins
                        if isinstance(recv, dict) and "__arr" in recv and m in ("view_mut", "as_array_mut", "reborrow") and not args:
                            return recv
                        if isinstance(recv, tuple) and len(recv) == 3 and recv[0] == "range" and m == "for_each" and len(args) == 1:
                            for k_ in range(recv[1], recv[2]):
                                box[0].apply_closure(args[0], [k_])
                            return None
                        if isinstance(recv, tuple) and len(recv) == 3 and recv[0] == "range" and m in ("rev",) and not args:
                            return recv
                        raise NotPure("method " + m)

                    def binop(op, a, b):
                        if isinstance(a, int) and isinstance(b, int) and not isinstance(a, bool) and not isinstance(b, bool):
                            if op == "+":
                                return a + b
                            if op == "-":
                                return a - b
                            if op == "*":
                                return a * b
                            if op == "/":
                                if b == 0:
                                    raise NotPure("division by zero")
                                q = abs(a) // abs(b)
                                return q if (a >= 0) == (b >= 0) else -q
                        raise NotPure("arithmetic")
                    it = Interp(ctx.ast, PY, extern={"None": None, "method": method, "binop": binop})
                    box.append(it)
                    try:
                        it.call(fn, [start, end, length, "OOB", arr])
                    except (NotPure, _Return):
                        return None
                    except Exception:
                        return None
                    wr = arr["__arr"]
                    for k_, v_ in wr.items():
                        if not (isinstance(k_, int) and 0 <= k_ < bins):
                            return ("bad", "oobFill/index", "writes array[%s] with %d bins (start=%d end=%d length=%d): out of bounds" % (k_, bins, start, end, length))
                        if v_ != "OOB":
                            return ("bad", "oobFill/value", "writes `%s` instead of the oob value (start=%d end=%d length=%d bins=%d)" % (v_, start, end, length, bins))
                    bs = [bound(ln, bins, k_) for k_ in range(bins + 1)]
                    want = set(k_ for k_ in range(bins) if any(start + p_ < 0 or start + p_ >= length for p_ in range(bs[k_], bs[k_ + 1])))
                    n += 1
                    if set(wr) != want:
                        return ("bad", "oobFill/bins", "start=%d end=%d length=%d bins=%d: bins filled with oob %s, bins holding a base outside the chromosome %s"
                                % (start, end, length, bins, sorted(wr), sorted(want)))
    return ("ok", n)


def ob_oob_fill(ctx, res):
    """C20-O1: fill_out_of_bounds decided by evaluating its index expressions for all small (start, end, length, bins)"""
    fn = ctx.ast.fn(PY, "fill_out_of_bounds", required=False)
    if fn is None:
        res.fail("oobFill/missing", PY, "fill_out_of_bounds(start, end, length, oob, array) not found")
        return
    try:
        _, bound = _fn_as_int_function(ctx, "bin_bound", {})
        _, binof = _fn_as_int_function(ctx, "bin_of", {})
    except Exception as e:
        res.fail("oobFill/helpers", fn, "integer bin helpers not available: %s" % e)
        return
    funcs = {"bin_of": binof, "bin_bound": bound}
    names = [nm for nm, _ in fn.params]
    if [ty for _, ty in fn.params][:4] != ["i32", "i32", "i32", "f64"] or len(names) != 5:
        res.fail("oobFill/signature", fn, "unexpected signature %s (expected start, end, length: i32, oob: f64, array)" % fn.params)
        return
    P_START, P_END, P_LEN, P_OOB, P_ARR = names
    ev = _oob_eval(ctx, fn, bound)
    if ev is not None:
        if ev[0] == "bad":
            res.fail(ev[1], fn, ev[2])
        else:
            res.ok(fn, "fill_out_of_bounds run for %d combinations of (start, end, chromosome length, bins): exactly the bins holding a base outside [0, length) are set to oob; "
                       "every index inside the array" % ev[1])
        return
    stmts = fn.body["stmts"]
    # recognised shape: lets (pure ints), an early return on an empty range/array, then `if cond { [lets] for i in A..B / A..=B { array[i] = oob; } }` blocks
    pre_lets, ifs, early = [], [], None
    for st in stmts:
        if st.k == "let":
            pre_lets.append(st)
        elif st.k == "expr_stmt" and strip(st["e"]).k == "if":
            i = strip(st["e"])
            if re.fullmatch(r"\{return;?\}", up(i["then"])):
                early = i
            else:
                ifs.append(i)
        else:
            res.fail("oobFill/shape", st, "unrecognised statement `%s`" % up(st)[:60])
            return
    if len(ifs) != 2 or early is None:
        res.fail("oobFill/shape", fn, "expected an early return for an empty range and two guarded fills (before 0, past the end)")
        return

    def cond_eval(c, env):
        c = strip(c)
        if c.k == "binary" and c["op"] == "||":
            return cond_eval(c["l"], env) or cond_eval(c["r"], env)
        if c.k == "binary" and c["op"] == "&&":
            return cond_eval(c["l"], env) and cond_eval(c["r"], env)
        if c.k == "binary" and c["op"] in ("<", "<=", ">", ">=", "==", "!="):
            l, r = ieval(c["l"], env, funcs), ieval(c["r"], env, funcs)
            return {"<": l < r, "<=": l <= r, ">": l > r, ">=": l >= r, "==": l == r, "!=": l != r}[c["op"]]
        raise NotInt("condition " + up(c))

    n = 0
    try:
        for length in range(1, 7):
            for start in range(-4, length + 4):
                for end in range(start + 1, length + 5):
                    ln = end - start
                    for bins in sorted(set(list(range(1, ln + 1)))):
                        env = {P_START: start, P_END: end, P_LEN: length}
                        for l in pre_lets:
                            nm = l["pat"]["name"]
                            if up(strip(l["init"])) == "%s.len()" % P_ARR:
                                env[nm] = bins
                            else:
                                env[nm] = ieval(l["init"], env, funcs)
                        if cond_eval(early["cond"], env):
                            res.fail("oobFill/early", early, "returns without filling although the range is not empty (start=%d end=%d length=%d bins=%d)" % (start, end, length, bins))
                            return
                        marked = set()
                        for i in ifs:
                            if not cond_eval(i["cond"], env):
                                continue
                            e2 = dict(env)
                            for st in i["then"]["stmts"]:
                                if st.k == "let":
                                    e2[st["pat"]["name"]] = ieval(st["init"], e2, funcs)
                                elif st.k == "expr_stmt" and strip(st["e"]).k == "for":
                                    f = strip(st["e"])
                                    rg = strip(f["iter"])
                                    if rg.k != "range" or not re.fullmatch(r"\{array\[%s\] = oob;?\}" % re.escape(up(f["pat"])), up(f["body"])):
                                        raise NotInt("fill loop " + up(f)[:60])
                                    lo = ieval(rg["from"], e2, funcs) if rg.get("from") is not None else 0
                                    hi = ieval(rg["to"], e2, funcs)
                                    if rg.get("inclusive") or "..=" in up(rg):
                                        hi += 1
                                    for k in range(lo, hi):
                                        if not 0 <= k < bins:
                                            res.fail("oobFill/index", f, "writes array[%d] with %d bins (start=%d end=%d length=%d): out of bounds" % (k, bins, start, end, length))
                                            return
                                        marked.add(k)
                                else:
                                    raise NotInt("statement " + up(st)[:60])
                        bs = [bound(ln, bins, k) for k in range(bins + 1)]
                        want = set(k for k in range(bins) if any(start + p < 0 or start + p >= length for p in range(bs[k], bs[k + 1])))
                        n += 1
                        if marked != want:
                            res.fail("oobFill/bins", fn, "start=%d end=%d length=%d bins=%d: bins filled with oob %s, bins holding a base outside the chromosome %s"
                                     % (start, end, length, bins, sorted(marked), sorted(want)))
                            return
    except NotInt as e:
        res.fail("oobFill/eval", fn, "not evaluable as integer arithmetic: %s" % e)
        return
    res.count("oob_cases", n)
    res.ok(fn, "fill_out_of_bounds: for every small (start, end, length, bins <= len) exactly the bins holding a base before 0 or at/after `length` are set to oob, all indices in range (%d cases)" % n)


MISSING = 777.25
NAN = float("nan")


def _list_method(it):
    """iterator algebra over Python lists for the flush expressions (filter / map / reduce / any / sum / then ...)"""
    from ..rules.interp import NotPure

    def method(m, recv, args):
        if isinstance(recv, list):
            if m in ("into_iter", "iter", "copied", "cloned", "iter_mut") and not args:
                return list(recv)
            if m == "filter" and len(args) == 1:
                return [x for x in recv if it[0].apply_closure(args[0], [x])]
            if m == "map" and len(args) == 1:
                return [it[0].apply_closure(args[0], [x]) for x in recv]
            if m == "any" and len(args) == 1:
                return any(it[0].apply_closure(args[0], [x]) for x in recv)
            if m == "all" and len(args) == 1:
                return all(it[0].apply_closure(args[0], [x]) for x in recv)
            if m == "reduce" and len(args) == 1:
                if not recv:
                    return None
                acc = recv[0]
                for x in recv[1:]:
                    acc = it[0].apply_closure(args[0], [acc, x])
                return ("some", acc)
            if m == "fold" and len(args) == 2:
                acc = args[0]
                for x in recv:
                    acc = it[0].apply_closure(args[1], [acc, x])
                return acc
            if m == "sum" and not args:
                return sum(recv)
            if m in ("len", "count") and not args:
                return len(recv)
            if m == "is_empty" and not args:
                return not recv
        if isinstance(recv, bool) and m == "then" and len(args) == 1:
            return ("some", it[0].apply_closure(args[0], [])) if recv else None
        if isinstance(recv, bool) and m == "then_some" and len(args) == 1:
            return ("some", args[0]) if recv else None
        if m == "and_then" and len(args) == 1 and (recv is None or (isinstance(recv, tuple) and recv[0] == "some")):
            return None if recv is None else it[0].apply_closure(args[0], [recv[1]])
        if m == "filter" and len(args) == 1 and (recv is None or (isinstance(recv, tuple) and recv[0] == "some")):
            return recv if recv is not None and it[0].apply_closure(args[0], [recv[1]]) else None
        if m == "is_nan" and not args and isinstance(recv, (int, float)):
            return recv != recv
        raise NotPure("method %s on %r" % (m, type(recv).__name__))
    return method


def _fbinop(op, a, b):
    from ..rules.interp import NotPure
    if isinstance(a, (int, float)) and isinstance(b, (int, float)) and not isinstance(a, bool) and not isinstance(b, bool):
        if op == "+":
            return a + b
        if op == "-":
            return a - b
        if op == "*":
            return a * b
        if op == "/":
            if b == 0:
                return NAN if a == 0 or a != a else float("inf")
            return a / b
    raise NotPure("arithmetic %s" % op)


def _flush_roots(fn):
    """statements that write the output array at a finished bin: `v[bin] = ..` assignments, grouped under their enclosing `match summary` when there is one"""
    out = []
    vname = fn.params[-1][0]
    for x in walk_no_nested_fn(fn.body):
        if x.k == "assign" and strip(x["l"]).k == "index" and up(strip(strip(x["l"])["base"])) == vname:
            root = x
            y = x.parent
            while y is not None and isinstance(y, Node) and y.k != "fn":
                if y.k == "match" and up(strip(y["scrut"])) == "summary":
                    root = y
                    break
                if y.k in ("for", "while", "loop", "closure"):
                    break
                y = y.parent
            if not any(r is root for r in out):
                out.append(root)
    return out


def _eval_flush(ctx, fn, root, entry):
    """-> list of (summary, case description, got, want) mismatches, or raises NotPure"""
    from ..rules.interp import Interp, NotPure
    idx = strip([x for x in walk_no_nested_fn(root) if x.k == "assign" and strip(x["l"]).k == "index"][0]["l"])
    binn = up(strip(idx["index"]))
    b = binding_before(fn, binn, root) if re.fullmatch(r"\w+", binn) else None
    if b is None or b[0] != "let" or b[1].get("init") is None or not re.fullmatch(r"(\w+)\.0", up(strip(b[1]["init"]))):
        raise NotPure("the bin index `%s` is not `let bin = <popped element>.0`" % binn)
    X = up(strip(b[1]["init"]))[:-2]
    vname = fn.params[-1][0]
    if entry:
        cases = [("no base covered", ([0, 0, 0], [NAN, NAN, NAN]), {"Min": MISSING, "Max": MISSING, "Mean": MISSING}),
                 ("bases covered by 2, -, 5 entries", ([1, 0, 1], [2.0, NAN, 5.0]), {"Min": 2.0, "Max": 5.0, "Mean": 3.5}),
                 ("every base covered by 1, 3, 2 entries", ([1, 1, 1], [1.0, 3.0, 2.0]), {"Min": 1.0, "Max": 3.0, "Mean": 2.0})]
    else:
        cases = [("nothing overlapped the bin", None, {"Min": MISSING, "Max": MISSING, "Mean": MISSING}),
                 ("4 covered bases, accumulated 6.0", ("some", (4, 6.0)), {"Min": 6.0, "Max": 6.0, "Mean": 1.5}),
                 ("accumulator present but 0 covered bases", ("some", (0, 0.0)), {"Mean": MISSING})]
    bad = []
    for sm in ("Min", "Max", "Mean"):
        for desc, acc, want in cases:
            if sm not in want:
                continue
            arr = {"__ref": True, "__arr": {}}
            front = (0, 0, 3) + (tuple(list(x) for x in acc) if entry else (acc,))
            holder = [None]
            itp = Interp(ctx.ast, PY, extern={"None": None, "floats": True, "binop": _fbinop, "method": _list_method(holder),
                                              "path": lambda p_: NAN if p_.endswith("NAN") else (_ for _ in ()).throw(NotPure("free name " + p_))})
            holder[0] = itp
            env = {X: front, binn: 0, "missing": MISSING, "summary": ("variant", sm, []), vname: arr}
            itp.run_stmts([_as_stmt(root)], env)
            got = arr["__arr"].get(0, "<not written>")
            w = want[sm]
            if not (isinstance(got, (int, float)) and abs(got - w) < 1e-9):
                bad.append((sm, desc, got, w))
    return bad


def _as_stmt(n):
    from ..astq import _mknode
    return _mknode({"k": "expr_stmt", "e": n, "semi": True})


def ob_bin_siblings(ctx, res):
    """C20-S1: every flush of a finished bin (in-loop and final, all four routines) is evaluated for the three statistics on representative accumulators;
    the bin bookkeeping of sibling routines is compared in normal form (a difference there is reported as undecided, not as a violation)"""
    from ..rules.interp import NotPure
    from ..astq import upn
    for name in BIN_ROUTINES:
        fn = ctx.ast.fn(PY, name, inline=True)
        roots = _flush_roots(fn)
        if len(roots) < 2:
            res.fail("binSiblings/%s/flush-sites" % name, fn, "finished bins must be written both inside the item loop and after it; found %d flush site(s)" % len(roots))
            continue
        ok = True
        for r in roots:
            try:
                bad = _eval_flush(ctx, fn, r, entry="entry" in name)
            except NotPure as e:
                res.undecided("binSiblings/%s/flush" % name, r, "flush of a finished bin not evaluated (%s)" % e)
                ok = False
                continue
            if bad:
                sm, desc, got, want = bad[0]
                res.fail("binSiblings/%s/flush" % name, r, "%s flush, statistic %s, bin with %s: writes %s, required %s%s" % (
                    name, sm, desc, got, "`missing`" if want == MISSING else want, " (NaN for finite data)" if isinstance(got, float) and got != got else ""))
                ok = False
        if ok:
            res.ok(fn, "%s: %d flush sites evaluated for min/max/mean on uncovered, partly and fully covered bins: covered statistic or `missing`, never NaN" % (name, len(roots)))
    for a, b in (("to_array_bins", "to_array_zoom"), ("to_entry_array_bins", "to_entry_array_zoom")):
        fa, fb = ctx.ast.fn(PY, a), ctx.ast.fn(PY, b)

        def book(fn):
            out = {}
            for x in walk_no_nested_fn(fn.body):
                if x.k == "let" and x["pat"].k == "p_ident" and x["pat"]["name"] in ("interval_start", "interval_end", "bin_start", "bin_end") and x.get("init") is not None:
                    out.setdefault(x["pat"]["name"], []).append(upn(fn, x["init"]))
                if x.k == "if" and "break" in up(x["then"]) and "interval_end" in up(x["cond"]):
                    out.setdefault("stop", []).append(upn(fn, x["cond"]))
            return out
        ba, bb = book(fa), book(fb)
        diff = [k for k in ("interval_start", "interval_end", "bin_start", "bin_end", "stop") if ba.get(k) != bb.get(k)]
        if diff:
            res.undecided("binSiblings/%s-%s/bookkeeping" % (a, b), fb, "bin bookkeeping steps %s are spelled differently in %s and %s (compared in normal form); "
                                                                        "their agreement is not decided here (C20-B2 decides each routine on its own)" % (diff, a, b))
        else:
            res.ok(fa, "%s / %s: same bin bookkeeping (clamp, bin range, bin edges, stop) in normal form" % (a, b))


def ob_drivers(ctx, res):
    """C20-F2 + driver siblings"""
    texts = {}
    for name, read in (("intervals_to_array", "bigwig_start_end_length"), ("entries_to_array", "bigbed_start_end_length")):
        fn = ctx.ast.fn(PY, name)
        t = up(fn.body)
        # the library is queried with a range inside [0, length] on both ends (u32 casts of negative numbers wrap)
        # every query's (start, end) arguments, as expressions of (start, end, length), must be (max(start,0), max(min(end,length),0)): decided by R-EQUIV
        from ..rules import equiv as EQ
        qs0 = [c for c in walk_no_nested_fn(fn.body) if c.k == "mcall" and c["method"] in ("get_interval", "get_zoom_interval")]
        roles = {"S": "start", "E": "end", "L": "length"}
        verdict = None
        for c in qs0:
            if len(c["args"]) < 3:
                verdict = ("undecided", "query with %d arguments" % len(c["args"]))
                break
            qa = EQ.equiv(fn, c["args"][1], roles, lambda e: max(e["S"], 0), domain=range(-2, 4), pre=lambda e: e["L"] >= 1 and e["S"] < e["E"])
            qb = EQ.equiv(fn, c["args"][2], roles, lambda e: max(min(e["E"], e["L"]), 0), domain=range(-2, 4), pre=lambda e: e["L"] >= 1 and e["S"] < e["E"])
            for q, what in ((qa, "start"), (qb, "end")):
                if q[0] == "differs" and verdict is None:
                    verdict = ("differs", what, q, c)
                elif q[0] == "unknown" and verdict is None:
                    verdict = ("undecided", q[1])
        if verdict and verdict[0] == "differs":
            _, what, q, c = verdict
            if what == "end" and q[2] < 0:
                res.fail("drivers/%s/clamp-neg-end" % name, c,
                         "the queried end is %s for %s (required %s): without a lower bound a range entirely before the chromosome (end < 0) wraps to ~4.29e9 when cast to u32" % (q[2], q[1], q[3]))
            else:
                res.fail("drivers/%s/clamp" % name, c, "the library must be queried with (max(start, 0), max(min(end, length), 0)); the queried %s is %s for %s, required %s" % (what, q[2], q[1], q[3]))
            continue
        if verdict:
            res.undecided("drivers/%s/clamp" % name, fn, "queried range not decided (%s)" % verdict[1])
        qs = [c for c in walk_no_nested_fn(fn.body) if c.k == "mcall" and c["method"] in ("get_interval", "get_zoom_interval")]
        bad = []
        if len(qs) != 3 or bad:
            res.fail("drivers/%s/query" % name, fn, "all three queries (zoom, binned, per-base) must use the clamped range")
            continue
        # oob fill after the data fill, over the same (start, end), the chromosome length and the caller's oob value
        oc = [c for c in walk_no_nested_fn(fn.body) if c.k == "call" and up(c["func"]) == "fill_out_of_bounds"]
        if len(oc) != 1 or [up(strip(a)) for a in oc[0]["args"][:4]] != ["start", "end", "length", "oob"]:
            res.fail("drivers/%s/oob-call" % name, fn, "out-of-bounds bins must be filled by fill_out_of_bounds(start, end, length, oob, array)")
            continue
        data_calls = [c for c in walk_no_nested_fn(fn.body) if c.k == "call" and up(c["func"]) in ROUTINES]
        if len(data_calls) != 3 or any(c.order > oc[0].order for c in data_calls):
            res.fail("drivers/%s/oob-order" % name, fn, "out-of-bounds fill must be written after the data fill")
            continue
        bad = [c for c in data_calls if [up(strip(a)) for a in c["args"][:2]] != ["start", "end"]]
        if bad:
            res.fail("drivers/%s/range" % name, bad[0], "the array routines must be given the requested (unclamped) range: the array covers [start, end)")
            continue
        res.ok(fn, "%s: query clamped to [max(start,0), max(min(end,length),0)); the three routines get (start, end); fill_out_of_bounds(start, end, length, oob) afterwards" % name)
        texts[name] = re.sub(r"\b(bigwig|bigbed)_start_end_length\b", "START_END", re.sub(r"\bto_entry_array", "to_array", t))
    if len(texts) == 2:
        a, b = texts["intervals_to_array"], texts["entries_to_array"]
        if a != b:
            i = 0
            while i < min(len(a), len(b)) and a[i] == b[i]:
                i += 1
            res.undecided("drivers/siblings", PY, "intervals_to_array and entries_to_array are spelled differently beyond the routine names near `%s` vs `%s`: their agreement is not decided "
                                                  "(each driver's clauses are decided on its own above)" % (a[max(0, i - 40):i + 40], b[max(0, i - 40):i + 40]))
        else:
            res.ok(PY, "intervals_to_array and entries_to_array are identical modulo the bigWig/bigBed routine names")


def ob_per_base(ctx, res):
    """C20-A1: per-base routines - NaN seed, slot range decided by R-EQUIV, per-slot update and final NaN -> missing replacement in normal form"""
    from ..rules import equiv as EQ
    from ..astq import upn
    for name, add_re, addtxt in (("to_array", r"\w+\.value as f64", "value"), ("to_entry_array", r"1\.0", "+1 per entry")):
        fn = ctx.ast.fn(PY, name, inline=True)
        vname = fn.params[-1][0]
        fills = [c for c in calls(fn.body, method="fill") if up(strip(c["recv"])) == vname]
        if not any(up(strip(c["args"][0])).endswith("NAN") for c in fills):
            res.fail("perBase/%s/seed" % name, fn, "the per-base array must be NaN-seeded (so that data and `missing` cannot be confused)")
            continue
        lp = [x for x in walk_no_nested_fn(fn.body) if x.k == "for" and strip(x["iter"]).k == "range" and strip(x["iter"]).get("from") is not None and strip(x["iter"]).get("to") is not None]
        if len(lp) != 1:
            res.undecided("perBase/%s/loop" % name, fn, "expected one `for i in a..b` loop over the slots of an item; found %d" % len(lp))
            continue
        rng = strip(lp[0]["iter"])
        roles = {"IS": r"\w+\.start", "IE": r"\w+\.end", "S": re.escape(fn.params[0][0]), "E": re.escape(fn.params[1][0])}
        pre = lambda e: e["S"] < e["E"] and e["IS"] < e["IE"]
        clamp_lo, clamp_hi = (lambda e: max(e["IS"], e["S"]) - e["S"]), (lambda e: min(e["IE"], e["E"]) - e["S"])
        qlo = EQ.equiv(fn, rng["from"], roles, clamp_lo, domain=range(0, 4), pre=pre)
        qhi = EQ.equiv(fn, rng["to"], roles, clamp_hi, domain=range(0, 4), pre=pre)
        raw = False
        if name == "to_array" and (qlo[0] == "differs" or qhi[0] == "differs"):
            # bigWig queries clip values to the range (C03), so value.start - start .. value.end - start is in range as it stands
            inside = lambda e: pre(e) and e["S"] <= e["IS"] and e["IE"] <= e["E"]
            qlo = EQ.equiv(fn, rng["from"], roles, lambda e: e["IS"] - e["S"], domain=range(0, 4), pre=inside)
            qhi = EQ.equiv(fn, rng["to"], roles, lambda e: e["IE"] - e["S"], domain=range(0, 4), pre=inside)
            raw = True
        if qlo[0] == "differs" or qhi[0] == "differs":
            q = qlo if qlo[0] == "differs" else qhi
            if name == "to_entry_array":
                res.fail("perBase/%s/clamp" % name, lp[0],
                         "bigBed range queries return whole entries (also ones that only touch the range): the slots must be max(entry.start, start) - start .. min(entry.end, end) - start; "
                         "unclamped, an entry reaching past the range end indexes out of bounds and one starting before the range start wraps to an empty loop (the entry is dropped); "
                         "`%s..%s` gives %s, required %s, for %s" % (up(rng["from"]), up(rng["to"]), q[2], q[3], q[1]))
            else:
                res.fail("perBase/%s/index" % name, lp[0], "bases value.start-start .. value.end-start must be filled; `%s..%s` gives %s, required %s, for %s" % (up(rng["from"]), up(rng["to"]), q[2], q[3], q[1]))
            continue
        if qlo[0] == "unknown" or qhi[0] == "unknown":
            res.undecided("perBase/%s/index" % name, lp[0], "slot range not decided (%s)" % (qlo[1] if qlo[0] == "unknown" else qhi[1]))
        # per-slot update
        ivar = up(lp[0]["pat"])
        slot = (r"\*?%s\.index_mut\(%s\)|%s\[%s\]" % (vname, ivar, vname, ivar))
        asg = [x for x in walk_no_nested_fn(lp[0]["body"]) if x.k == "assign" and re.fullmatch(slot, up(strip(x["l"])))]
        if len(asg) != 1:
            res.undecided("perBase/%s/update" % name, lp[0], "expected one assignment to the slot `%s[%s]` per visited base; found %d" % (vname, ivar, len(asg)))
        else:
            t = upn(fn, asg[0]["r"])
            cur = r"(?:\w+|%s)" % slot
            ok = re.fullmatch(r"if (%s)\.is_nan\(\) \{(%s)\} else \{(?:\1 \+ \2|\2 \+ \1)\}" % (cur, add_re), t) or \
                re.fullmatch(r"if !(%s)\.is_nan\(\) \{(?:\1 \+ (%s)|(%s) \+ \1)\} else \{(?:\2|\3)\}" % (cur, add_re, add_re), t)
            if not ok:
                res.fail("perBase/%s/update" % name, asg[0], "per-base update must be `slot = if slot.is_nan() { %s } else { slot + %s }`; got `%s`" % (addtxt, addtxt, t[:140]))
                continue
        # NaN -> missing at the end
        fin = [x for x in walk_no_nested_fn(fn.body) if x.k == "for" and up(strip(x["iter"])) in ("%s.iter_mut()" % vname, "&mut %s" % vname) and x.order > lp[0].order]
        if len(fin) != 1:
            fv = _final_pass_eval(ctx, fn, vname, lp[0])
            if fv is None:
                res.fail("perBase/%s/missing" % name, fn, "NaN (no data) must be replaced by `missing` in a final pass over the array")
            elif fv[0] == "bad":
                res.fail("perBase/%s/missing" % name, fv[1], "NaN (no data) must be replaced by `missing` at the end and every other value kept; the final pass maps %s" % fv[2])
            elif fv[0] == "unknown":
                res.undecided("perBase/%s/missing" % name, fv[1], "final pass over the array not evaluable (%s)" % fv[2])
            else:
                res.ok(fn, "%s: NaN-seeded; covered base <- %s (summed on overlap)%s; uncovered -> missing (final pass evaluated)" % (name, addtxt, "" if raw else ", item clamped to the range"))
            continue
        vn = up(fin[0]["pat"])
        bt = upn(fn, fin[0]["body"])
        forms = ("{*%s = if %s.is_nan() {missing} else {*%s};}" % (vn, vn, vn), "{if %s.is_nan() {*%s = missing;}}" % (vn, vn), "{*%s = if !%s.is_nan() {*%s} else {missing};}" % (vn, vn, vn))
        if bt.replace(";}", "}").replace(" ", "") not in [f.replace(";}", "}").replace(" ", "") for f in forms]:
            if "missing" in bt and "is_nan" in bt:
                res.undecided("perBase/%s/missing" % name, fin[0], "final pass `%s` is not one of the recognised NaN -> missing replacements" % bt[:100])
            else:
                res.fail("perBase/%s/missing" % name, fin[0], "NaN (no data) must be replaced by `missing` at the end; final pass is `%s`" % bt[:100])
                continue
        res.ok(fn, "%s: NaN-seeded; covered base <- %s (summed on overlap)%s; uncovered -> missing" % (name, addtxt, "" if raw else ", item clamped to the range"))
