"""C20: pybigtools array routines -- `missing` taint, division guards, sibling agreement, clamping / oob fill, per-base form."""
from __future__ import annotations
import re
from ..astq import Node, up, strip, strip_cast, walk_no_nested_fn, walk, calls, binding_before
from ..rules.layout import origin

PY = "pybigtools/src/lib.rs"
ROUTINES = ["to_array", "to_array_bins", "to_array_zoom", "to_entry_array", "to_entry_array_bins", "to_entry_array_zoom"]
DRIVERS = ["intervals_to_array", "entries_to_array"]


def ob_missing_taint(ctx, res):
    """C20-F1"""
    n = 0
    for name in ROUTINES + DRIVERS:
        fn = ctx.ast.fn(PY, name)
        for x in walk_no_nested_fn(fn.body):
            if not (x.k == "path" and x["path"] == "missing"):
                continue
            b = binding_before(fn, "missing", x)
            if b is None or b[0] != "param":
                continue
            n += 1
            p = x.parent
            child = x
            while p is not None and p.k in ("ref", "cast"):
                child = p
                p = p.parent
            ok = False
            why = up(p)[:70] if p is not None else "?"
            if p is None:
                pass
            elif p.k == "mcall" and child.pkey == "args" and p["method"] in ("fill", "unwrap_or"):
                ok = True
            elif p.k == "if" or (p.k == "block" and p.parent is not None and p.parent.k == "if" and re.search(r"\.is_nan\(\)", up(p.parent["cond"]))):
                ok = True
            elif p.k == "expr_stmt" and p.parent is not None and p.parent.k == "block" and p.parent.parent is not None and p.parent.parent.k == "if" and \
                    ".is_nan()" in up(p.parent.parent["cond"]):
                ok = True
            elif p.k == "call" and child.pkey == "args":
                cal = up(p["func"]).split("::")[-1]
                idx = [i for i, a in enumerate(p["args"]) if a is child]
                tf = [f for f in ctx.ast.fns_in(PY) if f.name == cal]
                ok = bool(tf and idx and idx[0] < len(tf[0].params) and tf[0].params[idx[0]][0] == "missing")
            elif p.k == "macro" and p["path"] == "vec" and "repeat" in p and p["repeat"]["e"] is child:
                # allowed only for the OUTPUT array handed to numpy
                pp = p.parent
                ok = pp is not None and pp.k == "call" and up(pp["func"]).endswith("from_vec_bound")
                if not ok:
                    res.fail("missingTaint/%s/scratch" % name, p,
                             "a per-base scratch vector is seeded with the caller's `missing` value and then used in arithmetic / min / max: with a "
                             "finite `missing` uncovered bases contribute it to the bin (wrong counts for missing > 0, wrong minimum for missing = 0)")
                    continue
            if not ok:
                res.fail("missingTaint/%s" % name, x, "`missing` flows into `%s`: it may only fill the output, replace NaN or be an `unwrap_or` default" % why)
    res.count("missing_uses", n)
    if n < 20:
        res.fail("missingTaint/floor", PY, "only %d uses of `missing` found in the array routines (expected >= 20)" % n)
        return
    if not res.violations:
        res.ok(PY, "%d uses of `missing` in the 6 array routines and 2 drivers: output fill, unwrap_or default, NaN replacement, output allocation, forwarding only" % n)


def ob_division_guards(ctx, res):
    """C20-N1"""
    n = 0
    for name in ["to_array_bins", "to_array_zoom", "to_entry_array_bins", "to_entry_array_zoom"]:
        fn = ctx.ast.fn(PY, name)
        for x in walk_no_nested_fn(fn.body):
            if not (x.k == "binary" and x["op"] == "/"):
                continue
            den = strip_cast(x["r"])
            dt = up(den)
            # only divisions by a covered-base count (closure / tuple-bound `c`)
            if dt not in ("c",):
                continue
            arm = x.parent
            in_mean = False
            while arm is not None and isinstance(arm, Node):
                if arm.k == "arm" and up(arm["pat"]).endswith("Summary::Mean"):
                    in_mean = True
                arm = arm.parent
            if not in_mean:
                continue
            n += 1
            # guard forms: enclosing closure is the argument of `.map(..)` whose receiver chain contains `.then(` after `.any(|v| *v > 0)`
            # or `.filter(|(c, _)| *c > 0)` / `(c > 0).then(..)` / enclosing `if c > 0`
            cl = x.parent
            while cl is not None and cl.k != "closure":
                cl = cl.parent
            guarded = False
            if cl is not None and cl.parent is not None and cl.parent.k == "mcall":
                chain = up(cl.parent["recv"])
                if re.search(r"\.any\(\|\w+\| \*\w+ > 0\)\.then\(", chain) or re.search(r"\.filter\(\|[^|]*\| \*?\w+(\.0)? > 0\)", chain):
                    guarded = True
            t = x.parent
            while t is not None and isinstance(t, Node) and not guarded:
                if t.k == "if" and re.search(r"\bc > 0\b|\*c > 0", up(t["cond"])):
                    guarded = True
                if t.k == "mcall" and t["method"] == "then" and re.search(r"\bc > 0\b", up(t["recv"])):
                    guarded = True
                t = t.parent
            if not guarded:
                res.fail("divGuard/%s" % name, x,
                         "mean `%s` divides by a covered-base count that can be 0 (a bin created for an interval can receive no overlap when the "
                         "fractional bin edges are truncated): the bin becomes NaN for finite data and finite `missing`" % up(x))
            else:
                res.ok(x, "%s: division by the covered count is guarded (count > 0)" % name)
    res.count("mean_divisions", n)
    if n < 8:
        res.fail("divGuard/floor", PY, "only %d mean divisions found in the four bin routines (expected 8: two flush sites each)" % n)


def _sq(s):
    return re.sub(r"[\s()]", "", s)


def _flush_sites(fn):
    """the `match summary {..}` blocks that write v[bin] (flush of a finished bin)"""
    out = []
    for x in walk_no_nested_fn(fn.body):
        if x.k == "match" and up(strip(x["scrut"])) == "summary" and re.search(r"v\[bin\] = ", up(x)):
            out.append(x)
    return out


def ob_bin_siblings(ctx, res):
    """C20-S1"""
    for a, b in (("to_array_bins", "to_array_zoom"), ("to_entry_array_bins", "to_entry_array_zoom")):
        fa, fb = ctx.ast.fn(PY, a), ctx.ast.fn(PY, b)
        sa, sb = _flush_sites(fa), _flush_sites(fb)
        if len(sa) != 2 or len(sb) != 2:
            res.fail("binSiblings/%s/flush-sites" % a, fa, "expected two flush blocks (in-loop and final) per routine; found %d/%d" % (len(sa), len(sb)))
            continue
        ta, tb = [up(x) for x in sa], [up(x) for x in sb]
        if ta[0] != ta[1]:
            res.fail("binSiblings/%s/own-flushes" % a, sa[1], "the in-loop and the final flush of %s differ" % a)
        if tb[0] != tb[1]:
            res.fail("binSiblings/%s/own-flushes" % b, sb[1], "the in-loop and the final flush of %s differ" % b)
        if ta[0] != tb[0]:
            res.fail("binSiblings/%s-%s/flush" % (a, b), sb[0], "%s and %s flush a finished bin differently" % (a, b))
        # bin bookkeeping (R-SIB): the statements computing bin_size, the clamped interval, its bin range and each bin's edges,
        # the pop-finished-bins loop and the early `break` are compared between the two siblings
        def book(fn):
            out = {}
            for x in walk_no_nested_fn(fn.body):
                if x.k == "let" and x["pat"].k == "p_ident" and x["pat"]["name"] in ("bin_size", "interval_start", "interval_end", "bin_start", "bin_end") and x.get("init") is not None:
                    out.setdefault(x["pat"]["name"], []).append(up(x["init"]))
                if x.k == "while" and "front_mut()" in up(x["cond"]):
                    out.setdefault("pop-loop-head", []).append(up(x["cond"]) + " " + up(x["body"])[:60])
                if x.k == "if" and "break" in up(x["then"]) and "interval_end" in up(x["cond"]):
                    out.setdefault("stop", []).append(up(x["cond"]))
                if x.k == "mcall" and x["method"] == "fill":
                    out.setdefault("fill", []).append(up(x))
            return out
        ba, bb = book(fa), book(fb)
        for k in ("bin_size", "interval_start", "interval_end", "bin_start", "bin_end", "pop-loop-head", "stop", "fill"):
            if not ba.get(k) or not bb.get(k):
                res.fail("binSiblings/%s-%s/%s-missing" % (a, b, k), fa if not ba.get(k) else fb, "bin bookkeeping step `%s` not found" % k)
            elif ba[k] != bb[k]:
                res.fail("binSiblings/%s-%s/%s" % (a, b, k), fb, "bin bookkeeping step `%s` differs between %s and %s: %s vs %s" % (k, a, b, ba[k], bb[k]))
        if not [v for v in res.violations if a in v["role"]]:
            res.ok(fa, "%s / %s: same bin bookkeeping (size, clamp, range, pop, edges, stop) and identical flush blocks (in-loop = final)" % (a, b))


def ob_drivers(ctx, res):
    """C20-F2 + driver siblings"""
    texts = {}
    for name, read in (("intervals_to_array", "bigwig_start_end_length"), ("entries_to_array", "bigbed_start_end_length")):
        fn = ctx.ast.fn(PY, name)
        t = up(fn.body)
        if "let (intervals_start,intervals_end) = (start.max(0) as u32,end.min(length) as u32);" not in t:
            res.fail("drivers/%s/clamp" % name, fn, "the library must be queried with (max(start, 0), min(end, length))")
            continue
        qs = [c for c in walk_no_nested_fn(fn.body) if c.k == "mcall" and c["method"] in ("get_interval", "get_zoom_interval")]
        bad = [c for c in qs if [up(strip(a)) for a in c["args"][1:3]] != ["intervals_start", "intervals_end"]]
        if len(qs) != 3 or bad:
            res.fail("drivers/%s/query" % name, fn, "all three queries (zoom, binned, per-base) must use the clamped range")
            continue
        # oob fill after the data fill
        oob = [x for x in walk_no_nested_fn(fn.body) if x.k == "assign" and up(strip(x["r"])) == "oob"]
        if len(oob) != 2:
            res.fail("drivers/%s/oob-sites" % name, fn, "expected two out-of-bounds fills (below 0, beyond the chromosome end)")
            continue
        data_calls = [c for c in walk_no_nested_fn(fn.body) if c.k == "call" and up(c["func"]) in ROUTINES]
        if len(data_calls) != 3 or any(c.order > oob[0].order for c in data_calls):
            res.fail("drivers/%s/oob-order" % name, fn, "out-of-bounds fill must be written after the data fill")
            continue
        lo = oob[0].parent
        while lo is not None and lo.k != "if":
            lo = lo.parent
        hi = oob[1].parent
        while hi is not None and hi.k != "if":
            hi = hi.parent
        tl, th = _sq(up(lo)), _sq(up(hi))
        if up(strip(lo["cond"])) != "start < 0" or _sq("let bin_start = 0;") not in tl or _sq("let interval_end = 0 - start;") not in tl or \
                _sq("let bin_end = (interval_end as f64 / bin_size).ceil() as usize;") not in tl:
            res.fail("drivers/%s/oob-low" % name, lo, "bins [0, ceil(-start / bin_size)) must be out-of-bounds when start < 0")
            continue
        if up(strip(hi["cond"])) != "end > length" or _sq("let interval_start = length as i32 - start;") not in th or \
                _sq("let bin_start = (interval_start as f64 / bin_size) as usize;") not in th or _sq("let bin_end = (interval_end as f64 / bin_size).ceil() as usize;") not in th:
            res.fail("drivers/%s/oob-high" % name, hi, "bins [floor((length - start) / bin_size), bins) must be out-of-bounds when end > length")
            continue
        # bin_size: (end - start)/bins for binned, 1.0 per base
        if _sq("(end - start) as f64 / bins as f64") not in _sq(t) or not re.search(r"\.convert_err\(\)\?; 1\.0\}", t):
            res.fail("drivers/%s/bin-size" % name, fn, "oob bin width must be (end-start)/bins for binned output and 1.0 per base")
            continue
        res.ok(fn, "%s: query clamped to [max(start,0), min(end,length)); oob bins [0, ceil(-start/w)) and [floor((length-start)/w), n) written after the data" % name)
        texts[name] = re.sub(r"\b(bigwig|bigbed)_start_end_length\b", "START_END", re.sub(r"\bto_entry_array", "to_array", t))
    if len(texts) == 2:
        a, b = texts["intervals_to_array"], texts["entries_to_array"]
        if a != b:
            i = 0
            while i < min(len(a), len(b)) and a[i] == b[i]:
                i += 1
            res.fail("drivers/siblings", PY, "intervals_to_array and entries_to_array differ beyond the routine names near `%s` vs `%s`" % (a[max(0, i - 40):i + 40], b[max(0, i - 40):i + 40]))
        else:
            res.ok(PY, "intervals_to_array and entries_to_array are identical modulo the bigWig/bigBed routine names")


def ob_per_base(ctx, res):
    """C20-A1"""
    for name, add in (("to_array", "interval.value as f64"), ("to_entry_array", "1.0")):
        fn = ctx.ast.fn(PY, name)
        t = up(fn.body)
        if "v.fill(f64::NAN);" not in t:
            res.fail("perBase/%s/seed" % name, fn, "the per-base array must be NaN-seeded (so that data and `missing` cannot be confused)")
            continue
        if "let interval_start = (interval.start as i32 - start) as usize; let interval_end = (interval.end as i32 - start) as usize;" not in t.replace("((interval.start as i32) - start)", "(interval.start as i32 - start)").replace("((interval.end as i32) - start)", "(interval.end as i32 - start)"):
            res.fail("perBase/%s/index" % name, fn, "bases interval.start-start .. interval.end-start must be filled")
            continue
        want = "*v.index_mut(i) = if val.is_nan() {%s} else {val + %s};" % (add, add)
        if want not in t:
            res.fail("perBase/%s/update" % name, fn, "per-base update must be `%s`" % want)
            continue
        if "for val in v.iter_mut() {*val = if val.is_nan() {missing} else {*val};}" not in t:
            res.fail("perBase/%s/missing" % name, fn, "NaN (no data) must be replaced by `missing` at the end")
            continue
        res.ok(fn, "%s: NaN-seeded; covered base <- %s (summed on overlap); uncovered -> missing" % (name, "value" if name == "to_array" else "+1 per entry"))
