"""C18: FileView clamping (R-BOUND), chunker contiguity, view construction, index grouping check."""
from __future__ import annotations
import re
from ..astq import Node, up, strip, strip_cast, walk_no_nested_fn, calls, binding_before, dominates
from ..rules.layout import origin
from ..rules.pred import weak_orders, order_str

FV = "bigtools/src/utils/file/file_view.rs"
FU = "bigtools/src/utils/file.rs"
IX = "bigtools/src/bed/indexer.rs"
BD = "bigtools/src/bbi/beddata.rs"


class Refuse(Exception):
    pass


def _resolve(fn, n, depth=0):
    """expression -> tree over leaves: ('min'|'max', a, b) | ('leaf', key) | ('add', base_tree, addend_tree, text)"""
    if depth > 10:
        raise Refuse("too deep")
    n = strip_cast(n)
    if n.k == "lit" and n["t"] == "int":
        return ("lit", int(n["v"]))
    if n.k == "field" and up(n) in ("self.start", "self.end"):
        return ("leaf", up(n))
    if n.k == "mcall" and n["method"] in ("min", "max") and len(n["args"]) == 1:
        return (n["method"], _resolve(fn, n["recv"], depth + 1), _resolve(fn, n["args"][0], depth + 1))
    if n.k == "call" and up(n["func"]).split("::")[-1] in ("min", "max") and len(n["args"]) == 2:
        return (up(n["func"]).split("::")[-1], _resolve(fn, n["args"][0], depth + 1), _resolve(fn, n["args"][1], depth + 1))
    if n.k == "binary" and n["op"] == "+":
        return ("add", _resolve(fn, n["l"], depth + 1), _resolve(fn, n["r"], depth + 1), up(n))
    if n.k == "path" and "::" not in n["path"]:
        b = binding_before(fn, n["path"], n)
        if b is None:
            raise Refuse("unbound " + n["path"])
        if b[0] == "let" and b[-1] == () and b[1].get("init") is not None:
            init = strip(b[1]["init"])
            if init.k == "match":
                # `let current = match self.current { Some(c) => c, None => {.. seek ..} }`: an unconstrained position
                return ("free", n["path"])
            return _resolve(fn, init, depth + 1)
        if b[0] == "arm":
            # payload of SeekFrom::Start(x) (u64) / End(x) / Current(x) (i64)
            pat = up(b[1]["pat"])
            if "Start(" in pat:
                return ("unsigned", n["path"])
            return ("free", n["path"])
        return ("free", n["path"])
    raise Refuse("expression `%s` outside the min/max/+ fragment" % up(n))


def _leaves(t, out):
    k = t[0]
    if k in ("min", "max"):
        _leaves(t[1], out)
        _leaves(t[2], out)
    elif k == "add":
        out.setdefault(("add", t[3]), t)
    elif k == "leaf":
        out.setdefault(("leaf", t[1]), t)
    elif k == "lit":
        out.setdefault(("lit", t[1]), t)
    else:
        out.setdefault((k, t[1]), t)


def _sign(t):
    """'nonneg' | 'nonpos' | None for an addend tree"""
    if t[0] == "unsigned":
        return "nonneg"
    if t[0] == "lit":
        return "nonneg" if t[1] >= 0 else "nonpos"
    if t[0] == "min" and (t[1] == ("lit", 0) or t[2] == ("lit", 0)):
        return "nonpos"
    if t[0] == "max" and (t[1] == ("lit", 0) or t[2] == ("lit", 0)):
        return "nonneg"
    return None


def _eval(t, env):
    k = t[0]
    if k == "min":
        return min(_eval(t[1], env), _eval(t[2], env))
    if k == "max":
        return max(_eval(t[1], env), _eval(t[2], env))
    if k == "add":
        return env[("add", t[3])]
    if k == "leaf":
        return env[("leaf", t[1])]
    if k == "lit":
        return env[("lit", t[1])]
    return env[(k, t[1])]


def clamp_check(tree):
    """-> (rows, counterexample text or None)"""
    leaves = {}
    _leaves(tree, leaves)
    leaves.setdefault(("leaf", "self.start"), ("leaf", "self.start"))
    leaves.setdefault(("leaf", "self.end"), ("leaf", "self.end"))
    keys = list(leaves)
    S, E = ("leaf", "self.start"), ("leaf", "self.end")
    rows = 0
    for ranks in weak_orders(len(keys)):
        env = dict(zip(keys, ranks))
        if not env[S] <= env[E]:
            continue
        ok = True
        for k in keys:
            if k[0] == "lit":
                # literal 0 <= start (u64); other literals unsupported
                if k[1] != 0:
                    raise Refuse("literal %s" % k[1])
                if not env[k] <= env[S]:
                    ok = False
            if k[0] == "add":
                t = leaves[k]
                base, add = t[1], t[2]
                sg = _sign(add)
                bv = _eval(base, env) if base[0] in ("leaf", "lit", "min", "max") else None
                if bv is None:
                    sg2 = _sign(base)
                    # symmetric: base may be the signed part
                    bv = _eval(add, env) if add[0] in ("leaf", "lit", "min", "max") else None
                    sg = sg2
                if bv is not None and sg == "nonneg" and not env[k] >= bv:
                    ok = False
                if bv is not None and sg == "nonpos" and not env[k] <= bv:
                    ok = False
        if not ok:
            continue
        rows += 1
        v = _eval(tree, env)
        if not (env[S] <= v <= env[E]):
            names = {k: (k[1] if k[0] != "lit" else str(k[1])) for k in keys}
            return rows, "when %s the file is positioned at `%s`, outside [self.start, self.end]" % (
                order_str({names[k]: env[k] for k in keys}), [names[k] for k in keys if env[k] == v][0])
    return rows, None


def ob_fileview_seek(ctx, res):
    """C18-B1..3 + C18-S1"""
    fn = ctx.ast.fn(FV, "seek", impl="as Seek")
    ms = [n for n in walk_no_nested_fn(fn.body) if n.k == "match" and up(strip(n["scrut"])) == "pos"]
    if len(ms) != 1 or len(ms[0]["arms"]) != 3:
        res.fail("fvSeek/arms", fn, "expected the three SeekFrom arms")
        return
    epilogues = []
    for arm in ms[0]["arms"]:
        kind = re.sub(r"\(.*", "", up(arm["pat"])).split("::")[-1]
        sk = [c for c in calls(arm["body"], method="seek") if up(strip(c["recv"])) == "self.file"]
        if len(sk) != 1:
            res.fail("fvSeek/%s/site" % kind, arm, "expected one seek of the underlying file")
            continue
        a = strip(sk[0]["args"][0])
        if a.k == "path":
            b = binding_before(fn, a["path"], sk[0])
            a = strip(b[1]["init"]) if b is not None and b[0] == "let" else a
        if not (a.k == "call" and up(a["func"]).endswith("SeekFrom::Start") and len(a["args"]) == 1):
            res.fail("fvSeek/%s/absolute" % kind, sk[0], "the underlying file must be positioned absolutely (SeekFrom::Start(x)); got `%s`" % up(a))
            continue
        try:
            tree = _resolve(fn, a["args"][0])
            rows, cex = clamp_check(tree)
        except Refuse as e:
            res.fail("fvSeek/%s/idiom" % kind, sk[0], "clamp expression not analysable: %s" % e)
            continue
        if cex:
            res.fail("fvSeek/%s/clamp" % kind, sk[0],
                     "SeekFrom::%s: the position handed to the file is not clamped to the view: %s (a view with start > 0 then fails its own "
                     "`new_pos >= self.start` assertion instead of behaving like the isolated range)" % (kind, cex))
        else:
            res.ok(sk[0], "SeekFrom::%s: `%s` is within [self.start, self.end] for all %d order types" % (kind, up(a["args"][0])[:60], rows))
        m2 = sk[0].parent
        while m2 is not None and m2.k != "match":
            m2 = m2.parent
        epilogues.append((kind, up(m2) if m2 is not None else ""))
    if len(epilogues) == 3:
        norm = [re.sub(r"^match self\.file\.seek\([^{]*\) \{", "match SEEK {", e) for _, e in epilogues]
        if len(set(norm)) != 1:
            res.fail("fvSeek/epilogue", fn, "the three arms handle the seek result differently")
        else:
            e = norm[0]
            if "self.current = Some(new_pos)" not in e or "new_pos - self.start" not in e or "self.current = None" not in e:
                res.fail("fvSeek/epilogue-form", fn, "on success current must be updated and the position returned relative to start; on error current is unknown")
            else:
                res.ok(fn, "all arms: Ok -> current = Some(pos), return pos - start; Err -> current = None")


def ob_fileview_read(ctx, res):
    """C18-B4"""
    fn = ctx.ast.fn(FV, "read", impl="as Read")
    t = up(fn.body)
    m = re.search(r"let (\w+) = (\w+)\.len\(\)\.min\(\(self\.end - (\w+)\) as usize\); let \2 = &mut \2\[\.\.\1\];", t)
    if not m:
        res.fail("fvRead/truncate", fn, "the caller's buffer must be truncated to end - current before reading")
        return
    cur = m.group(3)
    rd = [c for c in calls(fn.body, method="read") if up(strip(c["recv"])) == "self.file"]
    if len(rd) != 1 or up(strip(rd[0]["args"][0])) != m.group(2):
        res.fail("fvRead/read", fn, "exactly the truncated buffer must be read from the file")
        return
    if not re.search(r"Ok\((\w+)\) => \{self\.current = Some\(%s \+ \1 as u64\); Ok\(\1\);?\}" % cur, t) or "self.current = None" not in t:
        res.fail("fvRead/advance", fn, "current must advance by the count actually read; on error it becomes unknown")
        return
    res.ok(fn, "read: buffer truncated to end - current; current += bytes read; Err -> current unknown")
    new = ctx.ast.fn(FV, "new", impl="FileView")
    tn = up(new.body)
    if "let end = end.min(file_end);" not in tn or "file.seek(io::SeekFrom::Start(start))?" not in tn or "current: Some(start)" not in tn:
        res.fail("fvRead/new", new, "new() must clamp end to the file length, position the file at start and record current = start")
        return
    res.ok(new, "new: end clamped to the file length; file positioned at start; current = start")


def ob_chunker(ctx, res):
    """C18-F1"""
    fn = ctx.ast.fn(FU, "split_file_into_chunks_by_size")
    t = up(fn.body)
    loops = [n for n in walk_no_nested_fn(fn.body) if n.k == "loop"]
    if len(loops) != 1:
        res.fail("chunker/loop", fn, "expected one loop")
        return
    lb = up(loops[0]["body"])
    seq = [r"file_reader\.seek\(io::SeekFrom::Start\(chunk_end\)\)\?;", r"file_reader\.read_line\(&mut String::new\(\)\)\?;",
           r"let line_end = file_reader\.seek\(io::SeekFrom::Current\(0\)\)\?;", r"chunk_end = line_end;", r"chunk_vec\.push\(\(chunk_start,chunk_end\)\);"]
    pos = 0
    for rx in seq:
        m = re.search(rx, lb[pos:])
        if not m:
            res.fail("chunker/sequence", loops[0], "each chunk must end right after the line that contains the candidate end: missing step `%s` in order" % rx)
            return
        pos += m.end()
    if not re.search(r"\(chunk_start,chunk_end\) = \(chunk_end,chunk_end\.max\(chunk_start \+ chunk_size \+ chunk_size\)\);", lb[pos:]):
        res.fail("chunker/next", loops[0], "the next chunk must start exactly where the previous one ended")
        return
    if "chunk_end = chunk_end.min(file_size);" not in lb or not re.search(r"if chunk_start >= file_size \{break;?\}", lb):
        res.fail("chunker/exit", loops[0], "candidate end must be clamped to the file size and the only exit is chunk_start >= file_size")
        return
    b0 = binding_before(fn, "chunk_start", loops[0])
    if b0 is None or up(strip(b0[1]["init"])) != "0":
        res.fail("chunker/first", fn, "the first chunk must start at offset 0")
        return
    brk = [n for n in walk_no_nested_fn(loops[0]["body"]) if n.k in ("break", "return")]
    if len(brk) != 1:
        res.fail("chunker/exits", loops[0], "exactly one exit expected")
        return
    res.ok(loops[0], "chunks: first starts at 0; each ends at the position right after a full line read from the candidate end; next starts there; exit only at chunk_start >= file_size")


def ob_views(ctx, res):
    """C18-F2 (parallel source side)"""
    fn = ctx.ast.fn(BD, "process_to_bbi", impl="BedParserParallelStreamingIterator")
    fv = [c for c in walk_no_nested_fn(fn.body) if c.k == "call" and up(c["func"]) == "FileView::new"]
    if len(fv) != 1:
        res.fail("views/site", fn, "expected one FileView::new per chromosome")
        return
    a = [up(strip(x)) for x in fv[0]["args"]]
    m = re.fullmatch(r"(\w+)\.map\(\|(\w+)\| \2\.0\)\.unwrap_or\(u64::MAX\)", a[2])
    if not (re.fullmatch(r"(\w+)\.0", a[1]) and m):
        res.fail("views/bounds", fv[0], "a chromosome's view must be [its index offset, the next entry's offset or end of file); got (%s, %s)" % (a[1], a[2]))
        return
    cur, nxt = a[1][:-2], m.group(1)
    pat = [n for n in walk_no_nested_fn(fn.body) if n.k == "let" and n["pat"].k == "p_tuple" and [up(e) for e in n["pat"]["elems"]] == [cur, nxt]]
    if len(pat) != 1 or ".chrom_indices.pop()" not in up(pat[0]["init"]) or ".chrom_indices.last()" not in up(pat[0]["init"]):
        res.fail("views/consecutive", fv[0], "(current, next) must be consecutive index entries")
        return
    sp = [c for c in walk_no_nested_fn(fn.body) if c.k == "call" and up(c["func"]) == "start_processing"]
    if not sp or up(strip(sp[0]["args"][0])).replace(".clone()", "") != cur + ".1":
        res.fail("views/name", fn, "the processor must be started for the chromosome name of the same index entry")
        return
    res.ok(fv[0], "parallel source: view [index[i].offset, index[i+1].offset | EOF) processed under index[i].name")


def ob_index_grouping(ctx, res):
    """C18-G1"""
    fn = ctx.ast.fn(IX, "index_chroms")
    t = up(fn.body)
    if not re.search(r"chroms\.dedup_by_key\(\|(\w+)\| \1\.1\.clone\(\)\);", t):
        res.fail("grouping/adjacent-dedup", fn, "adjacent index entries with the same chromosome must be collapsed")
        return
    m = re.search(r"let mut (\w+) = chroms\.clone\(\); \1\.(sort\w*)\((.*?)\); \1\.dedup_by_key\(\|(\w+)\| \4\.1\.clone\(\)\); if chroms\.len\(\) != \1\.len\(\) \{return Ok\(None\);?\}", t)
    if not m:
        res.fail("grouping/check", fn, "the grouped-ness check (sort a copy by name, dedup by name, compare lengths -> None) not found")
        return
    sort_call, key = m.group(2), m.group(3)
    by_name = (sort_call in ("sort_by", "sort_unstable_by") and re.search(r"\.1\.cmp\(&?\w+\.1\)", key)) or \
              (sort_call in ("sort_by_key", "sort_unstable_by_key", "sort_by_cached_key") and re.search(r"\.1", key))
    if not by_name:
        res.fail("grouping/sort-key", fn,
                 "the copy is sorted with `%s(%s)`, i.e. by (offset, name): offsets are unique and already ascending, so equal names never become "
                 "adjacent, the lengths always agree and an ungrouped file (chr1, chr2, chr1) is never reported as such" % (sort_call, key))
        return
    res.ok(fn, "index: adjacent duplicates collapsed; a copy sorted by NAME and deduplicated has the same length iff no chromosome re-occurs non-adjacently, else None")
