"""C18: FileView clamping (R-BOUND), chunker contiguity, view construction, index grouping check."""
from __future__ import annotations
import re
from ..astq import Node, up, strip, strip_cast, walk_no_nested_fn, calls, binding_before, dominates, toplevel_stmt, stmt_of
from ..rules.layout import origin
from ..rules.pred import weak_orders, order_str

FV = "bigtools/src/utils/file/file_view.rs"
FU = "bigtools/src/utils/file.rs"
IX = "bigtools/src/bed/indexer.rs"
BD = "bigtools/src/bbi/beddata.rs"


class Refuse(Exception):
    pass


def _resolve(fn, n, depth=0):
    """expression -> tree over leaves: ('min'|'max', a, b) | ('leaf', key) | ('add', base_tree, addend_tree, text)"""
    if depth > 10:
        raise Refuse("too deep")
    n = strip_cast(n)
    if n.k == "lit" and n["t"] == "int":
        return ("lit", int(n["v"]))
    if n.k == "field" and up(n) in ("self.start", "self.end"):
        return ("leaf", up(n))
    if n.k == "mcall" and n["method"] in ("min", "max") and len(n["args"]) == 1:
        return (n["method"], _resolve(fn, n["recv"], depth + 1), _resolve(fn, n["args"][0], depth + 1))
    if n.k == "call" and up(n["func"]).split("::")[-1] in ("min", "max") and len(n["args"]) == 2:
        return (up(n["func"]).split("::")[-1], _resolve(fn, n["args"][0], depth + 1), _resolve(fn, n["args"][1], depth + 1))
    if n.k == "binary" and n["op"] == "+":
        return ("add", _resolve(fn, n["l"], depth + 1), _resolve(fn, n["r"], depth + 1), up(n))
    if n.k == "path" and "::" not in n["path"]:
        b = binding_before(fn, n["path"], n)
        if b is None:
            raise Refuse("unbound " + n["path"])
        if b[0] == "let" and b[-1] == () and b[1].get("init") is not None:
            init = strip(b[1]["init"])
            if init.k == "match":
                # `let current = match self.current { Some(c) => c, None => {.. seek ..} }`: an unconstrained position
                return ("free", n["path"])
            return _resolve(fn, init, depth + 1)
        if b[0] == "arm":
            # payload of SeekFrom::Start(x) (u64) / End(x) / Current(x) (i64)
            pat = up(b[1]["pat"])
            if "Start(" in pat:
                return ("unsigned", n["path"])
            return ("free", n["path"])
        return ("free", n["path"])
    raise Refuse("expression `%s` outside the min/max/+ fragment" % up(n))


def _leaves(t, out):
    k = t[0]
    if k in ("min", "max"):
        _leaves(t[1], out)
        _leaves(t[2], out)
    elif k == "add":
        out.setdefault(("add", t[3]), t)
    elif k == "leaf":
        out.setdefault(("leaf", t[1]), t)
    elif k == "lit":
        out.setdefault(("lit", t[1]), t)
    else:
        out.setdefault((k, t[1]), t)


def _sign(t):
    """'nonneg' | 'nonpos' | None for an addend tree"""
    if t[0] == "unsigned":
        return "nonneg"
    if t[0] == "lit":
        return "nonneg" if t[1] >= 0 else "nonpos"
    if t[0] == "min" and (t[1] == ("lit", 0) or t[2] == ("lit", 0)):
        return "nonpos"
    if t[0] == "max" and (t[1] == ("lit", 0) or t[2] == ("lit", 0)):
        return "nonneg"
    return None


def _eval(t, env):
    k = t[0]
    if k == "min":
        return min(_eval(t[1], env), _eval(t[2], env))
    if k == "max":
        return max(_eval(t[1], env), _eval(t[2], env))
    if k == "add":
        return env[("add", t[3])]
    if k == "leaf":
        return env[("leaf", t[1])]
    if k == "lit":
        return env[("lit", t[1])]
    return env[(k, t[1])]


def clamp_check(tree):
    """-> (rows, counterexample text or None)"""
    leaves = {}
    _leaves(tree, leaves)
    leaves.setdefault(("leaf", "self.start"), ("leaf", "self.start"))
    leaves.setdefault(("leaf", "self.end"), ("leaf", "self.end"))
    keys = list(leaves)
    S, E = ("leaf", "self.start"), ("leaf", "self.end")
    rows = 0
    for ranks in weak_orders(len(keys)):
        env = dict(zip(keys, ranks))
        if not env[S] <= env[E]:
            continue
        ok = True
        for k in keys:
            if k[0] == "lit":
                # literal 0 <= start (u64); other literals unsupported
                if k[1] != 0:
                    raise Refuse("literal %s" % k[1])
                if not env[k] <= env[S]:
                    ok = False
            if k[0] == "add":
                t = leaves[k]
                base, add = t[1], t[2]
                sg = _sign(add)
                bv = _eval(base, env) if base[0] in ("leaf", "lit", "min", "max") else None
                if bv is None:
                    sg2 = _sign(base)
                    # symmetric: base may be the signed part
                    bv = _eval(add, env) if add[0] in ("leaf", "lit", "min", "max") else None
                    sg = sg2
                if bv is not None and sg == "nonneg" and not env[k] >= bv:
                    ok = False
                if bv is not None and sg == "nonpos" and not env[k] <= bv:
                    ok = False
        if not ok:
            continue
        rows += 1
        v = _eval(tree, env)
        if not (env[S] <= v <= env[E]):
            names = {k: (k[1] if k[0] != "lit" else str(k[1])) for k in keys}
            return rows, "when %s the file is positioned at `%s`, outside [self.start, self.end]" % (
                order_str({names[k]: env[k] for k in keys}), [names[k] for k in keys if env[k] == v][0])
    return rows, None


def ob_fileview_seek(ctx, res):
    """C18-B1..3 + C18-S1"""
    fn = ctx.ast.fn(FV, "seek", impl="as Seek")
    ms = [n for n in walk_no_nested_fn(fn.body) if n.k == "match" and up(strip(n["scrut"])) == "pos"]
    if len(ms) != 1 or len(ms[0]["arms"]) != 3:
        res.fail("fvSeek/arms", fn, "expected the three SeekFrom arms")
        return
    epilogues = []
    for arm in ms[0]["arms"]:
        kind = re.sub(r"\(.*", "", up(arm["pat"])).split("::")[-1]
        sk = [c for c in calls(arm["body"], method="seek") if up(strip(c["recv"])) == "self.file"]
        if len(sk) != 1:
            res.fail("fvSeek/%s/site" % kind, arm, "expected one seek of the underlying file")
            continue
        a = strip(sk[0]["args"][0])
        if a.k == "path":
            b = binding_before(fn, a["path"], sk[0])
            a = strip(b[1]["init"]) if b is not None and b[0] == "let" else a
        if not (a.k == "call" and up(a["func"]).endswith("SeekFrom::Start") and len(a["args"]) == 1):
            res.fail("fvSeek/%s/absolute" % kind, sk[0], "the underlying file must be positioned absolutely (SeekFrom::Start(x)); got `%s`" % up(a))
            continue
        try:
            tree = _resolve(fn, a["args"][0])
            rows, cex = clamp_check(tree)
        except Refuse as e:
            res.fail("fvSeek/%s/idiom" % kind, sk[0], "clamp expression not analysable: %s" % e)
            continue
        if cex:
            res.fail("fvSeek/%s/clamp" % kind, sk[0],
                     "SeekFrom::%s: the position handed to the file is not clamped to the view: %s (a view with start > 0 then fails its own "
                     "`new_pos >= self.start` assertion instead of behaving like the isolated range)" % (kind, cex))
        else:
            res.ok(sk[0], "SeekFrom::%s: `%s` is within [self.start, self.end] for all %d order types" % (kind, up(a["args"][0])[:60], rows))
        m2 = sk[0].parent
        while m2 is not None and m2.k != "match":
            m2 = m2.parent
        epilogues.append((kind, up(m2) if m2 is not None else ""))
    if len(epilogues) == 3:
        norm = [re.sub(r"^match self\.file\.seek\([^{]*\) \{", "match SEEK {", e) for _, e in epilogues]
        if len(set(norm)) != 1:
            res.fail("fvSeek/epilogue", fn, "the three arms handle the seek result differently")
        else:
            e = norm[0]
            if "self.current = Some(new_pos)" not in e or "new_pos - self.start" not in e or "self.current = None" not in e:
                res.fail("fvSeek/epilogue-form", fn, "on success current must be updated and the position returned relative to start; on error current is unknown")
            else:
                res.ok(fn, "all arms: Ok -> current = Some(pos), return pos - start; Err -> current = None")


def ob_fileview_read(ctx, res):
    """C18-B4"""
    fn = ctx.ast.fn(FV, "read", impl="as Read")
    t = up(fn.body)
    m = re.search(r"let (\w+) = (\w+)\.len\(\)\.min\(\(self\.end - (\w+)\) as usize\); let \2 = &mut \2\[\.\.\1\];", t)
    if not m:
        res.fail("fvRead/truncate", fn, "the caller's buffer must be truncated to end - current before reading")
        return
    cur = m.group(3)
    rd = [c for c in calls(fn.body, method="read") if up(strip(c["recv"])) == "self.file"]
    if len(rd) != 1 or up(strip(rd[0]["args"][0])) != m.group(2):
        res.fail("fvRead/read", fn, "exactly the truncated buffer must be read from the file")
        return
    if not re.search(r"Ok\((\w+)\) => \{self\.current = Some\(%s \+ \1 as u64\); Ok\(\1\);?\}" % cur, t) or "self.current = None" not in t:
        res.fail("fvRead/advance", fn, "current must advance by the count actually read; on error it becomes unknown")
        return
    res.ok(fn, "read: buffer truncated to end - current; current += bytes read; Err -> current unknown")
    new = ctx.ast.fn(FV, "new", impl="FileView")
    tn = up(new.body)
    if "let end = end.min(file_end);" not in tn or "file.seek(io::SeekFrom::Start(start))?" not in tn or "current: Some(start)" not in tn:
        res.fail("fvRead/new", new, "new() must clamp end to the file length, position the file at start and record current = start")
        return
    res.ok(new, "new: end clamped to the file length; file positioned at start; current = start")


def ob_chunker(ctx, res):
    """C18-F1"""
    fn = ctx.ast.fn(FU, "split_file_into_chunks_by_size")
    t = up(fn.body)
    loops = [n for n in walk_no_nested_fn(fn.body) if n.k == "loop"]
    if len(loops) != 1:
        res.fail("chunker/loop", fn, "expected one loop")
        return
    lb = up(loops[0]["body"])
    # the name of the local holding the post-line position is free; `chunk_end = <seek Current(0)>?` directly is the same thing
    m = re.search(r"file_reader\.seek\(io::SeekFrom::Start\(chunk_end\)\)\?; ?file_reader\.read_line\(&mut String::new\(\)\)\?; ?"
                  r"(?:let (\w+) = file_reader\.(?:seek\(io::SeekFrom::Current\(0\)\)|stream_position\(\))\?; ?chunk_end = \1;"
                  r"|chunk_end = file_reader\.(?:seek\(io::SeekFrom::Current\(0\)\)|stream_position\(\))\?;) ?"
                  r"chunk_vec\.push\(\(chunk_start, ?chunk_end\)\);", lb)
    if not m:
        res.fail("chunker/sequence", loops[0], "each chunk must end right after the line that contains the candidate end: seek to the candidate, read one line, take the position, push (start, position) - in that order")
        return
    pos = m.end()
    if not re.search(r"\(chunk_start,chunk_end\) = \(chunk_end,chunk_end\.max\(chunk_start \+ chunk_size \+ chunk_size\)\);", lb[pos:]):
        res.fail("chunker/next", loops[0], "the next chunk must start exactly where the previous one ended")
        return
    if "chunk_end = chunk_end.min(file_size);" not in lb or not re.search(r"if chunk_start >= file_size \{break;?\}", lb):
        res.fail("chunker/exit", loops[0], "candidate end must be clamped to the file size and the only exit is chunk_start >= file_size")
        return
    b0 = binding_before(fn, "chunk_start", loops[0])
    if b0 is None or up(strip(b0[1]["init"])) != "0":
        res.fail("chunker/first", fn, "the first chunk must start at offset 0")
        return
    brk = [n for n in walk_no_nested_fn(loops[0]["body"]) if n.k in ("break", "return")]
    if len(brk) != 1:
        res.fail("chunker/exits", loops[0], "exactly one exit expected")
        return
    res.ok(loops[0], "chunks: first starts at 0; each ends at the position right after a full line read from the candidate end; next starts there; exit only at chunk_start >= file_size")


def ob_views(ctx, res):
    """C18-F2 (parallel source side)"""
    fn = ctx.ast.fn(BD, "process_to_bbi", impl="BedParserParallelStreamingIterator")
    fv = [c for c in walk_no_nested_fn(fn.body) if c.k == "call" and up(c["func"]) == "FileView::new"]
    if len(fv) != 1:
        res.fail("views/site", fn, "expected one FileView::new per chromosome")
        return
    a = [up(strip(x)) for x in fv[0]["args"]]
    m = re.fullmatch(r"(\w+)\.map\(\|(\w+)\| \2\.0\)\.unwrap_or\(u64::MAX\)", a[2])
    if not (re.fullmatch(r"(\w+)\.0", a[1]) and m):
        res.fail("views/bounds", fv[0], "a chromosome's view must be [its index offset, the next entry's offset or end of file); got (%s, %s)" % (a[1], a[2]))
        return
    cur, nxt = a[1][:-2], m.group(1)
    pat = [n for n in walk_no_nested_fn(fn.body) if n.k == "let" and n["pat"].k == "p_tuple" and [up(e) for e in n["pat"]["elems"]] == [cur, nxt]]
    if len(pat) != 1 or ".chrom_indices.pop()" not in up(pat[0]["init"]) or ".chrom_indices.last()" not in up(pat[0]["init"]):
        res.fail("views/consecutive", fv[0], "(current, next) must be consecutive index entries")
        return
    sp = [c for c in walk_no_nested_fn(fn.body) if c.k == "call" and up(c["func"]) == "start_processing"]
    if not sp or up(strip(sp[0]["args"][0])).replace(".clone()", "") != cur + ".1":
        res.fail("views/name", fn, "the processor must be started for the chromosome name of the same index entry")
        return
    res.ok(fv[0], "parallel source: view [index[i].offset, index[i+1].offset | EOF) processed under index[i].name")


def ob_index_grouping(ctx, res):
    """C18-G1"""
    fn = ctx.ast.fn(IX, "index_chroms")
    t = up(fn.body)
    if not re.search(r"chroms\.dedup_by_key\(\|(\w+)\| \1\.1\.clone\(\)\);", t):
        res.fail("grouping/adjacent-dedup", fn, "adjacent index entries with the same chromosome must be collapsed")
        return
    m = re.search(r"let mut (\w+) = chroms\.clone\(\); \1\.(sort\w*)\((.*?)\); \1\.dedup_by_key\(\|(\w+)\| \4\.1\.clone\(\)\); if chroms\.len\(\) != \1\.len\(\) \{return Ok\(None\);?\}", t)
    if not m:
        res.fail("grouping/check", fn, "the grouped-ness check (sort a copy by name, dedup by name, compare lengths -> None) not found")
        return
    sort_call, key = m.group(2), m.group(3)
    by_name = (sort_call in ("sort_by", "sort_unstable_by") and re.search(r"\.1\.cmp\(&?\w+\.1\)", key)) or \
              (sort_call in ("sort_by_key", "sort_unstable_by_key", "sort_by_cached_key") and re.search(r"\.1", key))
    if not by_name:
        res.fail("grouping/sort-key", fn,
                 "the copy is sorted with `%s(%s)`, i.e. by (offset, name): offsets are unique and already ascending, so equal names never become "
                 "adjacent, the lengths always agree and an ungrouped file (chr1, chr2, chr1) is never reported as such" % (sort_call, key))
        return
    res.ok(fn, "index: adjacent duplicates collapsed; a copy sorted by NAME and deduplicated has the same length iff no chromosome re-occurs non-adjacently, else None")


# ---------------------------------------------------------------------------------------------------------------------
# C18-I1: the bisection in index_chroms::do_index


def _sq(t):
    return re.sub(r"[\s()]", "", t)


_PURE_M = {"get", "unwrap", "map", "unwrap_or", "map_or", "min", "max", "len", "clone", "as_ref"}


def _pure(e):
    for x in [strip(e)] + list(walk_no_nested_fn(e)):
        if isinstance(x, Node) and (x.k in ("try", "match", "return", "macro", "call", "await", "assign") or (x.k == "mcall" and x["method"] not in _PURE_M)):
            return False
    return True


def _inl(fn, n, depth=0):
    """canonical text of n with single-assignment `let` locals replaced by their initialisers (recursively)"""
    t = up(strip(n))
    if depth > 6:
        return t
    seen = {}
    for x in [strip(n)] + list(walk_no_nested_fn(n)):
        if isinstance(x, Node) and x.k == "path" and "::" not in x["path"] and x["path"] not in seen:
            b = binding_before(fn, x["path"], x)
            if b is not None and b[0] == "let" and b[-1] == () and b[1].get("init") is not None and b[1]["pat"].k == "p_ident" and not b[1]["pat"].get("mut") and _pure(b[1]["init"]):
                seen[x["path"]] = "(" + _inl(fn, b[1]["init"], depth + 1) + ")"
    if strip(n).k == "path" and strip(n)["path"] in seen:
        return seen[strip(n)["path"]]
    for name, rep in seen.items():
        t = re.sub(r"(?<![\w.])%s\b(?!\s*\()" % re.escape(name), lambda m: rep, t)
    return t


def _eval_int(text, env):
    """evaluate a +,-,*,/ expression over non-negative integers (Rust semantics: floor division, underflow = refuse)"""
    t = re.sub(r"\bas\s+u\d+\b", "", text)
    if not re.fullmatch(r"[\w\s()+\-*/]+", t):
        raise Refuse("not arithmetic: " + text)
    t = t.replace("/", "//")
    v = eval(t, {"__builtins__": {}}, dict(env))   # names are restricted to env by the regex above + empty builtins
    if v < 0:
        raise Refuse("underflow")
    return v


def _inside(block, n):
    x = n
    while x is not None and isinstance(x, Node):
        if x is block:
            return True
        x = x.parent
    return False


def _match_of(arm):
    x = arm.parent
    while x is not None and isinstance(x, Node) and x.k != "match":
        x = x.parent
    return x if isinstance(x, Node) else None


def ob_bisection(ctx, res):
    """C18-I1: every probe outcome of do_index either records the probed line and recurses on both sides or narrows the interval"""
    fn = ctx.ast.fn(IX, "do_index")
    stmts = fn.body["stmts"]
    recs = [c for c in walk_no_nested_fn(fn.body) if c.k == "call" and up(c["func"]) == "do_index"]
    # --- the probe sequence -----------------------------------------------------------------------------------------
    top = lambda c: stmt_of(c) is not None and stmt_of(c).parent is fn.body   # the probe itself is unconditional
    seeks = [c for c in calls(fn.body, method="seek") if "SeekFrom::Start" in up(c["args"][0]) and top(c)]
    reads = [c for c in calls(fn.body, method="read_line") if top(c)]
    tells = [n for n in stmts if n.k == "let" and n.get("init") is not None and re.fullmatch(r"\w+\.(tell\(\)|stream_position\(\)|seek\((io::)?SeekFrom::Current\(0\)\))\?", up(strip(n["init"])) or "")]
    parses = [c for c in walk_no_nested_fn(fn.body) if c.k == "call" and up(c["func"]) == "parse_line" and top(c)]
    ins = [c for c in walk_no_nested_fn(fn.body) if c.k == "mcall" and c["method"].startswith("insert")]
    if len(seeks) != 1 or len(reads) != 2 or len(tells) != 1 or len(parses) != 1:
        res.fail("bisect/probe-shape", fn, "expected one probe per call: seek(Start(mid)), read_line (skip the partial line), take the position, read_line, parse_line; found %d seeks, %d read_line, %d positions, %d parse_line"
                 % (len(seeks), len(reads), len(tells), len(parses)))
        return
    T = up(tells[0]["pat"])
    order = [toplevel_stmt(seeks[0]), toplevel_stmt(reads[0]), tells[0], toplevel_stmt(reads[1]), toplevel_stmt(parses[0])]
    if any(o is None for o in order) or [o.order for o in order] != sorted(set(o.order for o in order)):
        res.fail("bisect/probe-order", fn, "the recorded offset must be the position taken after skipping the partial line and immediately before reading the line that is parsed")
        return
    clears = [c for c in calls(fn.body, method="clear") if order[1].order < toplevel_stmt(c).order < order[3].order]
    if len(clears) != 1:
        res.fail("bisect/probe-clear", fn, "the skipped partial line must be cleared from the buffer before the probed line is read (read_line appends)")
        return
    # --- prev offset P, upper bound U, mid ---------------------------------------------------------------------------
    mid_txt = _sq(_inl(fn, strip(seeks[0]["args"][0])["args"][0]))
    P = "chroms.getprev.unwrap.0"
    if P not in mid_txt:
        res.fail("bisect/mid", seeks[0], "the probe position must be computed from prev's offset; got `%s`" % mid_txt)
        return
    params = {nm: ty for nm, ty in fn.params if nm}
    ub_param = [n for n, ty in params.items() if ty == "u64" and n != "file_size"]
    mexpr = mid_txt.replace(P, "P")
    old_upper = "next.map|next|chroms.getnext.unwrap.0.unwrap_orfile_size"
    if old_upper in mexpr:
        U_is_param, U = False, None
        mexpr = mexpr.replace(old_upper, "U")
    elif len(ub_param) == 1 and re.search(r"\b%s\b" % ub_param[0], mexpr):
        U_is_param, U = True, ub_param[0]
        mexpr = re.sub(r"\b%s\b" % U, "U", mexpr)
    else:
        res.fail("bisect/mid", seeks[0], "the probe position must be computed from prev's offset and the interval's upper bound; got `%s`" % mid_txt)
        return
    mid_src = _inl(fn, strip(seeks[0]["args"][0])["args"][0])
    mid_py = re.sub(r"chroms\.get\(prev\)\.unwrap\(\)\.0", "P", mid_src)
    mid_py = mid_py.replace("next.map(|next| chroms.get(next).unwrap().0).unwrap_or(file_size)", "U")
    if U:
        mid_py = re.sub(r"\b%s\b" % U, "U", mid_py)
    # --- overshoot handling (the D18 defect) ----------------------------------------------------------------------------
    ins_top = [toplevel_stmt(c) for c in ins]
    first_ins = min((s.order for s in ins_top if s is not None), default=None)
    if first_ins is None:
        res.fail("bisect/insert", fn, "the probed line is never recorded")
        return
    guards = []
    for s in stmts:
        if s.k == "expr_stmt" and strip(s["e"]).k == "if" and tells[0].order < s.order < first_ins:
            i = strip(s["e"])
            c = _sq(up(i["cond"]))
            if U and c in ("%s>=%s" % (T, U), "%s<=%s" % (U, T), "!%s<%s" % (T, U)) and i.get("else") is None:
                guards.append(i)
    if not U_is_param or len(guards) != 1:
        res.fail("bisect/overshoot", fn,
                 "a probe that lands at or beyond the upper bound of the interval (mid lies inside the last line before it: a long line, or the last line of the file) "
                 "ends the search without ever looking at the lines between prev and mid, so whole chromosomes are missing from the index "
                 "(e.g. `chr1..\\nchr2..\\n` indexes as [(0,chr1)]); the overshoot outcome must narrow the interval to (prev, mid] and continue")
        return
    g = guards[0]
    if not toplevel_stmt(g).order < order[3].order:
        res.fail("bisect/overshoot-late", g, "the overshoot test must come before the probed line is read and parsed (at end of file the parse yields None and returns)")
        return
    gcalls = [c for c in recs if _inside(g["then"], c)]
    rets = [n for n in walk_no_nested_fn(g["then"]) if n.k == "return"]
    if len(gcalls) != 1 or len(rets) != 1 or strip(rets[0]["e"]) is not gcalls[0] and up(strip(rets[0]["e"])) != up(gcalls[0]):
        res.fail("bisect/overshoot-continue", g, "the overshoot branch must return the result of searching the narrowed interval")
        return
    names = [nm for nm, _ in fn.params]
    a = {names[i]: gcalls[0]["args"][i] for i in range(len(names))}
    if up(strip(a["prev"])) != "prev" or up(strip(a["next"])) != "next":
        res.fail("bisect/overshoot-args", gcalls[0], "the narrowed search keeps the same prev and next")
        return
    new_u = re.sub(r"chroms\.get\(prev\)\.unwrap\(\)\.0", "P", _inl(fn, a[U]))
    new_u = re.sub(r"\b%s\b" % U, "U", new_u)
    # --- base case --------------------------------------------------------------------------------------------------------
    base = None
    for s in stmts:
        if s.k == "expr_stmt" and strip(s["e"]).k == "if" and s.order < toplevel_stmt(seeks[0]).order:
            i = strip(s["e"])
            ct = _inl(fn, i["cond"])
            ct = re.sub(r"chroms\.get\(prev\)\.unwrap\(\)\.0", "P", ct)
            ct = re.sub(r"\b%s\b" % U, "U", ct)
            if re.fullmatch(r"[PU\d\s()+\-<>=]+", ct) and re.fullmatch(r"\{return Ok\(\(\)\);?\}", up(i["then"])):
                base = ct
    if base is None:
        res.fail("bisect/base", fn, "no base case comparing the upper bound with prev's offset: the narrowing recursion would not terminate")
        return
    # arithmetic over all small (P, U): whenever the base case does not return, P <= mid < U, the narrowed bound is < U and > P is not required (base case catches it)
    n_cases = 0
    try:
        for Pv in range(0, 5):
            for Uv in range(0, Pv + 12):
                env = {"P": Pv, "U": Uv}
                try:
                    stop = bool(eval(base, {"__builtins__": {}}, env))
                except Exception:
                    raise Refuse("base case not evaluable: " + base)
                if Uv <= Pv + 1 and not stop:
                    res.fail("bisect/base-weak", fn, "base case `%s` lets the empty interval P=%d,U=%d through" % (base, Pv, Uv))
                    return
                if stop:
                    if Uv > Pv + 1:
                        res.fail("bisect/base-strong", fn, "base case `%s` stops at P=%d,U=%d although a line can start strictly between them" % (base, Pv, Uv))
                        return
                    continue
                m = _eval_int(mid_py, env)
                nu = _eval_int(new_u.replace(_sq(mid_py), "M") if False else new_u, dict(env))
                n_cases += 1
                if not (Pv <= m < Uv):
                    res.fail("bisect/mid-range", seeks[0], "probe position `%s` leaves [prev, upper) at P=%d,U=%d (mid=%d)" % (mid_py, Pv, Uv, m))
                    return
                # the probe returns the first line start > mid; if that is >= U, no line starts in (mid, U): the remaining candidates are (P, mid] = (P, mid+1)
                if nu != m + 1:
                    res.fail("bisect/narrow", gcalls[0], "after an overshoot the candidates left are exactly the line starts in (prev, mid]; the new exclusive bound must be mid+1, got `%s` (=%d, mid=%d at P=%d,U=%d)" % (new_u, nu, m, Pv, Uv))
                    return
                if not nu < Uv:
                    res.fail("bisect/narrow-progress", gcalls[0], "the narrowed bound does not shrink at P=%d,U=%d: unbounded recursion" % (Pv, Uv))
                    return
    except Refuse as e:
        res.fail("bisect/arith", fn, "unrecognised arithmetic in the bisection: %s" % e)
        return
    # --- recording: exactly one unconditional insertion of (position, parsed name) after prev -----------------------------
    if len(ins) != 1 or ins[0]["method"] != "insert_after" or toplevel_stmt(ins[0]).k != "let" and toplevel_stmt(ins[0]).k != "expr_stmt":
        res.fail("bisect/insert", fn, "exactly one insertion per probe expected, found %d" % len(ins))
        return
    it = toplevel_stmt(ins[0])
    holder = strip(it["init"]) if it.k == "let" else strip(it["e"])
    if holder is not ins[0] and up(holder) != up(ins[0]):
        res.fail("bisect/insert-conditional", ins[0], "every in-range probed line must be recorded unconditionally")
        return
    ia = ins[0]["args"]
    tup = strip(ia[1])
    if up(strip(ia[0])) != "prev" or tup.k != "tuple" or up(strip(tup["elems"][0])) != T or "parse_line" not in origin(fn, tup["elems"][1]):
        res.fail("bisect/insert-pair", ins[0], "the entry recorded after prev must pair the probed position with the name parsed from the line read at it; got `%s`" % up(ins[0]))
        return
    # no other exit: the only returns are the base case, the narrowed search, and the (unreachable once in range) empty-line arm of the parse
    allowed = 0
    for r_ in [n for n in walk_no_nested_fn(fn.body) if n.k == "return"]:
        par = r_.parent
        while par is not None and isinstance(par, Node) and par.k not in ("arm", "if"):
            par = par.parent
        if _inside(g["then"], r_):
            allowed += 1
        elif par is not None and par.k == "if" and toplevel_stmt(par).order < toplevel_stmt(seeks[0]).order and re.fullmatch(r"\{return Ok\(\(\)\);?\}", up(par["then"])):
            allowed += 1     # base case (and the depth-limit panic guard has no return)
        elif par is not None and par.k == "arm" and up(par["pat"]) == "None" and _match_of(par) is not None and "parse_line" in origin(fn, _match_of(par)["scrut"]) \
                and toplevel_stmt(g).order < toplevel_stmt(par).order:
            allowed += 1
        else:
            res.fail("bisect/early-return", r_, "an exit that neither records the probed line nor narrows the interval: `%s`" % up(toplevel_stmt(r_))[:100])
            return
    C = up(it["pat"]) if it.k == "let" else None
    if C is None:
        res.fail("bisect/insert-handle", ins[0], "the inserted entry's handle is needed for the recursion")
        return
    # the None arm of the parse (line empty) can only be EOF; it must come after the overshoot guard
    # --- recursion ----------------------------------------------------------------------------------------------------------
    rest = [c for c in recs if c is not gcalls[0]]
    if len(rest) != 2:
        res.fail("bisect/recursion", fn, "expected a left and a right recursive search, found %d" % len(rest))
        return
    name_ne = lambda x, y: {"chroms.get%s.unwrap.1!=chroms.get%s.unwrap.1" % (x, y), "chroms.get%s.unwrap.1!=chroms.get%s.unwrap.1" % (y, x)}
    ok_extra = {"%s<%s" % (T, U)}
    sides = {}
    for c in rest:
        i = c
        while i is not None and not (isinstance(i, Node) and i.k == "if"):
            i = i.parent
        if i is None or toplevel_stmt(i).order <= it.order:
            res.fail("bisect/recursion-place", c, "recursive searches must follow the recording of the probed line")
            return
        st = stmt_of(c)
        if st is None or not up(st).rstrip(";").endswith("?"):
            res.fail("bisect/recursion-err", c, "an error from a recursive search must be propagated")
            return
        ar = {names[k]: up(strip(c["args"][k])) for k in range(len(names))}
        cond = _sq(_inl(fn, i["cond"]))
        if ar["prev"] == "prev" and ar["next"] == "Some(%s)" % C:
            conj = set(cond.split("&&"))
            if not (conj & name_ne(C, "prev")) or (conj - name_ne(C, "prev") - ok_extra):
                res.fail("bisect/left-cond", i, "the left search may be skipped only when the probed line has prev's chromosome; condition is `%s`" % up(i["cond"]))
                return
            if ar[U] != T:
                res.fail("bisect/left-bound", c, "the left search covers line starts before the probed position; bound passed is `%s`" % ar[U])
                return
            sides["left"] = c
        elif ar["prev"] == C and ar["next"] == "next":
            want = {"next.map|next|chroms.get%s.unwrap.1!=chroms.getnext.unwrap.1.unwrap_ortrue" % C, "next.map|next|chroms.getnext.unwrap.1!=chroms.get%s.unwrap.1.unwrap_ortrue" % C,
                    "next.map_ortrue,|next|chroms.get%s.unwrap.1!=chroms.getnext.unwrap.1" % C}
            if cond not in want:
                res.fail("bisect/right-cond", i, "the right search may be skipped only when the probed line has next's chromosome (never when there is no next); condition is `%s`" % up(i["cond"]))
                return
            if ar[U] != U:
                res.fail("bisect/right-bound", c, "the right search keeps the interval's upper bound; bound passed is `%s`" % ar[U])
                return
            sides["right"] = c
        else:
            res.fail("bisect/recursion-args", c, "unrecognised recursive search (prev=%s, next=%s)" % (ar["prev"], ar["next"]))
            return
    if set(sides) != {"left", "right"}:
        res.fail("bisect/recursion", fn, "both a left (prev, probed) and a right (probed, next) search are required")
        return
    # --- the top call covers the whole file -----------------------------------------------------------------------------------
    outer = ctx.ast.fn(IX, "index_chroms")
    top = [c for c in walk_no_nested_fn(outer.body) if c.k == "call" and up(c["func"]) == "do_index"]
    if len(top) != 1:
        res.fail("bisect/top", outer, "expected one top-level search")
        return
    ta = {names[k]: top[0]["args"][k] for k in range(len(names))}
    fo, po = origin(outer, ta[U]), origin(outer, ta["prev"])
    if up(strip(ta["next"])) != "None" or "End" not in fo or "seek" not in fo or "insert_first" not in po:
        res.fail("bisect/top-args", top[0], "the top-level search must run from the first line (offset 0) to the end of the file")
        return
    firsts = [c for c in walk_no_nested_fn(outer.body) if c.k == "mcall" and c["method"] == "insert_first"]
    ft = strip(firsts[0]["args"][0]) if len(firsts) == 1 else None
    if ft is None or ft.k != "tuple" or up(strip(ft["elems"][0])) != "0" or "parse_line" not in origin(outer, ft["elems"][1]):
        res.fail("bisect/first", outer, "the first index entry must be (0, name parsed from the first line)")
        return
    res.count("bisection_cases", n_cases)
    res.ok(fn, "do_index: probe = first line start after mid, P <= mid < U for all %d small (P,U); overshoot (>= U) narrows to (prev, mid+1) and continues; base case exact; "
               "in-range probe recorded unconditionally as (position, parsed name) after prev; left search skipped only on name(probed)=name(prev), right only on name(probed)=name(next); "
               "errors propagated; top call covers (0, file size)" % n_cases)
