"""C18: FileView clamping (R-BOUND), chunker contiguity, view construction, index grouping check."""
from __future__ import annotations
import re
from ..astq import Node, up, strip, strip_cast, walk_no_nested_fn, calls, binding_before, dominates, toplevel_stmt, stmt_of
from ..rules.layout import origin
from ..rules.pred import weak_orders, order_str

FV = "bigtools/src/utils/file/file_view.rs"
FU = "bigtools/src/utils/file.rs"
IX = "bigtools/src/bed/indexer.rs"
BD = "bigtools/src/bbi/beddata.rs"


class Refuse(Exception):
    pass


def _resolve(fn, n, depth=0):
    """expression -> tree over leaves: ('min'|'max', a, b) | ('leaf', key) | ('add', base_tree, addend_tree, text)"""
    if depth > 10:
        raise Refuse("too deep")
    n = strip_cast(n)
    if n.k == "lit" and n["t"] == "int":
        return ("lit", int(n["v"]))
    if n.k == "field" and up(n) in ("self.start", "self.end"):
        return ("leaf", up(n))
    if n.k == "mcall" and n["method"] in ("min", "max") and len(n["args"]) == 1:
        return (n["method"], _resolve(fn, n["recv"], depth + 1), _resolve(fn, n["args"][0], depth + 1))
    if n.k == "call" and up(n["func"]).split("::")[-1] in ("min", "max") and len(n["args"]) == 2:
        return (up(n["func"]).split("::")[-1], _resolve(fn, n["args"][0], depth + 1), _resolve(fn, n["args"][1], depth + 1))
    if n.k == "binary" and n["op"] == "+":
        return ("add", _resolve(fn, n["l"], depth + 1), _resolve(fn, n["r"], depth + 1), up(n))
    if n.k == "path" and "::" not in n["path"]:
        b = binding_before(fn, n["path"], n)
        if b is None:
            raise Refuse("unbound " + n["path"])
        if b[0] == "let" and b[-1] == () and b[1].get("init") is not None:
            init = strip(b[1]["init"])
            if init.k == "match":
                # `let current = match self.current { Some(c) => c, None => {.. seek ..} }`: an unconstrained position
                return ("free", n["path"])
            return _resolve(fn, init, depth + 1)
        if b[0] == "arm":
            # payload of SeekFrom::Start(x) (u64) / End(x) / Current(x) (i64)
            pat = up(b[1]["pat"])
            if "Start(" in pat:
                return ("unsigned", n["path"])
            return ("free", n["path"])
        return ("free", n["path"])
    raise Refuse("expression `%s` outside the min/max/+ fragment" % up(n))


def _leaves(t, out):
    k = t[0]
    if k in ("min", "max"):
        _leaves(t[1], out)
        _leaves(t[2], out)
    elif k == "add":
        out.setdefault(("add", t[3]), t)
    elif k == "leaf":
        out.setdefault(("leaf", t[1]), t)
    elif k == "lit":
        out.setdefault(("lit", t[1]), t)
    else:
        out.setdefault((k, t[1]), t)


def _sign(t):
    """'nonneg' | 'nonpos' | None for an addend tree"""
    if t[0] == "unsigned":
        return "nonneg"
    if t[0] == "lit":
        return "nonneg" if t[1] >= 0 else "nonpos"
    if t[0] == "min" and (t[1] == ("lit", 0) or t[2] == ("lit", 0)):
        return "nonpos"
    if t[0] == "max" and (t[1] == ("lit", 0) or t[2] == ("lit", 0)):
        return "nonneg"
    return None


def _eval(t, env):
    k = t[0]
    if k == "min":
        return min(_eval(t[1], env), _eval(t[2], env))
    if k == "max":
        return max(_eval(t[1], env), _eval(t[2], env))
    if k == "add":
        return env[("add", t[3])]
    if k == "leaf":
        return env[("leaf", t[1])]
    if k == "lit":
        return env[("lit", t[1])]
    return env[(k, t[1])]


def clamp_check(tree):
    """-> (rows, counterexample text or None)"""
    leaves = {}
    _leaves(tree, leaves)
    leaves.setdefault(("leaf", "self.start"), ("leaf", "self.start"))
    leaves.setdefault(("leaf", "self.end"), ("leaf", "self.end"))
    keys = list(leaves)
    S, E = ("leaf", "self.start"), ("leaf", "self.end")
    rows = 0
    for ranks in weak_orders(len(keys)):
        env = dict(zip(keys, ranks))
        if not env[S] <= env[E]:
            continue
        ok = True
        for k in keys:
            if k[0] == "lit":
                # literal 0 <= start (u64); other literals unsupported
                if k[1] != 0:
                    raise Refuse("literal %s" % k[1])
                if not env[k] <= env[S]:
                    ok = False
            if k[0] == "add":
                t = leaves[k]
                base, add = t[1], t[2]
                sg = _sign(add)
                bv = _eval(base, env) if base[0] in ("leaf", "lit", "min", "max") else None
                if bv is None:
                    sg2 = _sign(base)
                    # symmetric: base may be the signed part
                    bv = _eval(add, env) if add[0] in ("leaf", "lit", "min", "max") else None
                    sg = sg2
                if bv is not None and sg == "nonneg" and not env[k] >= bv:
                    ok = False
                if bv is not None and sg == "nonpos" and not env[k] <= bv:
                    ok = False
        if not ok:
            continue
        rows += 1
        v = _eval(tree, env)
        if not (env[S] <= v <= env[E]):
            names = {k: (k[1] if k[0] != "lit" else str(k[1])) for k in keys}
            return rows, "when %s the file is positioned at `%s`, outside [self.start, self.end]" % (
                order_str({names[k]: env[k] for k in keys}), [names[k] for k in keys if env[k] == v][0])
    return rows, None


def _res_dispatch(n):
    """match E { Ok(x) => A, Err(e) => B } -> (scrutinee, ok-name, ok-body, err-name, err-body) or None"""
    n = strip(n)
    if n.k != "match" or len(n["arms"]) != 2:
        return None
    pats = {up(a["pat"]).split("(")[0]: a for a in n["arms"]}
    if set(pats) != {"Ok", "Err"} or any(a.get("guard") is not None for a in n["arms"]):
        return None
    return (n["scrut"], up(pats["Ok"]["pat"])[3:-1], pats["Ok"]["body"], up(pats["Err"]["pat"])[4:-1], pats["Err"]["body"])


def _tail_of(b):
    b = strip(b)
    while b.k == "block":
        if not b["stmts"] or b["stmts"][-1].k != "expr_stmt" or b["stmts"][-1].get("semi"):
            return None
        b = strip(b["stmts"][-1]["e"])
    return b


def ob_fileview_seek(ctx, res):
    """C18-B1..3 + C18-S1: per SeekFrom arm, the absolute position handed to the file is decided (R-EQUIV) against the isolated-range semantics"""
    from ..rules import equiv as EQ
    from ..astq import upn, _tnorm
    fn = ctx.ast.fn(FV, "seek", impl="as Seek", inline=True)
    ms = [n for n in walk_no_nested_fn(fn.body) if n.k == "match" and up(strip(n["scrut"])) == fn.params[1][0]]
    if len(ms) != 1 or len(ms[0]["arms"]) != 3:
        res.undecided("fvSeek/arms", fn, "expected one match over the three SeekFrom arms")
        return
    rec = [c for c in calls(fn.body, method="seek") if up(strip(c["recv"])) == "self"]
    if rec:
        res.fail("fvSeek/recursion", rec[0], "FileView::seek calls itself (`%s`) without having changed the state that led there: when the position is unknown (after a failed "
                                             "read or seek) the call takes the same branch again - unbounded recursion; the position must be asked of the underlying file" % up(rec[0]))
        return
    # every successful exit reports the position relative to the view start
    for r_ in walk_no_nested_fn(fn.body):
        if r_.k == "return" and r_.get("e") is not None:
            e_ = strip(r_["e"])
            if e_.k == "call" and up(e_["func"]) == "Ok" and len(e_["args"]) == 1:
                t_ = upn(fn, e_["args"][0])
                if not re.search(r"-\s*self\.start\b", t_) and t_ not in ("0",):
                    res.fail("fvSeek/early-return", r_, "seek returns `%s` early: every position reported by a view is relative to the view start (`p - self.start`); `%s` is a position of "
                                                        "the underlying file (views with start > 0 then report, and callers seek back to, the wrong place)" % (up(r_)[:60], t_[:60]))
                    return
    refs = {
        "Start": (lambda e: min(e["E"], e["S"] + e["P"]), lambda e: e["P"] >= 0),
        "End": (lambda e: min(e["E"], max(e["S"], e["E"] + e["P"])), lambda e: True),
        "Current": (lambda e: min(e["E"], max(e["S"], e["C"] + e["P"])), lambda e: e["S"] <= e["C"] <= e["E"]),
    }
    for arm in ms[0]["arms"]:
        kind = re.sub(r"\(.*", "", up(arm["pat"])).split("::")[-1]
        pm = re.fullmatch(r".*\((\w+)\)", up(arm["pat"]))
        if kind not in refs or not pm:
            res.undecided("fvSeek/%s/site" % kind, arm, "arm pattern `%s` not recognised" % up(arm["pat"]))
            continue
        payload = pm.group(1)
        sk = [c for c in calls(arm["body"], method="seek") if up(strip(c["recv"])) == "self.file"]
        pos_sk = []
        for c in sk:
            a = _tnorm(fn, strip(c["args"][0]))
            if a.k == "call" and up(a["func"]).endswith("SeekFrom::Start") and len(a["args"]) == 1:
                pos_sk.append((c, a["args"][0]))
            elif a.k == "call" and up(a["func"]).endswith("SeekFrom::Current") and up(a["args"][0]) == "0":
                continue        # position query, does not move the file
            else:
                res.fail("fvSeek/%s/absolute" % kind, c, "the underlying file must be positioned absolutely (SeekFrom::Start(x)); got `%s`" % up(a))
                pos_sk = None
                break
        if pos_sk is None:
            continue
        if len(pos_sk) != 1:
            if not pos_sk:
                res.fail("fvSeek/%s/site" % kind, arm, "SeekFrom::%s never positions the underlying file" % kind)
            else:
                res.undecided("fvSeek/%s/site" % kind, arm, "%d positioning seeks in one arm" % len(pos_sk))
            continue
        c, x = pos_sk[0]
        ref, pre0 = refs[kind]
        roles = {"S": r"self\.start", "E": r"self\.end", "P": re.escape(payload)}
        if kind == "Current":
            roles["C"] = r"(?!%s$)[a-z_]\w*" % re.escape(payload)
        pre = lambda e, pre0=pre0: 0 <= e["S"] <= e["E"] and pre0(e)
        q = EQ.equiv(fn, x, roles, ref, domain=range(-3, 4), pre=pre)
        if q[0] == "differs":
            e, got, want = q[1], q[2], q[3]
            inb = e["S"] <= got <= e["E"]
            res.fail("fvSeek/%s/clamp" % kind, c,
                     "SeekFrom::%s(%s): the file is positioned at %s, the isolated range [start=%s, end=%s)%s requires %s%s" % (
                         kind, e["P"], got, e["S"], e["E"], " at position %s" % e["C"] if "C" in e else "", want,
                         "" if inb else " - outside the view (a view with start > 0 then fails its own `new_pos >= self.start` assertion)"))
            continue
        if q[0] == "unknown":
            res.undecided("fvSeek/%s/clamp" % kind, c, "position expression not decided (%s)" % q[1])
        else:
            res.ok(c, "SeekFrom::%s: `%s` == the isolated range's position clamped to [start, end] on %d assignments" % (kind, up(x)[:60], q[1]))
        # epilogue: Ok(p) -> current = Some(p), return p - start; Err -> current = None
        m2 = c.parent
        while m2 is not None and m2.k != "match":
            m2 = m2.parent
        d = _res_dispatch(m2) if m2 is not None and any(y is c for y in walk_no_nested_fn(strip(m2["scrut"]))) else None
        if d is None:
            res.undecided("fvSeek/%s/epilogue" % kind, c, "the seek result is not consumed by a `match .. { Ok(p) => .., Err(e) => .. }`")
            continue
        _, okn, okb, ern, erb = d
        okas = [y for y in walk_no_nested_fn(okb) if y.k == "assign" and up(strip(y["l"])) == "self.current"]
        eras = [y for y in walk_no_nested_fn(erb) if y.k == "assign" and up(strip(y["l"])) == "self.current"]
        t_ok, t_er = _tail_of(okb), _tail_of(erb)
        if len(okas) != 1 or up(strip(okas[0]["r"])) != "Some(%s)" % okn or okas[0].order > min([y.order for y in walk_no_nested_fn(okb) if y.k == "let"] or [10 ** 9]):
            res.fail("fvSeek/%s/epilogue-form" % kind, m2, "on success current must become Some(<position reported by the file>)")
            continue
        if t_ok is None or upn(fn, t_ok) != "Ok(%s - self.start)" % okn:
            res.fail("fvSeek/%s/epilogue-form" % kind, m2, "on success the position must be returned relative to the view start; returns `%s`" % (upn(fn, t_ok) if t_ok is not None else "?"))
            continue
        if len(eras) != 1 or up(strip(eras[0]["r"])) != "None" or t_er is None or up(t_er) != "Err(%s)" % ern:
            res.fail("fvSeek/%s/epilogue-form" % kind, m2, "on error the position is unknown (current = None) and the error is returned")
            continue
        res.ok(m2, "SeekFrom::%s: Ok(p) -> current = Some(p), return p - start; Err -> current = None" % kind)


def ob_fileview_read(ctx, res):
    """C18-B4"""
    from ..rules import equiv as EQ
    from ..astq import upn
    fn = ctx.ast.fn(FV, "read", impl="as Read", inline=True)
    bufn = fn.params[1][0]
    rd = [c for c in calls(fn.body, method="read") if up(strip(c["recv"])) == "self.file"]
    if len(rd) != 1:
        res.undecided("fvRead/read", fn, "expected one read of the underlying file, found %d" % len(rd))
        return
    # the slice handed to the file: &mut buf[..n] with n == min(buf.len(), end - current)
    a = strip(rd[0]["args"][0])
    if a.k == "path":
        b = binding_before(fn, a["path"], rd[0])
        a = strip(b[1]["init"]) if b is not None and b[0] == "let" and b[1].get("init") is not None else a
    while a.k == "ref":
        a = strip(a["e"])
    if not (a.k == "index" and strip(a["index"]).k == "range" and strip(a["index"]).get("from") is None and strip(a["index"]).get("to") is not None):
        if a.k == "path" and a["path"] == bufn:
            res.fail("fvRead/truncate", rd[0], "the caller's buffer is handed to the file untruncated: a read can run past the end of the view")
        else:
            res.undecided("fvRead/truncate", rd[0], "the buffer handed to the file is `%s`, not a `&mut buf[..n]` slice" % up(a))
        return
    n = strip(a["index"])["to"]
    cur = [x for x in walk_no_nested_fn(fn.body) if x.k == "let" and x["pat"].k == "p_ident" and x.get("init") is not None and strip(x["init"]).k == "match"
           and up(strip(strip(x["init"])["scrut"])) == "self.current"]
    curn = cur[0]["pat"]["name"] if len(cur) == 1 else "current"
    roles = {"L": r"\w+\.len\(\)", "E": r"self\.end", "C": re.escape(curn)}
    from ..astq import _tnorm
    nf = _tnorm(fn, strip(n))
    # `buf.len()` is a method call: give it a leaf by substituting a path
    def lenleaf(x):
        if isinstance(x, Node) and x.k == "mcall" and x["method"] == "len" and not x["args"]:
            return True
        return False
    from ..astq import _mknode
    def sub(x):
        if isinstance(x, list):
            return [sub(y) for y in x]
        if not isinstance(x, Node):
            return x
        if lenleaf(x):
            return _mknode({"k": "path", "path": "BUFLEN"})
        return _mknode({k: (sub(v) if isinstance(v, (Node, list)) else v) for k, v in x.items()})
    q = EQ.equiv(None, sub(nf), {"L": "BUFLEN", "E": r"self\.end", "C": re.escape(curn)}, lambda e: min(e["L"], e["E"] - e["C"]), domain=range(0, 5), pre=lambda e: e["C"] <= e["E"])
    if q[0] == "differs":
        res.fail("fvRead/truncate", rd[0], "the caller's buffer must be truncated to min(len, end - current) before reading; `%s` gives %s, required %s, for %s" % (up(n), q[2], q[3], q[1]))
        return
    if q[0] == "unknown":
        res.undecided("fvRead/truncate", rd[0], "truncation length not decided (%s)" % q[1])
    d = None
    m2 = rd[0].parent
    while m2 is not None and m2.k != "match":
        m2 = m2.parent
    d = _res_dispatch(m2) if m2 is not None else None
    if d is None:
        res.undecided("fvRead/advance", rd[0], "the read result is not consumed by a `match .. { Ok(n) => .., Err(e) => .. }`")
    else:
        _, okn, okb, ern, erb = d
        okas = [y for y in walk_no_nested_fn(okb) if y.k == "assign" and up(strip(y["l"])) == "self.current"]
        eras = [y for y in walk_no_nested_fn(erb) if y.k == "assign" and up(strip(y["l"])) == "self.current"]
        want = sorted([curn, "%s as u64" % okn])
        if len(okas) != 1 or upn(fn, okas[0]["r"]) not in ("Some(%s + %s)" % tuple(want), "Some(%s + %s)" % tuple(sorted([curn, okn]))) or up(_tail_of(okb) or okb) != "Ok(%s)" % okn:
            res.fail("fvRead/advance", m2, "current must advance by the count actually read and that count be returned; got `%s`" % up(okb)[:120])
            return
        if len(eras) != 1 or up(strip(eras[0]["r"])) != "None":
            res.fail("fvRead/advance", m2, "after a failed read the position is unknown (current = None)")
            return
        if q[0] == "equal":
            res.ok(fn, "read: buffer truncated to min(len, end - current); current += bytes read; Err -> current unknown")
    new = ctx.ast.fn(FV, "new", impl="FileView", inline=True)
    lit = [x for x in walk_no_nested_fn(new.body) if x.k == "struct" and x["path"].endswith("FileView")]
    sks = [c for c in calls(new.body, method="seek")]
    if len(lit) != 1:
        res.undecided("fvRead/new", new, "expected one FileView literal")
        return
    f = {x["name"]: (upn(new, x["e"]) if x.get("e") is not None and not x.get("shorthand") else x["name"]) for x in lit[0]["fields"]}
    pn = [p[0] for p in new.params]
    endq = None
    for x in lit[0]["fields"]:
        if x["name"] == "end":
            e = x["e"] if x.get("e") is not None and not x.get("shorthand") else None
            if e is None or (strip(e).k == "path" and strip(e)["path"] == "end"):
                b = binding_before(new, "end", lit[0])
                if b is not None and b[0] == "param":
                    res.fail("fvRead/new", lit[0], "new() stores the requested end unclamped: a view whose end lies past the end of the file reports positions (SeekFrom::End) "
                                                   "beyond the data; end must be min(end, file length)")
                    return
                e = b[1]["init"] if b is not None and b[0] == "let" else None
            if e is not None:
                fe = [c for c in sks if "SeekFrom::End(0)" in up(c)]
                fen = None
                for c in fe:
                    st = stmt_of(c)
                    if st is not None and st.k == "let" and st["pat"].k == "p_ident":
                        fen = st["pat"]["name"]
                endq = EQ.equiv(new, e, {"E": re.escape(pn[2]), "F": re.escape(fen or "file_end")}, lambda v: min(v["E"], v["F"]), domain=range(0, 4)) if fen else ("unknown", "file length not read")
    if endq is None or endq[0] == "unknown":
        res.undecided("fvRead/new", new, "view end not decided (%s)" % (endq[1] if endq else "no end field"))
    elif endq[0] == "differs":
        res.fail("fvRead/new", lit[0], "new() must clamp end to the file length; got %s, required %s for %s" % (endq[2], endq[3], endq[1]))
        return
    if not any(up(strip(c["args"][0])).endswith("SeekFrom::Start(%s)" % pn[1]) for c in sks) or f.get("current") != "Some(%s)" % pn[1] or f.get("start") != pn[1]:
        res.fail("fvRead/new", new, "new() must position the file at start and record start / current = Some(start)")
        return
    res.ok(new, "new: end clamped to the file length; file positioned at start; current = start")


def ob_chunker(ctx, res):
    """C18-F1: the chunking loop's body is executed symbolically (R-SYMX) and its effect sequence / state update compared with the contiguity rule"""
    from ..rules import symx, equiv as EQ
    fn = ctx.ast.fn(FU, "split_file_into_chunks_by_size", inline=True)
    loops = [n for n in walk_no_nested_fn(fn.body) if n.k == "loop"]
    if len(loops) != 1:
        res.undecided("chunker/loop", fn, "expected one loop, found %d" % len(loops))
        return
    sy = symx.run(fn, loops[0]["body"]["stmts"])
    if sy.opaque():
        res.undecided("chunker/shape", loops[0], "loop body has a statement the symbolic executor does not follow: `%s`" % sy.opaque()[0][1])
        return
    eff = [(k, t, n) for k, t, n in sy.effects]
    # 1. seek(Start(E)) ; read_line ; P = position ; push((S, P))
    def is_m(n, m):
        x = strip(n)
        while x.k == "try":
            x = strip(x["e"])
        return x if x.k == "mcall" and x["method"] == m else None
    seq = []
    for k, t, n in eff:
        if k == "exit":
            seq.append(("exit", n))
            continue
        for m in ("seek", "read_line", "stream_position", "push"):
            x = is_m(n, m)
            if x is not None:
                seq.append((m, x, t))
                break
        else:
            x = strip(n)
            if x.k == "call" and up(x["func"]).split("::")[-1] in ("new", "with_capacity", "default") and not x["args"]:
                continue        # a fresh buffer (`String::new()`): no effect on the file
            seq.append(("other", n, t))
    kinds = [x[0] for x in seq]
    if kinds != ["seek", "read_line", "seek", "push", "exit"] and kinds != ["seek", "read_line", "stream_position", "push", "exit"]:
        res.fail("chunker/sequence", loops[0], "each chunk must end right after the line that contains the candidate end: seek to the candidate, read one line, take the position, "
                                               "push (start, position), then test for the end - in that order; the body does: %s" % sy.show())
        return
    m0 = re.fullmatch(r"(?:io::|std::io::)?SeekFrom::Start\((\w+)\)", up(strip(seq[0][1]["args"][0])))
    if not m0:
        res.fail("chunker/sequence", loops[0], "the probe must be an absolute seek to the candidate end; got `%s`" % up(seq[0][1]))
        return
    endn = m0.group(1)
    if seq[2][0] == "seek" and not re.fullmatch(r"(?:io::|std::io::)?SeekFrom::Current\(0\)", up(strip(seq[2][1]["args"][0]))):
        res.fail("chunker/sequence", loops[0], "after reading the line the position must be taken (seek(Current(0)) / stream_position); got `%s`" % up(seq[2][1]))
        return
    P = seq[2][2].split(" = ")[0]
    recvs = {up(strip(seq[i][1]["recv"])) for i in (0, 1, 2)}
    if len(recvs) != 1:
        res.fail("chunker/sequence", loops[0], "probe, line read and position must use the same reader; got %s" % sorted(recvs))
        return
    pa = strip(seq[3][1]["args"][0])
    if pa.k != "tuple" or len(pa["elems"]) != 2 or up(strip(pa["elems"][1])) != P or not re.fullmatch(r"\w+", up(strip(pa["elems"][0]))):
        res.fail("chunker/push", loops[0], "the chunk pushed must be (chunk start, position after the line); got `%s`" % up(pa))
        return
    startn = up(strip(pa["elems"][0]))
    # 2. state update
    ns = sy.env.get(startn)
    if ns is None or up(ns) != P:
        res.fail("chunker/next", loops[0], "the next chunk must start exactly where the previous one ended (%s' = %s); got `%s`" % (startn, P, up(ns) if ns is not None else "unchanged"))
        return
    ne = sy.env.get(endn)
    if ne is None:
        res.fail("chunker/next", loops[0], "the candidate end is never advanced")
        return
    roles = {"P": re.escape(P), "S": re.escape(startn), "Z": r"chunk_size|\w*size\w*(?<!file_size)", "F": r"file_size|\w*len\w*"}
    q = EQ.equiv(None, ne, roles, lambda e: min(e["F"], max(e["P"], e["S"] + 2 * e["Z"])), domain=range(0, 4))
    if q[0] == "unknown":
        res.undecided("chunker/candidate", loops[0], "next candidate end not decided (%s)" % q[1])
    elif q[0] == "differs":
        # the exact stride is a tuning choice; what the property needs is P <= candidate' <= file_size
        q2 = EQ.equiv(None, _mk_between(ne, P), roles, lambda e: True, domain=range(0, 4), pre=lambda e: e["P"] <= e["F"])
        if q2[0] != "equal":
            res.fail("chunker/exit", loops[0], "the next candidate end must lie in [position, file size]; `%s` does not (%s)" % (up(ne), q2[1:] ))
            return
    # 3. exit
    ex = seq[4][1]
    qe = EQ.equiv(None, ex, roles, lambda e: e["P"] >= e["F"], domain=range(0, 4)) if ex is not None else ("unknown", "unconditional exit")
    if qe[0] == "differs":
        res.fail("chunker/exit", loops[0], "the only exit is `next chunk start >= file size`; condition `%s` gives %s for %s" % (up(ex), qe[2], qe[1]))
        return
    if qe[0] == "unknown":
        res.undecided("chunker/exit", loops[0], "exit condition not decided (%s)" % qe[1])
    b0 = binding_before(fn, startn, loops[0])
    if b0 is None or b0[0] != "let" or up(strip(b0[1]["init"])) != "0":
        res.fail("chunker/first", fn, "the first chunk must start at offset 0")
        return
    brk = [n for n in walk_no_nested_fn(loops[0]["body"]) if n.k in ("break", "return")]
    if len(brk) != 1:
        res.fail("chunker/exits", loops[0], "exactly one exit expected")
        return
    res.ok(loops[0], "chunks: first starts at 0; each ends at the position right after a full line read from the candidate end; next starts there; exit only at chunk_start >= file_size "
                     "(symbolic effects: %s)" % "; ".join(sy.show()))


def _mk_between(ne, P):
    from ..astq import _mknode
    p = _mknode({"k": "path", "path": P})
    f = _mknode({"k": "path", "path": "file_size"})
    a = _mknode({"k": "binary", "op": "<=", "l": p, "r": ne})
    b = _mknode({"k": "binary", "op": "<=", "l": ne, "r": f})
    return _mknode({"k": "binary", "op": "&&", "l": a, "r": b})


def curr_next_names(fn):
    """names bound to (the index entry popped for this chromosome, the entry that follows it) in the parallel source, in either spelling:
       let (curr, next) = match IDX.pop() { Some(c) => (c, IDX.last()), None => { .. break } };
       let Some(curr) = IDX.pop() else { .. break };  let next = IDX.last();
    -> (curr, next, site) | None when not recognised | ("bad", site) when the pair is not (popped, following)"""
    pat = [n for n in walk_no_nested_fn(fn.body) if n.k == "let" and n["pat"].k == "p_tuple" and len(n["pat"]["elems"]) == 2 and n.get("init") is not None
           and ".chrom_indices.pop()" in up(n["init"]) and ".chrom_indices.last()" in up(n["init"])]
    if len(pat) == 1 and all(e.k == "p_ident" for e in pat[0]["pat"]["elems"]):
        init = strip(pat[0]["init"])
        okpair = False
        if init.k == "match" and up(strip(init["scrut"])).endswith(".chrom_indices.pop()"):
            for a_ in init["arms"]:
                m = re.fullmatch(r"Some\((\w+)\)", up(a_["pat"]))
                if m and re.fullmatch(r"\(%s, ?self\.chrom_indices\.last\(\)\)" % m.group(1), up(strip(a_["body"]))):
                    okpair = True
        if not okpair:
            return ("bad", pat[0])
        return pat[0]["pat"]["elems"][0]["name"], pat[0]["pat"]["elems"][1]["name"], pat[0]
    pops = [n for n in walk_no_nested_fn(fn.body) if n.k == "let" and n.get("init") is not None and up(strip(n["init"])).endswith(".chrom_indices.pop()")
            and re.fullmatch(r"Some\((mut )?(\w+)\)", up(n["pat"])) and n.get("else") is not None]
    lasts = [n for n in walk_no_nested_fn(fn.body) if n.k == "let" and n.get("init") is not None and up(strip(n["init"])).endswith(".chrom_indices.last()") and n["pat"].k == "p_ident"]
    if len(pops) == 1 and len(lasts) == 1 and pops[0].order < lasts[0].order and pops[0].parent is lasts[0].parent:
        between = [x for x in pops[0].parent["stmts"] if pops[0].order < x.order < lasts[0].order]
        if any("chrom_indices" in up(x) for x in between):
            return None
        return re.fullmatch(r"Some\((mut )?(\w+)\)", up(pops[0]["pat"])).group(2), lasts[0]["pat"]["name"], pops[0]
    return None


def _int_binop(op, a, b):
    from ..rules.interp import NotPure
    if isinstance(a, int) and isinstance(b, int) and not isinstance(a, bool) and not isinstance(b, bool) and op in ("+", "-", "*"):
        return a + b if op == "+" else (a - b if op == "-" else a * b)
    raise NotPure("arithmetic %s on %r, %r" % (op, a, b))


def ob_views(ctx, res):
    """C18-F2 (parallel source side)"""
    from ..rules.interp import Interp, NotPure
    from ..astq import _tnorm, upn
    fn = ctx.ast.fn(BD, "process_to_bbi", impl="BedParserParallelStreamingIterator", inline=True)
    fv = [c for c in walk_no_nested_fn(fn.body) if c.k == "call" and up(c["func"]) == "FileView::new"]
    if len(fv) != 1:
        res.undecided("views/site", fn, "expected one FileView::new per chromosome, found %d" % len(fv))
        return
    cn = curr_next_names(fn)
    if cn is None:
        res.undecided("views/consecutive", fv[0], "the (current, next) pair of index entries (popped entry, the one that follows it) was not recognised")
        return
    if cn[0] == "bad":
        res.fail("views/consecutive", cn[1], "(current, next) must be the popped index entry and the one that follows it (`Some(c) => (c, self.chrom_indices.last())`)")
        return
    cur, nxt = cn[0], cn[1]
    args = fv[0]["args"]
    if len(args) != 3:
        res.undecided("views/bounds", fv[0], "FileView::new with %d arguments" % len(args))
        return
    rows = 0
    for nv in (None, ("some", (7, "N"))):
        env = {cur: (3, "C"), nxt: nv}
        try:
            it = Interp(ctx.ast, BD, extern={"None": None, "path": lambda p_: ("sym", p_), "binop": _int_binop})
            from ..astq import tnorm_keeping
            lo = it.ev(tnorm_keeping(fn, strip(args[1]), (cur, nxt)), env, 0)
            hi = it.ev(tnorm_keeping(fn, strip(args[2]), (cur, nxt)), env, 0)
        except NotPure as e:
            res.undecided("views/bounds", fv[0], "view bounds `%s`, `%s` are outside the fragment the rule evaluates (%s)" % (up(args[1]), up(args[2]), e))
            return
        rows += 1
        want_hi = 7 if nv is not None else ("sym", "u64::MAX")
        if lo != 3 or hi != want_hi:
            res.fail("views/bounds", fv[0], "a chromosome's view must be [its index offset, the next entry's offset or end of file); with %s next entry the bounds are (%s, %s)" % (
                "a" if nv else "no", lo, hi))
            return
    sp = [c for c in walk_no_nested_fn(fn.body) if c.k == "call" and up(c["func"]) == "start_processing"]
    if not sp or upn(fn, sp[0]["args"][0]).replace(".clone()", "") != cur + ".1":
        res.fail("views/name", fn, "the processor must be started for the chromosome name of the same index entry")
        return
    res.ok(fv[0], "parallel source: view [index[i].offset, index[i+1].offset | EOF) processed under index[i].name (%d cases)" % rows)


def ob_index_grouping(ctx, res):
    """C18-G1: the tail of index_chroms (collapse adjacent duplicates, detect a chromosome occurring in two runs) is evaluated on small index lists"""
    import functools
    from ..rules.interp import Interp, NotPure, _Return
    fn = ctx.ast.fn(IX, "index_chroms")
    st = fn.body["stmts"]
    i0 = [i for i, x in enumerate(st) if "drain_iter" in up(x)]
    if len(i0) != 1:
        res.undecided("grouping/shape", fn, "the statement collecting the index list (`.drain_iter().collect()`) was not located")
        return
    seg = st[i0[0]:]
    cases = [("one run per chromosome", [(0, "a"), (5, "b"), (9, "c")], ("some", ("some", [(0, "a"), (5, "b"), (9, "c")]))),
             ("a run recorded by two adjacent entries", [(0, "a"), (3, "a"), (5, "b")], ("some", ("some", [(0, "a"), (5, "b")]))),
             ("a chromosome occurring in two runs", [(0, "a"), (5, "b"), (9, "a")], ("some", None)),
             ("names not in sorted order, one run each", [(0, "b"), (5, "a")], ("some", ("some", [(0, "b"), (5, "a")]))),
             ("a single chromosome", [(0, "a")], ("some", ("some", [(0, "a")])))]
    for desc, lst, want in cases:
        holder = [None]

        def method(m, recv, args, lst=lst):
            it = holder[0]
            if recv == "LL" and m == "drain_iter" and not args:
                return list(lst)
            if isinstance(recv, list):
                if m in ("collect", "into_iter", "iter", "to_vec") and not args:
                    return list(recv)
                if m == "len" and not args:
                    return len(recv)
                if m == "is_empty" and not args:
                    return not recv
                if m in ("dedup_by_key", "dedup_by") and len(args) == 1:
                    out = []
                    for x in recv:
                        if m == "dedup_by_key":
                            same = bool(out) and it.apply_closure(args[0], [x]) == it.apply_closure(args[0], [out[-1]])
                        else:
                            same = bool(out) and bool(it.apply_closure(args[0], [x, out[-1]]))
                        if not same:
                            out.append(x)
                    recv[:] = out
                    return None
                if m == "dedup" and not args:
                    out = []
                    for x in recv:
                        if not out or out[-1] != x:
                            out.append(x)
                    recv[:] = out
                    return None
                if m in ("sort", "sort_unstable") and not args:
                    recv.sort()
                    return None
                if m in ("sort_by_key", "sort_unstable_by_key", "sort_by_cached_key") and len(args) == 1:
                    recv.sort(key=lambda x: it.apply_closure(args[0], [x]))
                    return None
                if m in ("sort_by", "sort_unstable_by") and len(args) == 1:
                    def cmp(a_, b_):
                        r = it.apply_closure(args[0], [a_, b_])
                        return {"Less": -1, "Equal": 0, "Greater": 1}[r[1]] if isinstance(r, tuple) and len(r) == 3 else 0
                    recv.sort(key=functools.cmp_to_key(cmp))
                    return None
            raise NotPure("method %s on %s" % (m, type(recv).__name__))
        itp = Interp(ctx.ast, IX, extern={"None": None, "method": method, "call": lambda p_, a_: NotImplemented})
        holder[0] = itp
        env = {"chroms": "LL"}
        try:
            got = itp.run_stmts(seg, env)
        except _Return as r:
            got = r.v
        except NotPure as e:
            res.undecided("grouping/not-evaluable", fn, "the grouping check of index_chroms is outside the fragment the rule evaluates (%s)" % e)
            return
        if got != want:
            res.fail("grouping/check", fn, "index_chroms, %s %s: returns %s, required %s (adjacent entries of one chromosome are collapsed; a chromosome that re-occurs "
                                           "non-adjacently makes the file `not grouped` = None; offsets keep file order)" % (desc, lst, got, want))
            return
    res.ok(fn, "index tail evaluated on %d index lists: adjacent duplicates collapsed; a chromosome in two runs -> None; otherwise the entries in file order" % len(cases))


# ---------------------------------------------------------------------------------------------------------------------
# C18-I1: the bisection in index_chroms::do_index


def _sq(t):
    return re.sub(r"[\s()]", "", t)


_PURE_M = {"get", "unwrap", "map", "unwrap_or", "map_or", "min", "max", "len", "clone", "as_ref"}


def _pure(e):
    for x in [strip(e)] + list(walk_no_nested_fn(e)):
        if isinstance(x, Node) and (x.k in ("try", "match", "return", "macro", "call", "await", "assign") or (x.k == "mcall" and x["method"] not in _PURE_M)):
            return False
    return True


def _inl(fn, n, depth=0):
    """canonical text of n with single-assignment `let` locals replaced by their initialisers (recursively)"""
    t = up(strip(n))
    if depth > 6:
        return t
    seen = {}
    for x in [strip(n)] + list(walk_no_nested_fn(n)):
        if isinstance(x, Node) and x.k == "path" and "::" not in x["path"] and x["path"] not in seen:
            b = binding_before(fn, x["path"], x)
            if b is not None and b[0] == "let" and b[-1] == () and b[1].get("init") is not None and b[1]["pat"].k == "p_ident" and not b[1]["pat"].get("mut") and _pure(b[1]["init"]):
                seen[x["path"]] = "(" + _inl(fn, b[1]["init"], depth + 1) + ")"
    if strip(n).k == "path" and strip(n)["path"] in seen:
        return seen[strip(n)["path"]]
    for name, rep in seen.items():
        t = re.sub(r"(?<![\w.])%s\b(?!\s*\()" % re.escape(name), lambda m: rep, t)
    return t


def _eval_int(text, env):
    """evaluate a +,-,*,/ expression over non-negative integers (Rust semantics: floor division, underflow = refuse)"""
    t = re.sub(r"\bas\s+u\d+\b", "", text)
    if not re.fullmatch(r"[\w\s()+\-*/]+", t):
        raise Refuse("not arithmetic: " + text)
    t = t.replace("/", "//")
    v = eval(t, {"__builtins__": {}}, dict(env))   # names are restricted to env by the regex above + empty builtins
    if v < 0:
        raise Refuse("underflow")
    return v


def _inside(block, n):
    x = n
    while x is not None and isinstance(x, Node):
        if x is block:
            return True
        x = x.parent
    return False


def _match_of(arm):
    x = arm.parent
    while x is not None and isinstance(x, Node) and x.k != "match":
        x = x.parent
    return x if isinstance(x, Node) else None


def _parse_none_exit(fn, r_):
    """the return sits in the None outcome of an Option dispatch on the parsed line"""
    from ..astq import opt_dispatch
    x = r_.parent
    while x is not None and isinstance(x, Node):
        d = opt_dispatch(x) if x.k in ("match", "if", "let") else None
        if d is not None and d[3] is not None and _inside(d[3], r_) and "parse_line" in origin(fn, d[0]):
            return True
        x = x.parent
    return False


def _side_cond(ctx, fn, cond, C, T, U, want):
    """evaluate a recursion guard over name(prev) / name(probed) / name(next) equal-or-not and next present-or-not; None iff it equals `want` everywhere"""
    from ..rules.interp import Interp, NotPure
    from ..astq import _tnorm
    nf = _tnorm(fn, strip(cond))
    for has_next in (False, True):
        for np_, nc, nn in ((0, 0, 0), (0, 0, 1), (0, 1, 1), (0, 1, 0), (0, 1, 2)):
            table = {"hp": (10, np_), "hc": (20, nc), "hn": (30, nn)}

            def method(m, recv, args):
                if m == "get" and recv == "CHROMS" and len(args) == 1 and args[0] in table:
                    return ("some", table[args[0]])
                raise NotPure("method " + m)
            env = {"chroms": "CHROMS", "prev": "hp", C: "hc", "next": ("some", "hn") if has_next else None, T: 20, U: 30 if U else None}
            if U:
                env[U] = 30
            try:
                got = Interp(ctx.ast, IX, extern={"None": None, "method": method}).ev(nf, env, 0)
            except NotPure as e:
                return ("undecided", str(e))
            w = want(nc, np_, nn, has_next)
            if bool(got) != bool(w):
                return ("differs", got, "name(prev), name(probed), name(next) = %s, next %s" % ((np_, nc, nn), "present" if has_next else "absent"))
    return None


def ob_bisection(ctx, res):
    """C18-I1: every probe outcome of do_index either records the probed line and recurses on both sides or narrows the interval"""
    fn = ctx.ast.fn(IX, "do_index")
    stmts = fn.body["stmts"]
    recs = [c for c in walk_no_nested_fn(fn.body) if c.k == "call" and up(c["func"]) == "do_index"]
    # --- the probe sequence -----------------------------------------------------------------------------------------
    top = lambda c: stmt_of(c) is not None and stmt_of(c).parent is fn.body   # the probe itself is unconditional
    seeks = [c for c in calls(fn.body, method="seek") if "SeekFrom::Start" in up(c["args"][0]) and top(c)]
    reads = [c for c in calls(fn.body, method="read_line") if top(c)]
    tells = [n for n in stmts if n.k == "let" and n.get("init") is not None and re.fullmatch(r"\w+\.(tell\(\)|stream_position\(\)|seek\((io::)?SeekFrom::Current\(0\)\))\?", up(strip(n["init"])) or "")]
    parses = [c for c in walk_no_nested_fn(fn.body) if c.k == "call" and up(c["func"]) == "parse_line" and top(c)]
    ins = [c for c in walk_no_nested_fn(fn.body) if c.k == "mcall" and c["method"].startswith("insert")]
    if len(seeks) != 1 or len(reads) != 2 or len(tells) != 1 or len(parses) != 1:
        res.fail("bisect/probe-shape", fn, "expected one probe per call: seek(Start(mid)), read_line (skip the partial line), take the position, read_line, parse_line; found %d seeks, %d read_line, %d positions, %d parse_line"
                 % (len(seeks), len(reads), len(tells), len(parses)))
        return
    T = up(tells[0]["pat"])
    order = [toplevel_stmt(seeks[0]), toplevel_stmt(reads[0]), tells[0], toplevel_stmt(reads[1]), toplevel_stmt(parses[0])]
    if any(o is None for o in order) or [o.order for o in order] != sorted(set(o.order for o in order)):
        res.fail("bisect/probe-order", fn, "the recorded offset must be the position taken after skipping the partial line and immediately before reading the line that is parsed")
        return
    clears = [c for c in calls(fn.body, method="clear") if order[1].order < toplevel_stmt(c).order < order[3].order]
    if len(clears) != 1:
        res.fail("bisect/probe-clear", fn, "the skipped partial line must be cleared from the buffer before the probed line is read (read_line appends)")
        return
    # --- prev offset P, upper bound U, mid ---------------------------------------------------------------------------
    mid_txt = _sq(_inl(fn, strip(seeks[0]["args"][0])["args"][0]))
    P = "chroms.getprev.unwrap.0"
    if P not in mid_txt:
        res.fail("bisect/mid", seeks[0], "the probe position must be computed from prev's offset; got `%s`" % mid_txt)
        return
    params = {nm: ty for nm, ty in fn.params if nm}
    ub_param = [n for n, ty in params.items() if ty == "u64" and n != "file_size"]
    mexpr = mid_txt.replace(P, "P")
    old_upper = "next.map|next|chroms.getnext.unwrap.0.unwrap_orfile_size"
    if old_upper in mexpr:
        U_is_param, U = False, None
        mexpr = mexpr.replace(old_upper, "U")
    elif len(ub_param) == 1 and re.search(r"\b%s\b" % ub_param[0], mexpr):
        U_is_param, U = True, ub_param[0]
        mexpr = re.sub(r"\b%s\b" % U, "U", mexpr)
    else:
        res.fail("bisect/mid", seeks[0], "the probe position must be computed from prev's offset and the interval's upper bound; got `%s`" % mid_txt)
        return
    mid_src = _inl(fn, strip(seeks[0]["args"][0])["args"][0])
    mid_py = re.sub(r"chroms\.get\(prev\)\.unwrap\(\)\.0", "P", mid_src)
    mid_py = mid_py.replace("next.map(|next| chroms.get(next).unwrap().0).unwrap_or(file_size)", "U")
    if U:
        mid_py = re.sub(r"\b%s\b" % U, "U", mid_py)
    # --- overshoot handling (the D18 defect) ----------------------------------------------------------------------------
    ins_top = [toplevel_stmt(c) for c in ins]
    first_ins = min((s.order for s in ins_top if s is not None), default=None)
    if first_ins is None:
        res.fail("bisect/insert", fn, "the probed line is never recorded")
        return
    guards = []
    for s in stmts:
        if s.k == "expr_stmt" and strip(s["e"]).k == "if" and tells[0].order < s.order < first_ins:
            i = strip(s["e"])
            c = _sq(up(i["cond"]))
            if U and c in ("%s>=%s" % (T, U), "%s<=%s" % (U, T), "!%s<%s" % (T, U)) and i.get("else") is None:
                guards.append(i)
    if not U_is_param or len(guards) != 1:
        res.fail("bisect/overshoot", fn,
                 "a probe that lands at or beyond the upper bound of the interval (mid lies inside the last line before it: a long line, or the last line of the file) "
                 "ends the search without ever looking at the lines between prev and mid, so whole chromosomes are missing from the index "
                 "(e.g. `chr1..\\nchr2..\\n` indexes as [(0,chr1)]); the overshoot outcome must narrow the interval to (prev, mid] and continue")
        return
    g = guards[0]
    if not toplevel_stmt(g).order < order[3].order:
        res.fail("bisect/overshoot-late", g, "the overshoot test must come before the probed line is read and parsed (at end of file the parse yields None and returns)")
        return
    gcalls = [c for c in recs if _inside(g["then"], c)]
    rets = [n for n in walk_no_nested_fn(g["then"]) if n.k == "return"]
    if len(gcalls) != 1 or len(rets) != 1 or strip(rets[0]["e"]) is not gcalls[0] and up(strip(rets[0]["e"])) != up(gcalls[0]):
        res.fail("bisect/overshoot-continue", g, "the overshoot branch must return the result of searching the narrowed interval")
        return
    names = [nm for nm, _ in fn.params]
    a = {names[i]: gcalls[0]["args"][i] for i in range(len(names))}
    if up(strip(a["prev"])) != "prev" or up(strip(a["next"])) != "next":
        res.fail("bisect/overshoot-args", gcalls[0], "the narrowed search keeps the same prev and next")
        return
    new_u = re.sub(r"chroms\.get\(prev\)\.unwrap\(\)\.0", "P", _inl(fn, a[U]))
    new_u = re.sub(r"\b%s\b" % U, "U", new_u)
    # --- base case --------------------------------------------------------------------------------------------------------
    base = None
    for s in stmts:
        if s.k == "expr_stmt" and strip(s["e"]).k == "if" and s.order < toplevel_stmt(seeks[0]).order:
            i = strip(s["e"])
            ct = _inl(fn, i["cond"])
            ct = re.sub(r"chroms\.get\(prev\)\.unwrap\(\)\.0", "P", ct)
            ct = re.sub(r"\b%s\b" % U, "U", ct)
            if re.fullmatch(r"[PU\d\s()+\-<>=]+", ct) and re.fullmatch(r"\{return Ok\(\(\)\);?\}", up(i["then"])):
                base = ct
    if base is None:
        res.fail("bisect/base", fn, "no base case comparing the upper bound with prev's offset: the narrowing recursion would not terminate")
        return
    # arithmetic over all small (P, U): whenever the base case does not return, P <= mid < U, the narrowed bound is < U and > P is not required (base case catches it)
    n_cases = 0
    try:
        for Pv in range(0, 5):
            for Uv in range(0, Pv + 12):
                env = {"P": Pv, "U": Uv}
                try:
                    stop = bool(eval(base, {"__builtins__": {}}, env))
                except Exception:
                    raise Refuse("base case not evaluable: " + base)
                if Uv <= Pv + 1 and not stop:
                    res.fail("bisect/base-weak", fn, "base case `%s` lets the empty interval P=%d,U=%d through" % (base, Pv, Uv))
                    return
                if stop:
                    if Uv > Pv + 1:
                        res.fail("bisect/base-strong", fn, "base case `%s` stops at P=%d,U=%d although a line can start strictly between them" % (base, Pv, Uv))
                        return
                    continue
                m = _eval_int(mid_py, env)
                nu = _eval_int(new_u.replace(_sq(mid_py), "M") if False else new_u, dict(env))
                n_cases += 1
                if not (Pv <= m < Uv):
                    res.fail("bisect/mid-range", seeks[0], "probe position `%s` leaves [prev, upper) at P=%d,U=%d (mid=%d)" % (mid_py, Pv, Uv, m))
                    return
                # the probe returns the first line start > mid; if that is >= U, no line starts in (mid, U): the remaining candidates are (P, mid] = (P, mid+1)
                if nu != m + 1:
                    res.fail("bisect/narrow", gcalls[0], "after an overshoot the candidates left are exactly the line starts in (prev, mid]; the new exclusive bound must be mid+1, got `%s` (=%d, mid=%d at P=%d,U=%d)" % (new_u, nu, m, Pv, Uv))
                    return
                if not nu < Uv:
                    res.fail("bisect/narrow-progress", gcalls[0], "the narrowed bound does not shrink at P=%d,U=%d: unbounded recursion" % (Pv, Uv))
                    return
    except Refuse as e:
        res.fail("bisect/arith", fn, "unrecognised arithmetic in the bisection: %s" % e)
        return
    # --- recording: exactly one unconditional insertion of (position, parsed name) after prev -----------------------------
    if len(ins) != 1 or ins[0]["method"] != "insert_after" or toplevel_stmt(ins[0]).k != "let" and toplevel_stmt(ins[0]).k != "expr_stmt":
        res.fail("bisect/insert", fn, "exactly one insertion per probe expected, found %d" % len(ins))
        return
    it = toplevel_stmt(ins[0])
    holder = strip(it["init"]) if it.k == "let" else strip(it["e"])
    if holder is not ins[0] and up(holder) != up(ins[0]):
        res.fail("bisect/insert-conditional", ins[0], "every in-range probed line must be recorded unconditionally")
        return
    ia = ins[0]["args"]
    tup = strip(ia[1])
    if up(strip(ia[0])) != "prev" or tup.k != "tuple" or up(strip(tup["elems"][0])) != T or "parse_line" not in origin(fn, tup["elems"][1]):
        res.fail("bisect/insert-pair", ins[0], "the entry recorded after prev must pair the probed position with the name parsed from the line read at it; got `%s`" % up(ins[0]))
        return
    # no other exit: the only returns are the base case, the narrowed search, and the (unreachable once in range) empty-line arm of the parse
    allowed = 0
    for r_ in [n for n in walk_no_nested_fn(fn.body) if n.k == "return"]:
        par = r_.parent
        while par is not None and isinstance(par, Node) and par.k not in ("arm", "if"):
            par = par.parent
        if _inside(g["then"], r_):
            allowed += 1
        elif par is not None and par.k == "if" and toplevel_stmt(par).order < toplevel_stmt(seeks[0]).order and re.fullmatch(r"\{return Ok\(\(\)\);?\}", up(par["then"])):
            allowed += 1     # base case (and the depth-limit panic guard has no return)
        elif par is not None and par.k == "arm" and up(par["pat"]) == "None" and _match_of(par) is not None and "parse_line" in origin(fn, _match_of(par)["scrut"]) \
                and toplevel_stmt(g).order < toplevel_stmt(par).order:
            allowed += 1
        elif _parse_none_exit(fn, r_) and toplevel_stmt(g).order < toplevel_stmt(r_).order:
            allowed += 1     # the same None outcome of the parse, spelled `let Some(x) = parse_line(..)? else { return .. }` / `if let` / `match`
        else:
            res.fail("bisect/early-return", r_, "an exit that neither records the probed line nor narrows the interval: `%s`" % up(toplevel_stmt(r_))[:100])
            return
    C = up(it["pat"]) if it.k == "let" else None
    if C is None:
        res.fail("bisect/insert-handle", ins[0], "the inserted entry's handle is needed for the recursion")
        return
    # the None arm of the parse (line empty) can only be EOF; it must come after the overshoot guard
    # --- recursion ----------------------------------------------------------------------------------------------------------
    rest = [c for c in recs if c is not gcalls[0]]
    if len(rest) != 2:
        res.fail("bisect/recursion", fn, "expected a left and a right recursive search, found %d" % len(rest))
        return
    name_ne = lambda x, y: {"chroms.get%s.unwrap.1!=chroms.get%s.unwrap.1" % (x, y), "chroms.get%s.unwrap.1!=chroms.get%s.unwrap.1" % (y, x)}
    ok_extra = {"%s<%s" % (T, U)}
    sides = {}
    for c in rest:
        i = c
        while i is not None and not (isinstance(i, Node) and i.k == "if"):
            i = i.parent
        if i is None or toplevel_stmt(i).order <= it.order:
            res.fail("bisect/recursion-place", c, "recursive searches must follow the recording of the probed line")
            return
        st = stmt_of(c)
        if st is None or not up(st).rstrip(";").endswith("?"):
            res.fail("bisect/recursion-err", c, "an error from a recursive search must be propagated")
            return
        ar = {names[k]: up(strip(c["args"][k])) for k in range(len(names))}
        if ar["prev"] == "prev" and ar["next"] == "Some(%s)" % C:
            v = _side_cond(ctx, fn, i["cond"], C, T, U, lambda nc, np_, nn, has_next: nc != np_)
            if v is not None and v[0] == "undecided":
                res.undecided("bisect/left-cond", i, "left-search condition `%s` not evaluated (%s)" % (up(i["cond"])[:100], v[1]))
            elif v is not None:
                res.fail("bisect/left-cond", i, "the left search may be skipped only when the probed line has prev's chromosome; condition `%s` is %s when %s" % (up(i["cond"]), v[1], v[2]))
                return
            if ar[U] != T:
                res.fail("bisect/left-bound", c, "the left search covers line starts before the probed position; bound passed is `%s`" % ar[U])
                return
            sides["left"] = c
        elif ar["prev"] == C and ar["next"] == "next":
            v = _side_cond(ctx, fn, i["cond"], C, T, U, lambda nc, np_, nn, has_next: (not has_next) or nc != nn)
            if v is not None and v[0] == "undecided":
                res.undecided("bisect/right-cond", i, "right-search condition `%s` not evaluated (%s)" % (up(i["cond"])[:100], v[1]))
            elif v is not None:
                res.fail("bisect/right-cond", i, "the right search may be skipped only when the probed line has next's chromosome (never when there is no next); condition `%s` is %s when %s" % (up(i["cond"]), v[1], v[2]))
                return
            if ar[U] != U:
                res.fail("bisect/right-bound", c, "the right search keeps the interval's upper bound; bound passed is `%s`" % ar[U])
                return
            sides["right"] = c
        else:
            res.fail("bisect/recursion-args", c, "unrecognised recursive search (prev=%s, next=%s)" % (ar["prev"], ar["next"]))
            return
    if set(sides) != {"left", "right"}:
        res.fail("bisect/recursion", fn, "both a left (prev, probed) and a right (probed, next) search are required")
        return
    # --- the top call covers the whole file -----------------------------------------------------------------------------------
    outer = ctx.ast.fn(IX, "index_chroms")
    top = [c for c in walk_no_nested_fn(outer.body) if c.k == "call" and up(c["func"]) == "do_index"]
    if len(top) != 1:
        res.fail("bisect/top", outer, "expected one top-level search")
        return
    ta = {names[k]: top[0]["args"][k] for k in range(len(names))}
    fo, po = origin(outer, ta[U]), origin(outer, ta["prev"])
    if up(strip(ta["next"])) != "None" or "End" not in fo or "seek" not in fo or "insert_first" not in po:
        res.fail("bisect/top-args", top[0], "the top-level search must run from the first line (offset 0) to the end of the file")
        return
    firsts = [c for c in walk_no_nested_fn(outer.body) if c.k == "mcall" and c["method"] == "insert_first"]
    ft = strip(firsts[0]["args"][0]) if len(firsts) == 1 else None
    if ft is None or ft.k != "tuple" or up(strip(ft["elems"][0])) != "0" or "parse_line" not in origin(outer, ft["elems"][1]):
        res.fail("bisect/first", outer, "the first index entry must be (0, name parsed from the first line)")
        return
    res.count("bisection_cases", n_cases)
    res.ok(fn, "do_index: probe = first line start after mid, P <= mid < U for all %d small (P,U); overshoot (>= U) narrows to (prev, mid+1) and continues; base case exact; "
               "in-range probe recorded unconditionally as (position, parsed name) after prev; left search skipped only on name(probed)=name(prev), right only on name(probed)=name(next); "
               "errors propagated; top call covers (0, file size)" % n_cases)
