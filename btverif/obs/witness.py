"""R-TYPE witnesses (thorough tier): compile_fail doctests with compiling twins, built against the repo under analysis."""
from __future__ import annotations
import os, re, shutil, subprocess, hashlib

VERIF = os.path.dirname(os.path.dirname(os.path.dirname(os.path.abspath(__file__))))


def ob_witnesses(ctx, res):
    src = os.path.join(VERIF, "witnesses")
    tag = hashlib.sha1(ctx.repo.encode()).hexdigest()[:10]
    work = os.path.join(VERIF, "build", "witnesses-" + tag)
    os.makedirs(os.path.join(work, "src"), exist_ok=True)
    toml = open(os.path.join(src, "Cargo.toml")).read().replace('path = "/repo/bigtools"', 'path = "%s/bigtools"' % ctx.repo)
    open(os.path.join(work, "Cargo.toml"), "w").write(toml)
    shutil.copy(os.path.join(src, "src", "lib.rs"), os.path.join(work, "src", "lib.rs"))
    shutil.copy(os.path.join(ctx.repo, "Cargo.lock"), os.path.join(work, "Cargo.lock"))
    env = dict(os.environ, RUSTC=os.path.join(VERIF, "tools", "rustc-shim"), CARGO_NET_OFFLINE="true",
               CARGO_TARGET_DIR=os.path.join(VERIF, "build", "target-witnesses"))
    r = subprocess.run(["cargo", "+nightly", "test", "--doc", "--offline"], cwd=work, env=env, capture_output=True, text=True)
    out = r.stdout + r.stderr
    tests = re.findall(r"^test src/lib\.rs - (\w+) \(line \d+\)( - compile fail)? \.\.\. (\w+)", out, re.M)
    if not tests:
        res.fail("witness/build", "witnesses/src/lib.rs", "witness crate did not build/run: %s" % out[-600:])
        return
    byname = {}
    for name, cf, status in tests:
        byname.setdefault(name, {})["fail" if cf else "twin"] = status
    for name, d in sorted(byname.items()):
        if d.get("twin") != "ok":
            res.fail("witness/%s/twin" % name, "witnesses/src/lib.rs", "compiling twin of witness %s does not compile any more (API moved?): the witness proves nothing" % name)
        elif d.get("fail") != "ok":
            res.fail("witness/%s" % name, "witnesses/src/lib.rs", "witness %s: the forbidden program now COMPILES (or fails with a different error): the type-level guarantee is gone" % name)
        else:
            res.ok("witnesses/src/lib.rs", "%s: forbidden use rejected by the compiler (expected error code), twin compiles" % name)
