"""C05-F1: premises of the R-tree offset argument (level sizes, child offsets, level order)."""
from __future__ import annotations
import re
from ..astq import Node, up, strip, strip_cast, walk_no_nested_fn, calls, binding_before
from ..rules.layout import origin, int_value

W = "bigtools/src/bbi/bbiwrite.rs"


def ob_tree_offsets(ctx, res):
    co = ctx.ast.fn(W, "calculate_offsets")
    t = up(co.body)
    arms = [n for n in walk_no_nested_fn(co.body) if n.k == "arm"]
    leaf = [a for a in arms if "DataSections" in up(a["pat"])]
    inner = [a for a in arms if "Nodes(" in up(a["pat"])]
    if len(leaf) != 1 or len(inner) != 1 or up(strip(leaf[0]["body"])) != "()":
        res.fail("treeOffsets/calc-shape", co, "calculate_offsets must add nothing for data sections and size up node levels")
        return
    ib = up(inner[0]["body"])
    m = re.search(r"index_offsets\[level - 1\] \+= NODEHEADER_SIZE; for (\w+) in (\w+) \{index_offsets\[level - 1\] \+= NON_LEAFNODE_SIZE; calculate_offsets\(index_offsets,&\1\.children,level - 1\);?\}", ib)
    if not m:
        res.fail("treeOffsets/calc", inner[0], "a level's size must be the sum over its nodes of NODEHEADER_SIZE + children * NON_LEAFNODE_SIZE, recursing into level-1; body: %s" % ib[:200])
        return
    res.ok(co, "level size = sum over nodes (NODEHEADER_SIZE + children * NON_LEAFNODE_SIZE), recursively per level")
    wt = ctx.ast.fn(W, "write_tree")
    t = up(wt.body)
    opt = [nm for nm, ty in wt.params if "BBIWriteOptions" in ty][0]
    BS = r"(?:%s\.block_size|rtree_block_size\(%s\))" % (opt, opt)   # the bounded helper is checked by C05-N1
    f1 = re.search(r"let (\w+): u64 = NODEHEADER_SIZE \+ NON_LEAFNODE_SIZE \* u64::from\(%s\);" % BS, t)
    f2 = re.search(r"let (\w+): u64 = NODEHEADER_SIZE \+ LEAFNODE_SIZE \* u64::from\(%s\);" % BS, t)
    if not f1 or not f2:
        res.fail("treeOffsets/full-sizes", wt, "full node sizes must be NODEHEADER_SIZE + ITEM_SIZE * block_size for both node kinds")
        return
    nl, lf = f1.group(1), f2.group(1)
    sel = re.search(r"let (\w+) = if curr_level - 1 > 0 \{%s\} else \{%s\};" % (nl, lf), t)
    if not sel:
        res.fail("treeOffsets/full-select", wt, "children are full-size NON-LEAF nodes iff the children's level (curr_level - 1) is above the leaf level, else full-size leaf nodes")
        return
    fs = sel.group(1)
    if not re.search(r"let (\w+): u64 = childnode_offset \+ idx as u64 \* %s;" % fs, t):
        res.fail("treeOffsets/child-offset", wt, "child i of a node must be at childnode_offset + i * full_size")
        return
    if not re.search(r"Ok\(children\.len\(\) as u64 \* %s\)" % fs, t):
        res.fail("treeOffsets/ret-nonleaf", wt, "a written non-leaf node must report children * full_size as the space its children occupy")
        return
    rec = re.search(r"if curr_level != dest_level \{let mut (\w+) = 0; match nodes \{.*?for (\w+) in children \{let (\w+) = write_tree\(file,&\2\.children,curr_level - 1,dest_level,childnode_offset \+ \1,%s\)\?; \1 \+= \3;?\}.*?return Ok\(\1\);?\}" % opt, t)
    if not rec:
        res.fail("treeOffsets/descend", wt, "above the destination level write_tree must descend into every child with the child-offset advanced by what the previous children reported")
        return
    res.ok(wt, "write_tree: full sizes from block_size; child offset = base + i*full(child kind); descends with accumulated offsets")
    wr = ctx.ast.fn(W, "write_rtreeindex")
    t = up(wr.body)
    if not re.search(r"let mut index_offsets: Vec<u64> = vec!\[0u64; levels( as usize)?\]; calculate_offsets\(&mut index_offsets,&nodes,levels\);", t):
        res.fail("treeOffsets/level-sizes", wr, "level sizes must be computed for `levels` levels before anything is written")
        return
    m = re.search(r"let mut (\w+) = file\.tell\(\)\?; for (\w+) in \(0\.\.=levels\)\.rev\(\) \{if \2 > 0 \{\1 \+= index_offsets\[\2 - 1\];?\} write_tree\(file,&nodes,levels,\2,\1,options\)\?;?\}", t)
    if not m:
        res.fail("treeOffsets/level-order", wr, "levels must be written from the root level down to 0, each told where the next level starts (position after the header plus the sizes of the levels above)")
        return
    tl = [c for c in calls(wr.body, method="tell")]
    ems = [c for c in walk_no_nested_fn(wr.body) if c.k == "mcall" and c["method"].startswith("write_u")]
    if len(tl) != 2 or not all(e.order < tl[1].order for e in ems):
        res.fail("treeOffsets/base", wr, "the first level must start at the position right after the 48-byte header")
        return
    res.ok(wr, "write_rtreeindex: level sizes first; levels written root -> leaves; each level's child base = end of header + sizes of the levels already placed")


def ob_node_counts(ctx, res):
    """C05-N1: the R-tree child counts the format stores in 16 bits are bounded by 65535 where they are produced"""
    from ..astq import calls
    W_ = W
    # (1) the R-tree: chunk size, full node sizes and the header's blockSize all come from one helper bounded by u16::MAX
    h = ctx.ast.fn(W_, "rtree_block_size", required=False)
    gi = ctx.ast.fn(W_, "get_rtreeindex")
    wt = ctx.ast.fn(W_, "write_tree")
    wr = ctx.ast.fn(W_, "write_rtreeindex")
    raw = []
    for f in (gi, wt, wr):
        opt = [nm for nm, ty in f.params if "BBIWriteOptions" in ty][0]
        for n in walk_no_nested_fn(f.body):
            if n.k == "field" and up(n) == "%s.block_size" % opt:
                raw.append((f, n))
    if h is None or raw:
        site = raw[0][1] if raw else gi
        res.fail("nodeCounts/rtree-unbounded", site,
                 "the number of children of an index node is written as a u16 (`len() as u16`) but nodes are cut with the unbounded u32 option block_size: with block_size > 65535 and "
                 "that many sections the count wraps (65536 one-entry blocks, block_size 65536: every query returns nothing); the block size must be capped at u16::MAX "
                 "consistently for chunking, node sizes and the header")
    else:
        hb = up(h.body).replace(" ", "")
        opt = [nm for nm, ty in h.params if "BBIWriteOptions" in ty]
        forms_hi = ("{%s.block_size.min(u16::MAXasu32)}" % opt[0] if opt else "", "{std::cmp::min(%s.block_size,u16::MAXasu32)}" % opt[0] if opt else "", "{%s.block_size.min(65535)}" % opt[0] if opt else "")
        forms_both = ("{%s.block_size.clamp(2,u16::MAXasu32)}" % opt[0] if opt else "", "{%s.block_size.max(2).min(u16::MAXasu32)}" % opt[0] if opt else "", "{%s.block_size.min(u16::MAXasu32).max(2)}" % opt[0] if opt else "")
        if opt and hb in forms_hi:
            res.fail("nodeCounts/rtree-lower-bound", h,
                     "rtree_block_size has no lower bound: with block_size 1 every level of the index has as many nodes as the one below it, so get_rtreeindex never reaches a single root "
                     "(it loops and allocates without bound); with 0, chunks(0) panics")
        elif not opt or hb not in forms_both:
            res.fail("nodeCounts/rtree-helper", h, "rtree_block_size must be options.block_size clamped to [2, u16::MAX]; got %s" % up(h.body))
        else:
            uses = {}
            for f in (gi, wt, wr):
                uses[f.name] = len([c for c in walk_no_nested_fn(f.body) if c.k == "call" and up(c["func"]) == "rtree_block_size"])
            if uses["get_rtreeindex"] < 1 or uses["write_tree"] < 2 or uses["write_rtreeindex"] < 1:
                res.fail("nodeCounts/rtree-uses", gi, "chunking, both full node sizes and the header must all use the capped block size; uses: %s" % uses)
            else:
                res.ok(h, "R-tree: chunk size, full node sizes and header blockSize = block_size clamped to [2, 65535] (uses: %s)" % uses)
    # the counts written: `X.len() as u16` where X is a chunk of the (capped) chunking, in write_tree
    cnt = [c for c in calls(wt.body, method="write_u16")]
    okc = [c for c in cnt if re.fullmatch(r"(sections|children)\.len\(\) as u16", up(strip(c["args"][0])))]
    if len(cnt) != 2 or len(okc) != 2:
        res.fail("nodeCounts/rtree-count", wt, "node counts must be the child counts of the node being written")
    else:
        res.ok(wt, "R-tree node counts are the child counts of the chunks (<= capped block size)")
    res.count("u16_counts", len(cnt))


def ob_chrom_tree_count(ctx, res):
    """C09-N2: the chromosome B+ tree is a single leaf holding every chromosome; its count is 16 bits"""
    from ..astq import calls
    W_ = W
    ct = ctx.ast.fn(W_, "write_chrom_tree")
    c16 = [c for c in calls(ct.body, method="write_u16")]
    if len(c16) != 1:
        res.fail("nodeCounts/chromtree-shape", ct, "expected one 16-bit count in write_chrom_tree")
        return
    arg = strip(c16[0]["args"][0])
    ot = origin(ct, arg)
    bounded = "min(" in ot.replace(" ", "") or "try_from" in up(arg) or "try_into" in up(arg)
    leafs = [c for c in calls(ct.body, method="write_u8")]
    multi = any(n.k in ("for", "while", "loop") and list(calls(n["body"], method="write_u16")) for n in walk_no_nested_fn(ct.body))
    if not bounded and not multi:
        res.fail("nodeCounts/chromtree-u16", c16[0],
                 "the chromosome tree is written as ONE leaf whose item count is `%s` (origin %s): with more than 65535 chromosomes the count wraps "
                 "(65537 chromosomes: the file lists 1 chromosome and every query on the others fails); needs a multi-level tree or a refusal" % (up(arg), ot))
    else:
        res.ok(ct, "chromosome tree leaf counts are bounded by 65535")


def ob_chrom_tree_key_order(ctx, res):
    """C09-N3: a B+ tree leaf must list its keys in key order; write_chrom_tree lists them in id (first-appearance) order"""
    from ..astq import calls
    ct = ctx.ast.fn(W, "write_chrom_tree")
    sorts = list(calls(ct.body, method=("sort_by_key", "sort_by", "sort", "sort_unstable_by_key", "sort_unstable_by", "sort_unstable")))
    if len(sorts) != 1:
        res.fail("chromTree/key-order-shape", ct, "expected one sort of the chromosome list")
        return
    t = up(sorts[0])
    by_key = re.search(r"sort(_unstable)?_by_key\(\|(\w+)\| \*?\2\.0", t) or re.search(r"\|(\w+),(\w+)\| \*?\1\.0(\.as_bytes\(\))?\.cmp\(&?\*?\2\.0", t) or re.fullmatch(r"\w+\.sort(_unstable)?\(\)", t)
    # a multi-level tree (loop over nodes writing u16 counts) needs key order as well; a reader returning chromosomes by id would reconcile it with C01
    if not by_key:
        res.fail("chromTree/key-order", sorts[0],
                 "the chromosome tree's leaf lists its keys in id (first-appearance) order: with chromosomes not in name order (accepted under --sorted start: `chr2 ..` then `chr1 ..`) "
                 "the keys are unsorted, which an independent B+ tree decoder (or a reader that bisects) rejects; C01's first-appearance order of chroms() "
                 "relies on exactly this order because the reader returns the leaf order")
    else:
        res.ok(sorts[0], "chromosome tree leaf written in key order")


def ob_depth_precision(ctx, res):
    """C06-P1: the running coverage depth of the bigBed sweeps is held in the f32 `value` of a `Value`"""
    BW = "bigtools/src/bbi/bigbedwrite.rs"
    st = ctx.ast.struct("bigtools/src/bbi.rs", "Value")
    vt = [f["ty"] for f in st["fields"] if f["name"] == "value"]
    pv = ctx.ast.fn(BW, "process_val")
    incs = [n for n in walk_no_nested_fn(pv.body) if n.k == "binary" and n["op"] == "+=" and up(strip(n["l"])).endswith(".value") and up(strip(n["r"])) == "1.0"]
    ov = [nm for nm, ty in pv.params if "IndexList<Value>" in ty.replace(" ", "")]
    if not vt or not incs or not ov:
        res.fail("depth/shape", pv, "depth list / increment not recognised")
        return
    if vt[0] == "f32":
        res.fail("depth/f32", incs[0],
                 "the coverage depth is counted in an f32 (`Value::value += 1.0`): above 2^24 = 16,777,216 entries over one base the count stops growing "
                 "(16,777,218 identical entries: min, max and sum come back as 16,777,216)")
    else:
        res.ok(incs[0], "coverage depth counted in %s" % vt[0])
