"""C05-F1: premises of the R-tree offset argument (level sizes, child offsets, level order)."""
from __future__ import annotations
import re
from ..astq import Node, up, strip, strip_cast, walk_no_nested_fn, calls, binding_before, upn, walk_with_callees
from ..rules.layout import origin, int_value

W = "bigtools/src/bbi/bbiwrite.rs"


def _sqo(t):
    return re.sub(r"[\s()]", "", t)


def ob_tree_offsets(ctx, res):
    co = ctx.ast.fn(W, "calculate_offsets")
    # calculate_offsets is evaluated on a small three-level tree: slot L-1 must hold, for every node on level L, its header plus one fixed-size item per child
    from ..rules.interp import Interp, NotPure

    def node(children):
        return {"__type": "RTreeNode", "children": children, "start_chrom_idx": 0, "start_base": 0, "end_chrom_idx": 0, "end_base": 0}
    leaf = ("variant", "DataSections", [["s1", "s2", "s3"]])
    mid1 = ("variant", "Nodes", [[node(leaf), node(leaf)]])
    mid2 = ("variant", "Nodes", [[node(leaf)]])
    root = ("variant", "Nodes", [[node(mid1), node(mid2), node(mid1)]])

    def method(m, recv, args):
        if isinstance(recv, list) and m in ("len", "count") and not args:
            return len(recv)
        if isinstance(recv, list) and m in ("iter", "into_iter") and not args:
            return list(recv)
        raise NotPure("method " + m)

    def binop(op, a_, b_):
        if isinstance(a_, int) and isinstance(b_, int) and op in ("+", "-", "*"):
            return a_ + b_ if op == "+" else (a_ - b_ if op == "-" else a_ * b_)
        raise NotPure("arithmetic")
    offs = [0, 0]
    try:
        Interp(ctx.ast, W, extern={"None": None, "method": method, "binop": binop}).call(co, [offs, root, 2])
    except NotPure as e:
        res.undecided("treeOffsets/calc", co, "calculate_offsets is outside the fragment the rule evaluates (%s)" % e)
        offs = None
    if offs is not None:
        NH, NL = 4, 24
        want = [(NH + NL * 2) + (NH + NL * 1) + (NH + NL * 2), NH + NL * 3]
        if offs != want:
            res.fail("treeOffsets/calc", co, "level sizes: for a root with 3 children holding 2, 1 and 2 leaf nodes the per-level sizes must be %s (slot L-1 = sum over the nodes on level L of "
                                             "NODEHEADER_SIZE + children * NON_LEAFNODE_SIZE; data sections add nothing); calculate_offsets gives %s" % (want, offs))
            return
    res.ok(co, "level size = sum over nodes (NODEHEADER_SIZE + children * NON_LEAFNODE_SIZE), recursively per level")
    wt = ctx.ast.fn(W, "write_tree")
    t = up(wt.body)
    opt = [nm for nm, ty in wt.params if "BBIWriteOptions" in ty][0]
    # full node sizes, compared in normal form (hoisted temporaries, expression-bodied helpers and operand order do not matter)
    full = {}
    for n in walk_no_nested_fn(wt.body):
        if n.k == "let" and n.get("init") is not None and n["pat"].k in ("p_ident", "p_type"):
            v = _sqo(upn(wt, n["init"]))
            for item in ("NON_LEAFNODE_SIZE", "LEAFNODE_SIZE"):
                m_ = re.fullmatch(r"(?:NODEHEADER_SIZE\+%s\*u64::from(.+)|%s\*u64::from(.+)\+NODEHEADER_SIZE|NODEHEADER_SIZE\+u64::from(.+)\*%s|u64::from(.+)\*%s\+NODEHEADER_SIZE)" % (item, item, item, item), v)
                if m_ and (item != "LEAFNODE_SIZE" or "NON_LEAFNODE_SIZE" not in v):
                    full[item] = (up(n["pat"]).split(":")[0].strip(), [g for g in m_.groups() if g][0])
    def _undecided_or_fail(role, site, msg, needles):
        txt = " ".join(up(x) for x in walk_with_callees(ctx.ast, wt) if isinstance(x, Node) and x.k in ("let", "expr_stmt"))
        if all(nd in txt for nd in needles):
            res.undecided(role, site, msg + " (all ingredients are present; their arrangement is not one the rule recognises)")
        else:
            res.fail(role, site, msg)
    if set(full) != {"NON_LEAFNODE_SIZE", "LEAFNODE_SIZE"} or full["NON_LEAFNODE_SIZE"][1] != full["LEAFNODE_SIZE"][1] or "block_size" not in full["LEAFNODE_SIZE"][1]:
        _undecided_or_fail("treeOffsets/full-sizes", wt, "full node sizes must be NODEHEADER_SIZE + ITEM_SIZE * block_size for both node kinds",
                           ["NODEHEADER_SIZE", "NON_LEAFNODE_SIZE", "LEAFNODE_SIZE", "block_size"])
        return
    nl, lf = full["NON_LEAFNODE_SIZE"][0], full["LEAFNODE_SIZE"][0]
    sel = re.search(r"let (\w+) = if (?:curr_level - 1 > 0|0 < curr_level - 1|curr_level > 1|1 < curr_level) \{%s\} else \{%s\};" % (nl, lf), t)
    if not sel:
        _undecided_or_fail("treeOffsets/full-select", wt, "children are full-size NON-LEAF nodes iff the children's level (curr_level - 1) is above the leaf level, else full-size leaf nodes",
                           [nl, lf, "curr_level"])
        return
    fs = sel.group(1)
    if not re.search(r"let (\w+): u64 = (?:childnode_offset \+ idx as u64 \* %s|idx as u64 \* %s \+ childnode_offset|childnode_offset \+ %s \* idx as u64);" % (fs, fs, fs), t):
        _undecided_or_fail("treeOffsets/child-offset", wt, "child i of a node must be at childnode_offset + i * full_size", ["childnode_offset", fs, "idx"])
        return
    if not re.search(r"Ok\((?:children\.len\(\) as u64 \* %s|%s \* children\.len\(\) as u64)\)" % (fs, fs), t):
        _undecided_or_fail("treeOffsets/ret-nonleaf", wt, "a written non-leaf node must report children * full_size as the space its children occupy", ["children.len()", fs])
        return
    rec = re.search(r"if curr_level != dest_level \{let mut (\w+) = 0; match nodes \{.*?for (\w+) in children \{let (\w+) = write_tree\(file,&\2\.children,curr_level - 1,dest_level,childnode_offset \+ \1,%s\)\?; \1 \+= \3;?\}.*?return Ok\(\1\);?\}" % opt, t)
    if not rec:
        _undecided_or_fail("treeOffsets/descend", wt, "above the destination level write_tree must descend into every child with the child-offset advanced by what the previous children reported",
                           ["write_tree(", "curr_level - 1", "childnode_offset"])
        return
    res.ok(wt, "write_tree: full sizes from block_size; child offset = base + i*full(child kind); descends with accumulated offsets")
    wr = ctx.ast.fn(W, "write_rtreeindex")
    t = up(wr.body)
    if not re.search(r"let mut index_offsets: Vec<u64> = vec!\[0u64; levels( as usize)?\]; calculate_offsets\(&mut index_offsets,&nodes,levels\);", t):
        res.fail("treeOffsets/level-sizes", wr, "level sizes must be computed for `levels` levels before anything is written")
        return
    # levels are written from the root level down to 0; before level L > 0 the running offset grows by the size of level L-1 ... i.e. by slot L-1
    lv = [n for n in walk_no_nested_fn(wr.body) if n.k == "for" and re.fullmatch(r"\(0\.\.=levels\)\.rev\(\)", up(strip(n["iter"])).replace(" ", ""))]
    okl = None
    if len(lv) == 1:
        L = up(lv[0]["pat"])
        wts = [c for c in walk_no_nested_fn(lv[0]["body"]) if c.k == "call" and up(c["func"]) == "write_tree"]
        adds = [n for n in walk_no_nested_fn(lv[0]["body"]) if n.k == "binary" and n["op"] == "+=" and strip(n["r"]).k == "index" and up(strip(strip(n["r"])["base"])) == "index_offsets"]
        if len(wts) == 1 and len(adds) == 1 and adds[0].order < wts[0].order:
            X = up(strip(adds[0]["l"]))
            ix = strip(strip(adds[0]["r"])["index"])
            g = adds[0].parent
            while g is not None and isinstance(g, Node) and g.k != "if":
                g = g.parent
            guard_ok = False
            if g is not None and g is not lv[0]:
                c = strip(g["cond"])
                if c.k == "let_expr" and up(c["pat"]).startswith("Some(") and re.fullmatch(r"%s\.checked_sub\(1\)" % re.escape(L), up(strip(c["e"]))) and up(ix) == up(c["pat"])[5:-1]:
                    guard_ok = True
                elif c.k != "let_expr" and upn(wr, c) in ("0 < %s" % L, "1 <= %s" % L, "0 != %s" % L) and upn(wr, ix) == "%s - 1" % L:
                    guard_ok = True
            b0 = binding_before(wr, X, lv[0]) if re.fullmatch(r"\w+", X) else None
            init_ok = b0 is not None and b0[0] == "let" and up(strip(b0[1]["init"])).replace("?", "").endswith(".tell()")
            args = [up(strip(a_)) for a_ in wts[0]["args"]]
            okl = guard_ok and init_ok and len(args) >= 5 and args[2] == "levels" and args[3] == L and args[4] == X
    if okl is None:
        res.undecided("treeOffsets/level-order", wr, "the loop writing the levels from the root down was not recognised")
    elif not okl:
        res.fail("treeOffsets/level-order", wr, "levels must be written from the root level down to 0, each told where the next level starts (position after the header plus the sizes of the levels above)")
        return
    tl = [c for c in calls(wr.body, method="tell")]
    ems = [c for c in walk_no_nested_fn(wr.body) if c.k == "mcall" and c["method"].startswith("write_u")]
    if len(tl) != 2 or not all(e.order < tl[1].order for e in ems):
        res.fail("treeOffsets/base", wr, "the first level must start at the position right after the 48-byte header")
        return
    res.ok(wr, "write_rtreeindex: level sizes first; levels written root -> leaves; each level's child base = end of header + sizes of the levels already placed")


def ob_node_counts(ctx, res):
    """C05-N1: the R-tree child counts the format stores in 16 bits are bounded by 65535 where they are produced"""
    from ..astq import calls
    W_ = W
    # (1) the R-tree: the chunk size, both full node sizes and the header's blockSize are, in normal form (helpers inlined), one and the same
    #     expression: the block_size option clamped to [2, u16::MAX]
    gi = ctx.ast.fn(W_, "get_rtreeindex")
    wt = ctx.ast.fn(W_, "write_tree")
    wr = ctx.ast.fn(W_, "write_rtreeindex")

    from ..rules.interp import Interp, NotPure

    def ev_site(fn_, e, v):
        opt = [nm for nm, ty in fn_.params if "BBIWriteOptions" in ty][0]

        def binop(op, a_, b_):
            if isinstance(a_, int) and isinstance(b_, int) and not isinstance(a_, bool) and op in ("+", "-", "*"):
                return a_ + b_ if op == "+" else (a_ - b_ if op == "-" else a_ * b_)
            raise NotPure("arithmetic " + op)
        it = Interp(ctx.ast, W_, extern={"None": None, "binop": binop})
        from ..astq import binding_before

        class _LetEnv(dict):
            """locals of fn_ bound by an immutable `let` are evaluated on demand from their initialiser"""
            def __contains__(self, k):
                return dict.__contains__(self, k) or self._let(k) is not None

            def _let(self, k):
                b_ = binding_before(fn_, k, strip(e)) if re.fullmatch(r"\w+", k) else None
                return b_[1] if b_ is not None and b_[0] == "let" and b_[-1] == () and b_[1].get("init") is not None and not b_[1]["pat"].get("mut") else None

            def __missing__(self, k):
                l_ = self._let(k)
                if l_ is None:
                    raise KeyError(k)
                val = it.ev(l_["init"], self, 0)
                self[k] = val
                return val
        env = _LetEnv({opt: {"__ref": True, "block_size": v, "items_per_slot": 1024}})
        return it.ev(_tnorm_site(fn_, e), env, 0)

    def _tnorm_site(fn_, e):
        from ..astq import _tnorm
        return _tnorm(fn_, e)       # hoisted temporaries (`let block_size = u64::from(rtree_block_size(options))`) inlined; helpers with statements are left as calls
    sites = []
    for c in walk_no_nested_fn(gi.body):
        if c.k == "mcall" and c["method"] == "chunks" and len(c["args"]) == 1:
            sites.append(("get_rtreeindex (chunk size)", gi, c["args"][0], lambda cs: cs))
    for n in walk_no_nested_fn(wt.body):
        if n.k == "let" and n.get("init") is not None and "NODEHEADER_SIZE" in upn(wt, n["init"]) and "LEAFNODE_SIZE" in upn(wt, n["init"]):
            kind = "NON_LEAFNODE_SIZE" in upn(wt, n["init"])
            sites.append(("write_tree (full %s node size)" % ("non-leaf" if kind else "leaf"), wt, n["init"], (lambda cs: 4 + 24 * cs) if kind else (lambda cs: 4 + 32 * cs)))
    for c in calls(wr.body, method="write_u32"):
        if "block_size" in upn(wr, c["args"][0]):
            sites.append(("write_rtreeindex (header blockSize)", wr, c["args"][0], lambda cs: cs))
    kinds = {s_[0].split(" (")[0] for s_ in sites}
    if kinds != {"get_rtreeindex", "write_tree", "write_rtreeindex"} or len(sites) < 4:
        res.undecided("nodeCounts/rtree-uses", gi, "could not locate the block size at every use (chunking, both full node sizes, header): found %s" % sorted(s_[0] for s_ in sites))
    else:
        verdict = None
        for v in (0, 1, 2, 3, 256, 65535, 65536, 200000):
            cs = min(max(v, 2), 65535)
            for what, fn_, e, ref in sites:
                try:
                    got = ev_site(fn_, e, v)
                except NotPure as x:
                    verdict = ("undecided", what, str(x))
                    break
                if got != ref(cs):
                    verdict = ("differs", what, v, got, ref(cs), fn_, e)
                    break
            if verdict:
                break
        if verdict is None:
            res.ok(gi, "R-tree: chunk size, both full node sizes and the header blockSize evaluated for block_size in {0,1,2,3,256,65535,65536,200000}: all use block_size clamped to [2, 65535]")
        elif verdict[0] == "undecided":
            res.undecided("nodeCounts/rtree-uses", gi, "%s: block size expression not evaluated (%s)" % (verdict[1], verdict[2]))
        else:
            _, what, v, got, want, fn_, e = verdict
            if v > 65535:
                res.fail("nodeCounts/rtree-unbounded", e,
                         "%s uses %s for options.block_size = %d (required %s): the number of children of an index node is written as a u16 (`len() as u16`); with block_size > 65535 and "
                         "that many sections the count wraps (65536 one-entry blocks, block_size 65536: every query returns nothing); the block size must be capped at u16::MAX "
                         "consistently for chunking, node sizes and the header" % (what, got, v, want))
            elif v < 2:
                res.fail("nodeCounts/rtree-lower-bound", e,
                         "%s uses %s for options.block_size = %d (required %s): with block_size 1 every level of the index has as many nodes as the one below it, so get_rtreeindex never "
                         "reaches a single root (it loops and allocates without bound); with 0, chunks(0) panics" % (what, got, v, want))
            else:
                res.fail("nodeCounts/rtree-uses", e, "%s uses %s for options.block_size = %d, required %s: chunking, the full node sizes and the header's blockSize must use one and the same block size" % (what, got, v, want))
    # the counts written: `X.len() as u16` where X is a chunk of the (capped) chunking, in write_tree
    cnt = [c for c in calls(wt.body, method="write_u16")]
    okc = [c for c in cnt if re.fullmatch(r"(sections|children)\.len\(\) as u16", up(strip(c["args"][0])))]
    if len(cnt) != 2 or len(okc) != 2:
        res.fail("nodeCounts/rtree-count", wt, "node counts must be the child counts of the node being written")
    else:
        res.ok(wt, "R-tree node counts are the child counts of the chunks (<= capped block size)")
    res.count("u16_counts", len(cnt))


def ob_chrom_tree_count(ctx, res):
    """C09-N2: the chromosome B+ tree is a single leaf holding every chromosome; its count is 16 bits"""
    from ..astq import calls
    W_ = W
    ct = ctx.ast.fn(W_, "write_chrom_tree")
    c16 = [c for c in calls(ct.body, method="write_u16")]
    if len(c16) != 1:
        res.fail("nodeCounts/chromtree-shape", ct, "expected one 16-bit count in write_chrom_tree")
        return
    arg = strip(c16[0]["args"][0])
    ot = origin(ct, arg)
    bounded = "min(" in ot.replace(" ", "") or "try_from" in up(arg) or "try_into" in up(arg)
    leafs = [c for c in calls(ct.body, method="write_u8")]
    multi = any(n.k in ("for", "while", "loop") and list(calls(n["body"], method="write_u16")) for n in walk_no_nested_fn(ct.body))
    if not bounded and not multi:
        res.fail("nodeCounts/chromtree-u16", c16[0],
                 "the chromosome tree is written as ONE leaf whose item count is `%s` (origin %s): with more than 65535 chromosomes the count wraps "
                 "(65537 chromosomes: the file lists 1 chromosome and every query on the others fails); needs a multi-level tree or a refusal" % (up(arg), ot))
    else:
        res.ok(ct, "chromosome tree leaf counts are bounded by 65535")


def ob_chrom_tree_key_order(ctx, res):
    """C09-N3: a B+ tree leaf must list its keys in key order; write_chrom_tree lists them in id (first-appearance) order"""
    from ..astq import calls
    ct = ctx.ast.fn(W, "write_chrom_tree")
    sorts = list(calls(ct.body, method=("sort_by_key", "sort_by", "sort", "sort_unstable_by_key", "sort_unstable_by", "sort_unstable")))
    if len(sorts) != 1:
        res.fail("chromTree/key-order-shape", ct, "expected one sort of the chromosome list")
        return
    t = up(sorts[0])
    by_key = re.search(r"sort(_unstable)?_by_key\(\|(\w+)\| \*?\2\.0", t) or re.search(r"\|(\w+),(\w+)\| \*?\1\.0(\.as_bytes\(\))?\.cmp\(&?\*?\2\.0", t) or re.fullmatch(r"\w+\.sort(_unstable)?\(\)", t)
    # a multi-level tree (loop over nodes writing u16 counts) needs key order as well; a reader returning chromosomes by id would reconcile it with C01
    if not by_key:
        res.fail("chromTree/key-order", sorts[0],
                 "the chromosome tree's leaf lists its keys in id (first-appearance) order: with chromosomes not in name order (accepted under --sorted start: `chr2 ..` then `chr1 ..`) "
                 "the keys are unsorted, which an independent B+ tree decoder (or a reader that bisects) rejects; C01's first-appearance order of chroms() "
                 "relies on exactly this order because the reader returns the leaf order")
    else:
        res.ok(sorts[0], "chromosome tree leaf written in key order")


def ob_depth_precision(ctx, res):
    """C06-P1: the running coverage depth of the bigBed sweeps is held in the f32 `value` of a `Value`"""
    BW = "bigtools/src/bbi/bigbedwrite.rs"
    st = ctx.ast.struct("bigtools/src/bbi.rs", "Value")
    vt = [f["ty"] for f in st["fields"] if f["name"] == "value"]
    pv = ctx.ast.fn(BW, "process_val")
    incs = [n for n in walk_no_nested_fn(pv.body) if n.k == "binary" and n["op"] == "+=" and up(strip(n["l"])).endswith(".value") and up(strip(n["r"])) == "1.0"]
    ov = [nm for nm, ty in pv.params if "IndexList<Value>" in ty.replace(" ", "")]
    if not vt or not incs or not ov:
        res.fail("depth/shape", pv, "depth list / increment not recognised")
        return
    if vt[0] == "f32":
        res.fail("depth/f32", incs[0],
                 "the coverage depth is counted in an f32 (`Value::value += 1.0`): above 2^24 = 16,777,216 entries over one base the count stops growing "
                 "(16,777,218 identical entries: min, max and sum come back as 16,777,216)")
    else:
        res.ok(incs[0], "coverage depth counted in %s" % vt[0])
