"""C05-F1: premises of the R-tree offset argument (level sizes, child offsets, level order)."""
from __future__ import annotations
import re
from ..astq import Node, up, strip, strip_cast, walk_no_nested_fn, calls, binding_before
from ..rules.layout import origin, int_value

W = "bigtools/src/bbi/bbiwrite.rs"


def ob_tree_offsets(ctx, res):
    co = ctx.ast.fn(W, "calculate_offsets")
    t = up(co.body)
    arms = [n for n in walk_no_nested_fn(co.body) if n.k == "arm"]
    leaf = [a for a in arms if "DataSections" in up(a["pat"])]
    inner = [a for a in arms if "Nodes(" in up(a["pat"])]
    if len(leaf) != 1 or len(inner) != 1 or up(strip(leaf[0]["body"])) != "()":
        res.fail("treeOffsets/calc-shape", co, "calculate_offsets must add nothing for data sections and size up node levels")
        return
    ib = up(inner[0]["body"])
    m = re.search(r"index_offsets\[level - 1\] \+= NODEHEADER_SIZE; for (\w+) in (\w+) \{index_offsets\[level - 1\] \+= NON_LEAFNODE_SIZE; calculate_offsets\(index_offsets,&\1\.children,level - 1\);?\}", ib)
    if not m:
        res.fail("treeOffsets/calc", inner[0], "a level's size must be the sum over its nodes of NODEHEADER_SIZE + children * NON_LEAFNODE_SIZE, recursing into level-1; body: %s" % ib[:200])
        return
    res.ok(co, "level size = sum over nodes (NODEHEADER_SIZE + children * NON_LEAFNODE_SIZE), recursively per level")
    wt = ctx.ast.fn(W, "write_tree")
    t = up(wt.body)
    opt = [nm for nm, ty in wt.params if "BBIWriteOptions" in ty][0]
    f1 = re.search(r"let (\w+): u64 = NODEHEADER_SIZE \+ NON_LEAFNODE_SIZE \* u64::from\(%s\.block_size\);" % opt, t)
    f2 = re.search(r"let (\w+): u64 = NODEHEADER_SIZE \+ LEAFNODE_SIZE \* u64::from\(%s\.block_size\);" % opt, t)
    if not f1 or not f2:
        res.fail("treeOffsets/full-sizes", wt, "full node sizes must be NODEHEADER_SIZE + ITEM_SIZE * block_size for both node kinds")
        return
    nl, lf = f1.group(1), f2.group(1)
    sel = re.search(r"let (\w+) = if curr_level - 1 > 0 \{%s\} else \{%s\};" % (nl, lf), t)
    if not sel:
        res.fail("treeOffsets/full-select", wt, "children are full-size NON-LEAF nodes iff the children's level (curr_level - 1) is above the leaf level, else full-size leaf nodes")
        return
    fs = sel.group(1)
    if not re.search(r"let (\w+): u64 = childnode_offset \+ idx as u64 \* %s;" % fs, t):
        res.fail("treeOffsets/child-offset", wt, "child i of a node must be at childnode_offset + i * full_size")
        return
    if not re.search(r"Ok\(children\.len\(\) as u64 \* %s\)" % fs, t):
        res.fail("treeOffsets/ret-nonleaf", wt, "a written non-leaf node must report children * full_size as the space its children occupy")
        return
    rec = re.search(r"if curr_level != dest_level \{let mut (\w+) = 0; match nodes \{.*?for (\w+) in children \{let (\w+) = write_tree\(file,&\2\.children,curr_level - 1,dest_level,childnode_offset \+ \1,%s\)\?; \1 \+= \3;?\}.*?return Ok\(\1\);?\}" % opt, t)
    if not rec:
        res.fail("treeOffsets/descend", wt, "above the destination level write_tree must descend into every child with the child-offset advanced by what the previous children reported")
        return
    res.ok(wt, "write_tree: full sizes from block_size; child offset = base + i*full(child kind); descends with accumulated offsets")
    wr = ctx.ast.fn(W, "write_rtreeindex")
    t = up(wr.body)
    if not re.search(r"let mut index_offsets: Vec<u64> = vec!\[0u64; levels( as usize)?\]; calculate_offsets\(&mut index_offsets,&nodes,levels\);", t):
        res.fail("treeOffsets/level-sizes", wr, "level sizes must be computed for `levels` levels before anything is written")
        return
    m = re.search(r"let mut (\w+) = file\.tell\(\)\?; for (\w+) in \(0\.\.=levels\)\.rev\(\) \{if \2 > 0 \{\1 \+= index_offsets\[\2 - 1\];?\} write_tree\(file,&nodes,levels,\2,\1,options\)\?;?\}", t)
    if not m:
        res.fail("treeOffsets/level-order", wr, "levels must be written from the root level down to 0, each told where the next level starts (position after the header plus the sizes of the levels above)")
        return
    tl = [c for c in calls(wr.body, method="tell")]
    ems = [c for c in walk_no_nested_fn(wr.body) if c.k == "mcall" and c["method"].startswith("write_u")]
    if len(tl) != 2 or not all(e.order < tl[1].order for e in ems):
        res.fail("treeOffsets/base", wr, "the first level must start at the position right after the 48-byte header")
        return
    res.ok(wr, "write_rtreeindex: level sizes first; levels written root -> leaves; each level's child base = end of header + sizes of the levels already placed")
