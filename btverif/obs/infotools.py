"""C06-I1: the info tools report the stored summary (label -> expression table, identical derivations in both tools)."""
from __future__ import annotations
import re
from ..astq import Node, up, strip, strip_cast, walk_no_nested_fn, upn

WI = "bigtools/src/utils/cli/bigwiginfo.rs"
BI = "bigtools/src/utils/cli/bigbedinfo.rs"


def _canon(t):
    """the summary's statistics named by field, whether they are read as `summary.sum` or from locals destructured out of the summary"""
    return re.sub(r"\bsummary\.(?=bases_covered|min_val|max_val|sum_squares|sum|total_items)", "", t)


def _prints(fn):
    out = {}
    for n in walk_no_nested_fn(fn.body):
        if n.k == "macro" and n["path"] == "println" and "args" in n and n["args"] and n["args"][0].k == "lit":
            fmt = n["args"][0]["v"]
            m = re.match(r"^([\w ]+): \{", fmt)
            if m:
                out[m.group(1)] = (fmt, [re.sub(r"[\s()]", "", _canon(upn(fn, a))) for a in n["args"][1:]], n)     # normal form: temporaries inlined
    return out


def ob_info_tools(ctx, res):
    a = _prints(ctx.ast.fn(WI, "print_info", inline=True, keep=("num_with_commas",)))
    b = _prints(ctx.ast.fn(BI, "print_info", inline=True, keep=("num_with_commas",)))
    want = {
        "basesCovered": ["num_with_commasbases_covered"],
        "mean": ["sum/bases_coveredasf64"],
        "min": ["min_val"], "max": ["max_val"],
    }
    alias = {"mean": "meanDepth", "min": "minDepth", "max": "maxDepth", "basesCovered": "basesCovered"}
    ok = True
    for label, args in want.items():
        for tool, pr, lab in (("bigwiginfo", a, label), ("bigbedinfo", b, alias[label])):
            if lab not in pr:
                res.fail("info/%s/%s/missing" % (tool, label), WI if tool == "bigwiginfo" else BI, "%s does not print `%s`" % (tool, lab))
                ok = False
            elif pr[lab][1] != args:
                res.fail("info/%s/%s" % (tool, label), pr[lab][2], "%s prints `%s` from `%s`, expected `%s` of the stored summary" % (tool, lab, pr[lab][1], args))
                ok = False
    # variance / std derivation identical in both and of the textbook form (sumsq - sum^2/n)/(n-1)
    texts = []
    for file in (WI, BI):
        fn = ctx.ast.fn(file, "print_info")
        gs = [n for n in walk_no_nested_fn(fn.body) if n.k == "let" and n.get("init") is not None and up(n["init"]).endswith(".get_summary()?")]
        if len(gs) != 1:
            res.fail("info/%s/derivation" % file.split("/")[-1], fn, "the summary printed must come from get_summary()")
            ok = False
            continue
        pr = a if file == WI else b
        lab = "std" if file == WI else "std of depth"
        if lab not in pr:
            res.fail("info/%s/std/missing" % file.split("/")[-1], fn, "`%s` is not printed" % lab)
            ok = False
            continue
        v = pr[lab][1][0] if pr[lab][1] else ""
        n_ = "bases_coveredasf64"
        accepted = {"sum_squares-sum*sum/%s/%s-1.0.sqrt" % (n_, n_), "sum_squares-sum*sum/%s/-1.0+%s.sqrt" % (n_, n_)}
        if v not in accepted and "sum_squares" not in v:
            res.undecided("info/%s/variance" % file.split("/")[-1], pr[lab][2], "how the printed standard deviation `%s` is derived from the summary was not followed" % v[:60])
        elif v not in accepted:
            res.fail("info/%s/variance" % file.split("/")[-1], pr[lab][2], "std must be sqrt((sumSquares - sum*sum/n) / (n - 1)); printed value is `%s` in normal form" % v)
            ok = False
        texts.append(v)
    # bigwiginfo --minmax, bigbedinfo itemCount
    mm = [n for n in walk_no_nested_fn(ctx.ast.fn(WI, "print_info").body) if n.k == "macro" and n["path"] == "println" and "args" in n and n["args"][0].k == "lit" and n["args"][0]["v"] == "{:.6} {:.6}"]
    if len(mm) != 1 or [_canon(up(strip(x))) for x in mm[0]["args"][1:]] != ["min_val", "max_val"]:
        res.fail("info/bigwiginfo/minmax", WI, "--minmax must print the stored minimum then maximum")
        ok = False
    if "itemCount" not in b or b["itemCount"][1] != ["bigbed.item_count?"]:
        res.fail("info/bigbedinfo/itemCount", BI, "itemCount must be read with item_count()")
        ok = False
    # region sizes are differences of header offsets: only meaningful (and only computable) for the usual region order
    for tool, file in (("bigwiginfo", WI), ("bigbedinfo", BI)):
        fn = ctx.ast.fn(file, "print_info")
        raw = [n for n in walk_no_nested_fn(fn.body) if n.k == "binary" and n["op"] == "-" and re.search(r"\.(full_index_offset|full_data_offset|index_offset|data_offset)\b", up(n))]
        chk = [n for n in walk_no_nested_fn(fn.body) if n.k == "mcall" and n["method"] == "checked_sub" and re.search(r"header\.(full_index_offset|full_data_offset)", up(n))]
        if raw:
            res.fail("info/%s/region-sizes" % tool, raw[0],
                     "`%s` subtracts file offsets assuming the usual region order (data, index, zoom data; each zoom level's data before its index): on a valid file laid out differently it underflows - "
                     "a panic before anything else is printed; compute the size only when it exists (checked_sub)" % up(raw[0]))
            ok = False
        elif len(chk) < 2:
            res.fail("info/%s/region-sizes-missing" % tool, fn, "primaryDataSize / primaryIndexSize not found")
            ok = False
    if ok:
        res.ok(WI, "both tools: primaryDataSize / primaryIndexSize are printed only when the offsets allow (checked_sub)")
    if ok:
        res.ok(WI, "bigwiginfo: basesCovered/mean/min/max/std from get_summary() (mean = sum/bases, std = sqrt((sumsq - sum^2/n)/(n-1))); --minmax prints min max")
        res.ok(BI, "bigbedinfo: same derivations under the *Depth labels; itemCount from item_count()")
