"""Zoom tiling loops (C07-S1/B1) and bigBed depth sweeps (C06-S1): clause-wise normal form on both siblings,
with the arithmetic-free parts decided by exhaustive case analysis (R-CASES)."""
from __future__ import annotations
import re
from ..astq import Node, up, strip, strip_cast, walk_no_nested_fn, calls, dominates, binding_before, stmt_of, _tnorm
from ..rules.layout import origin
from ..rules.pred import weak_orders, order_str, Pred
from ..rules.interp import Interp, NotPure
from .preds import _eq_node

WW = "bigtools/src/bbi/bigwigwrite.rs"
BW = "bigtools/src/bbi/bigbedwrite.rs"


def _let(fn, name, at):
    b = binding_before(fn, name, at)
    return b[1] if b is not None and b[0] == "let" else None


def _minmax(n, which):
    """arguments of min(a, b) / std::cmp::min(a, b) / a.min(b) (or max), else None"""
    n = strip(n)
    if n.k == "call" and up(n["func"]).split("::")[-1] == which and len(n["args"]) == 2:
        return list(n["args"])
    if n.k == "mcall" and n["method"] == which and len(n["args"]) == 1:
        return [n["recv"], n["args"][0]]
    return None


def _tiling(ctx, res, fn, what, val_start_ok, val_end_ok):
    loops = [n for n in walk_no_nested_fn(fn.body) if n.k == "loop"]
    if len(loops) != 1:
        res.fail(what + "/loop", fn, "expected one tiling `loop`, found %d" % len(loops))
        return
    lp = loops[0]
    body = lp["body"]
    # (a) next_end = record.start + size
    def _ne_parts(n):
        i = strip(n["init"]) if n.k == "let" and n.get("init") is not None else None
        if i is None:
            return None
        if i.k == "binary" and i["op"] == "+":
            l, r, sat = up(strip(i["l"])), up(strip(i["r"])), False
        elif i.k == "mcall" and i["method"] in ("saturating_add",) and len(i["args"]) == 1:
            l, r, sat = up(strip(i["recv"])), up(strip(i["args"][0])), True
        else:
            return None
        return (l, r, sat) if l.endswith(".start") and r.endswith(".size") else None
    ne = [n for n in walk_no_nested_fn(body) if _ne_parts(n)]
    if len(ne) != 1:
        res.fail(what + "/next_end", lp, "`next_end = record.start + zoom.size` not found")
        return
    next_end = up(ne[0]["pat"])
    rec = _ne_parts(ne[0])[0][:-len(".start")]
    if not _ne_parts(ne[0])[2]:
        res.fail(what + "/next_end-overflow", ne[0],
                 "`%s` is a plain u32 addition of a coordinate and a resolution: for a record starting within one resolution of u32::MAX it overflows "
                 "(panic with overflow checks, otherwise the cursor never advances and the write hangs); it must saturate" % up(strip(ne[0]["init"])))
        return
    # (b) add_end = min(next_end, value_end)
    ae = [n for n in walk_no_nested_fn(body) if n.k == "let" and n.get("init") is not None and _minmax(n["init"], "min") is not None]
    if len(ae) != 1:
        res.undecided(what + "/add_end", lp, "`add_end = min(next_end, value_end)` not found as one `let`: tiling clauses not decided") if not ae else \
            res.fail(what + "/add_end", lp, "`add_end = min(next_end, value_end)` not found")
        return
    add_end = up(ae[0]["pat"])
    margs = [up(strip(a)) for a in _minmax(ae[0]["init"], "min")]
    if next_end not in margs or len(margs) != 2:
        res.fail(what + "/add_end-args", ae[0], "add_end must be min(next_end, value end); got min(%s)" % ",".join(margs))
        return
    vend = [a for a in margs if a != next_end][0]
    if not val_end_ok(fn, vend, ae[0]):
        res.fail(what + "/add_end-valend", ae[0], "add_end must be bounded by the end of the value/segment being added; bounded by `%s`" % vend)
        return
    # add_start: `let mut add_start = value_start` before the loop, exactly one assignment inside
    asg = [n for n in walk_no_nested_fn(body) if n.k == "assign" and strip(n["l"]).k == "path"]
    asg = [a for a in asg if _let(fn, up(strip(a["l"])), lp) is not None and _let(fn, up(strip(a["l"])), lp).order < lp.order]
    cands = {}
    for a in asg:
        cands.setdefault(up(strip(a["l"])), []).append(a)
    add_start = None
    for nm, lst in cands.items():
        l = _let(fn, nm, lp)
        if l is not None and l["pat"].k == "p_ident" and l["pat"]["mut"]:
            add_start = nm
    if add_start is None or len(cands.get(add_start, [])) != 1:
        res.fail(what + "/add_start", lp, "cursor `add_start` must be initialised before the loop and advanced exactly once per iteration")
        return
    a0 = cands[add_start][0]
    vstart = up(strip(_let(fn, add_start, lp)["init"]))
    if not val_start_ok(fn, vstart, lp):
        res.fail(what + "/add_start-init", _let(fn, add_start, lp), "cursor must start at the start of the value/segment being added; starts at `%s`" % vstart)
        return
    # (c) the record is updated exactly when the value overlaps it.  Inside the loop body add_start < value end (the exit test), so the
    #     value overlaps the live record [rec.start, next_end) iff add_start < next_end.  Decided over all order types of
    #     (add_start, next_end, value end) with add_end = min(next_end, value end).  `add_end >= add_start` is NOT equivalent: it also
    #     admits add_start == next_end (a value starting exactly where the record's span ends, after a gap), which would fold that
    #     value's min/max into a record it does not touch and stretch the record's end.
    upd = [n for n in walk_no_nested_fn(body) if n.k == "binary" and n["op"] == "+=" and up(strip(n["l"])).endswith(".summary.bases_covered")]
    gi = []
    if len(upd) == 1:
        x = upd[0].parent
        while x is not None and isinstance(x, Node) and x is not body:
            if x.k == "if" and _inside(upd[0], x["then"]):
                gi.append(x)
            x = x.parent
    if len(upd) != 1 or len(gi) != 1:
        res.fail(what + "/guard", lp, "the record update (bases_covered += ..) must sit under exactly one guard inside the loop")
        return
    try:
        gp = Pred(gi[0]["cond"])
    except Exception as e:
        res.fail(what + "/guard", gi[0], "guard is not a pure comparison: %s" % e)
        return
    roles = {add_end: "ae", add_start: "as", next_end: "ne", vend: "ve"}
    if gp.atoms or any(t not in roles for t in gp.terms):
        res.fail(what + "/guard", gi[0], "guard `%s` uses terms other than the cursor, add_end, the record's span end and the value end" % up(gi[0]["cond"]))
        return
    rows = 0
    for ranks in weak_orders(3):
        v = dict(zip(["as", "ne", "ve"], ranks))
        if not v["as"] < v["ve"]:
            continue
        v["ae"] = min(v["ne"], v["ve"])
        env = {t: v[roles[t]] for t in gp.terms}
        got = gp.eval(env, {})
        want = v["as"] < v["ne"]
        rows += 1
        if got != want:
            o = order_str({k: v[k] for k in ("as", "ne", "ve")}).replace("as", add_start).replace("ne", next_end).replace("ve", vend)
            if got and not want:
                res.fail(what + "/guard-overlap", gi[0],
                         "guard `%s` admits a value that does not overlap the live record (%s): a value starting exactly at the end of the record's span "
                         "(after a gap) is folded into that record's min/max/item count with zero bases and stretches its end" % (up(gi[0]["cond"]), o))
            else:
                res.fail(what + "/guard-overlap", gi[0], "guard `%s` skips a value that overlaps the live record (%s): its bases are lost from the zoom level" % (up(gi[0]["cond"]), o))
            return
    res.ok(gi[0], "record updated iff the value overlaps it (%s < %s), decided over %d order types" % (add_start, next_end, rows))
    # (d) close record when add_end == next_end
    ci = [n for n in walk_no_nested_fn(body) if n.k == "if" and up(strip(n["cond"])).replace(" ", "") in ("%s==%s" % (add_end, next_end), "%s==%s" % (next_end, add_end))]
    if len(ci) != 1 or not list(calls(ci[0]["then"], method="push")) or "live_info.take()" not in up(ci[0]["then"]).replace(" ", ""):
        res.fail(what + "/close", lp, "a record must be closed (live_info.take() pushed to records) exactly when add_end == next_end")
        return
    if not (gi[0].order < ci[0].order < a0.order):
        res.fail(what + "/order", lp, "iteration order must be: add -> close record -> advance cursor")
        return
    # (e) add_start = max(add_end, value_start): decided over all order types of (add_end, value_start)
    p = Pred(_eq_node(a0["r"]))
    bad = None
    roles = {add_end: "ae", vstart: "vs"}
    for t in p.terms:
        if t not in roles:
            bad = "term `%s` (expected only %s and %s)" % (t, add_end, vstart)
    if bad is None:
        for ranks in weak_orders(2):
            v = dict(zip(["ae", "vs"], ranks))
            env = {t: v[roles[t]] for t in p.terms}
            got = p._val(a0["r"], env)
            if got != max(v["ae"], v["vs"]):
                bad = "when %s the cursor becomes %s" % (order_str(v).replace("ae", add_end).replace("vs", vstart),
                                                         add_end if got == v["ae"] else vstart)
                break
    if bad:
        res.fail(what + "/advance", a0,
                 "cursor update `%s` is not max(%s, %s): %s, i.e. the next record starts BEFORE the value does (inside a gap longer than "
                 "the resolution) and bases without data are counted as covered" % (up(a0), add_end, vstart, bad))
    else:
        res.ok(a0, "cursor: %s = max(%s, %s) (never before the value's own start)" % (add_start, add_end, vstart))
    # C07-B1: record.end assigned only add_end (<= record.start + size)
    ends = [n for n in walk_no_nested_fn(body) if n.k == "assign" and up(strip(n["l"])) == rec + ".end"]
    if len(ends) != 1 or up(strip(ends[0]["r"])) != add_end:
        res.fail(what + "/rec-end", lp, "record end may only be set to add_end (<= record.start + resolution)")
    else:
        res.ok(ends[0], "record.end <- add_end = min(record.start + size, value end): at most one resolution long")
    # (f) ship a block when records.len() == items_per_slot ; (g) exit + end-of-chromosome close and ship
    ships = [n for n in walk_no_nested_fn(body) if n.k == "if" and list(calls(n["then"], func="encode_zoom_section")) and
             not any(m.k == "if" and list(calls(m["then"], func="encode_zoom_section")) for m in walk_no_nested_fn(n["then"]) if m is not n)]
    full_ok = eoc_ok = False
    for sh in ships:
        ds = _disjuncts(strip(sh["cond"]))
        tk = [c for c in walk_no_nested_fn(sh["then"]) if c.k == "call" and up(c["func"]).endswith("mem::take")]
        en = list(calls(sh["then"], func="encode_zoom_section"))
        sd = list(calls(sh["then"], method="send"))
        if len(tk) != 1 or len(en) != 1 or len(sd) != 1 or "records" not in up(tk[0]["args"][0]) or not origin(fn, en[0]["args"][0]).endswith(".compress"):
            res.fail(what + "/ship-body", sh, "shipping must take all records, encode them with options.compress and send the handle")
            return
        for d in ds:
            t = up(d).replace(" ", "")
            if re.fullmatch(r"\w+\.records\.len\(\)==\w+\.items_per_slotasusize", t):
                full_ok = True
            if "records.is_empty()" in t and "!" in t:
                # end of chromosome: either in this disjunct or in an enclosing `if next_val.is_none()`
                encl = " ".join(up(a["cond"]) for a in _if_ancestors(sh)).replace(" ", "")
                if "next_val.is_none()" in t or "next_val.is_none()" in encl:
                    eoc_ok = True
    if not full_ok:
        res.fail(what + "/ship", lp, "a zoom block must be shipped when records.len() == items_per_slot")
        return
    if not eoc_ok:
        res.fail(what + "/eoc-ship", lp, "remaining records must be shipped at the end of the chromosome (no next value, records not empty)")
        return
    from ..astq import upn
    ex = [n for n in walk_no_nested_fn(body) if n.k == "if" and upn(fn, n["cond"]) == "%s <= %s" % (vend, add_start) and "break" in up(n["then"])]
    if len(ex) != 1:
        res.fail(what + "/exit", lp, "loop must exit when add_start >= value end")
        return
    ext = up(ex[0]["then"]).replace(" ", "")
    if "next_val.is_none()" not in ext or "live_info.take()" not in ext:
        res.fail(what + "/eoc", ex[0], "at the end of the chromosome (no next value) the live record must be closed")
        return
    res.ok(lp, "tiling loop clauses: next_end=rec.start+size; add_end=min(next_end,value end); add iff the value overlaps the record; close iff add_end==next_end; "
               "ship at items_per_slot; exit at add_start>=value end with end-of-chromosome close+ship")


def _disjuncts(n):
    n = strip(n)
    if isinstance(n, Node) and n.k == "binary" and n["op"] == "||":
        return _disjuncts(n["l"]) + _disjuncts(n["r"])
    return [n]


def _if_ancestors(n):
    out = []
    p = n.parent
    while p is not None and isinstance(p, Node):
        if p.k == "if":
            out.append(p)
        p = p.parent
    return out


def _inside(n, anc):
    p = n
    while p is not None and isinstance(p, Node):
        if p is anc:
            return True
        p = p.parent
    return False


def ob_wig_tiling(ctx, res):
    fn = ctx.ast.fn(WW, "process_val_zoom", inline=True, keep=("encode_zoom_section",))
    cur = [i for i, (nm, ty) in enumerate(fn.params) if ty == "Value"]
    if len(cur) != 1:
        res.fail("wigTiling/sig", fn, "signature not recognised")
        return
    P = "p%d" % cur[0]
    _tiling(ctx, res, fn, "wigTiling",
            lambda f, s, at: origin(f, _mk(f, s, at)) == P + ".start" if False else s.endswith(".start") and s.split(".")[0] == fn.params[cur[0]][0],
            lambda f, s, at: s.endswith(".end") and s.split(".")[0] == fn.params[cur[0]][0])


def _mk(f, s, at):
    return None


def ob_bed_tiling(ctx, res):
    fn = ctx.ast.fn(BW, "process_val_zoom", inline=True, keep=("encode_zoom_section",))

    def seg_bound(which):
        def ok(f, s, at):
            # removed_start / removed_end come from the tuple `(removed_start, removed_end) = if removed.end <= next_start {(removed.start, removed.end)} else {.. (start, next_start)}`
            l = _let(f, s, at)
            if l is None or l["pat"].k != "p_tuple":
                return False
            names = [up(e) for e in l["pat"]["elems"]]
            init = strip(l["init"])
            if init.k != "if" or len(names) != 2 or s not in names:
                return False
            m = re.match(r"if (\w+)\.end <= (\w+) \{\((\w+)\.start,(\w+)\.end\)\}", up(init))
            if not m or len({m.group(1), m.group(3), m.group(4)}) != 1:
                return False
            el = up(init["else"])
            seg, nxt = m.group(1), m.group(2)
            if not re.search(r"let (\w+) = %s\.start; %s\.start = %s; \w+\.insert_first\(%s\); \(\1,%s\)" % (seg, seg, nxt, seg, nxt), el):
                return False
            return names.index(s) == which
        return ok
    _tiling(ctx, res, fn, "bedTiling", seg_bound(0), seg_bound(1))


# ---------------------------------------------------------------- depth sweeps
def _alpha(text, names):
    for i, n in enumerate(names):
        text = re.sub(r"\b%s\b" % re.escape(n), "$%d" % i, text)
    return text


def _sqs(t):
    return re.sub(r"[\s()]", "", t)


def toplevel_in_block(block, n):
    x = n
    while x is not None and isinstance(x, Node) and x.parent is not block:
        x = x.parent
    return x


def _sweep_region(fn_or_closure_body, fn):
    """(increment while-loop, tail-extension statements, flush while-loop) inside a block"""
    stmts = fn_or_closure_body["stmts"]
    inc = fl = None
    for i, st in enumerate(stmts):
        if st.k == "expr_stmt" and strip(st["e"]).k == "while":
            w = strip(st["e"])
            if "is_some()" in up(w["cond"]) and inc is None:
                inc = i
            elif "get_first()" in up(w["cond"]):
                fl = i
    return stmts, inc, fl


def _tail_cases(ctx, fn, stmts, item_start, item_end, overlap_name):
    """run the tail-extension statements for every order type of (last_end | None, item_start, item_end)
    -> list of (case description, inserted (start,end,value) | None)"""
    out = []
    cases = [(None, r) for r in weak_orders(2)] + [("L", r) for r in weak_orders(3)]
    for has, ranks in cases:
        if has is None:
            s, e = ranks
            L = None
        else:
            L, s, e = ranks
        if not s <= e:
            continue
        if L is not None and L < s:
            continue  # invariant: the last segment reaches at least the item start (debug_assert in the code)
        inserted = []

        def method(m, recv, args, L=L):
            if recv == "OVERLAP":
                if m == "get_last":
                    return None if L is None else ("some", {"__type": "Value", "start": -1, "end": L, "value": ("f", 0.0)})
                if m == "insert_last":
                    inserted.append(args[0])
                    return None
            raise NotPure("method %s on %r" % (m, recv))
        it = Interp(ctx.ast, fn.file, extern={"None": None, "method": method, overlap_name: "OVERLAP"})
        env = {item_start: s, item_end: e, overlap_name: "OVERLAP"}
        it.run_stmts(stmts, env)
        desc = ("list empty; " if L is None else "") + order_str(dict(zip((["last.end"] if L is not None else []) + ["item_start", "item_end"], ranks)))
        got = None
        if len(inserted) > 1:
            got = "multiple"
        elif inserted:
            v = inserted[0]
            got = (v.get("start"), v.get("end"), v.get("value"))
        want = None
        if L is None:
            want = (s, e, ("f", 1.0))
        elif L < e:
            want = (L, e, ("f", 1.0))
        out.append((desc, got, want))
    return out


def ob_sweeps(ctx, res):
    """C06-S1: summary sweep (closure in process_val) vs zoom sweep (process_val_zoom)"""
    pv = ctx.ast.fn(BW, "process_val")
    pz = ctx.ast.fn(BW, "process_val_zoom")
    cl = [n for n in walk_no_nested_fn(pv.body) if n.k == "closure" and len(n["inputs"]) == 5]
    if len(cl) != 1:
        res.fail("sweep/summary-closure", pv, "summary sweep closure (overlap, summary, item_start, item_end, next_start) not found")
        return
    cnames = [up(p).split(":")[0].strip() for p in cl[0]["inputs"]]
    s_stmts, s_inc, s_fl = _sweep_region(strip(cl[0]["body"]), pv)
    # zoom sweep: inside `for zoom_item in ...` body
    fl_ = [n for n in walk_no_nested_fn(pz.body) if n.k == "for"]
    if len(fl_) != 1:
        res.fail("sweep/zoom-for", pz, "per-zoom-level loop not found")
        return
    z_stmts, z_inc, z_fl = _sweep_region(fl_[0]["body"], pz)
    if None in (s_inc, s_fl, z_inc, z_fl):
        ev0 = bed_sweep_eval(ctx)
        if ev0 is not None and ev0[0] == "bad":
            res.fail("sweep/summary-eval", pv, "bigBed summary sweep: " + ev0[1])
            return
        res.undecided("sweep/shape", pv, "sweep regions not recognised (increment loop / flush loop): summary %s/%s zoom %s/%s" % (s_inc, s_fl, z_inc, z_fl))
        return
    # (a) depth-increment loops: each sweep's loop is checked on its own, in normal form (comparisons oriented, pure temporaries inlined);
    #     that the two are spelled alike is only recorded
    from ..astq import upn
    ta = upn(pv, strip(s_stmts[s_inc]["e"]))
    tb = upn(pz, strip(z_stmts[z_inc]["e"]))
    if ta != tb:
        res.undecided("sweep/increment", strip(z_stmts[z_inc]["e"]), "depth-increment loops of the summary sweep and the zoom sweep are spelled differently (each is checked on its own below)")
    for what_, fn_, w in (("summary", pv, strip(s_stmts[s_inc]["e"])), ("zoom", pz, strip(z_stmts[z_inc]["e"]))):
        t = upn(fn_, w)
        need = [".value += 1.0", "insert_after(", "next_index("]
        if not all(x in t for x in need):
            res.fail("sweep/increment-form", w, "%s sweep: increment loop must add 1 to every open segment and split the segment the item ends in (keeping the old depth after item_end)" % what_)
            continue
        arms = [a for a in walk_no_nested_fn(w["body"]) if a.k == "arm" and up(a["pat"]).startswith("Some(")]
        ifl = [x for x in walk_no_nested_fn(w["body"]) if x.k == "if" and strip(x["cond"]).k == "let_expr" and up(strip(x["cond"])["pat"]).startswith("Some(")]
        seg, st0 = None, None
        if len(arms) == 1 and strip(arms[0]["body"]).k == "block":
            seg, st0 = up(arms[0]["pat"])[5:-1].replace("mut ", ""), strip(arms[0]["body"])["stmts"]
        elif not arms and len(ifl) == 1:
            seg, st0 = up(strip(ifl[0]["cond"])["pat"])[5:-1].replace("mut ", ""), ifl[0]["then"]["stmts"]
        if seg is None:
            res.undecided("sweep/increment-form", w, "%s sweep: the per-segment step (`Some(segment) => ..`) was not recognised" % what_)
            continue
        # split of the segment the entry ends in: `if E < seg.end { keep the old depth after E; seg.end = E }`
        splits = [x for x in walk_no_nested_fn(w["body"]) if x.k == "if" and re.fullmatch(r"(\w+) < %s\.end" % re.escape(seg), upn(fn_, x["cond"]))]
        if len(splits) != 1:
            res.fail("sweep/increment-form", w, "%s sweep: the segment the entry ends in must be split at the entry's end (`if item_end < segment.end { .. }`)" % what_)
            continue
        ie = re.fullmatch(r"(\w+) < %s\.end" % re.escape(seg), upn(fn_, splits[0]["cond"])).group(1)
        sp_t = up(splits[0]["then"])
        if not re.search(r"%s\.value - 1\.0" % re.escape(seg), sp_t) or not re.search(r"%s\.end = %s\b" % (re.escape(seg), re.escape(ie)), sp_t) or "insert_after(" not in sp_t:
            res.fail("sweep/increment-form", splits[0], "%s sweep: the split must keep the old depth (value - 1.0) on the piece after the entry's end and cut the segment at it" % what_)
            continue
        res.ok(w, "%s sweep depth increment: +1 on every open segment; the segment containing item_end is split with the old depth kept after it" % what_)
        # the bump must stop at the first segment that lies entirely at/after the end of the entry: bumping it and splitting off an empty
        # piece [e,e) of depth+1 (which later entries starting at e keep bumping) puts depths into min/max that no base has
        okg = False
        inc_i = [i for i, x in enumerate(st0) if x.k == "expr_stmt" and _sqs(up(x)).startswith("%s.value+=1.0" % seg)]
        for i, x in enumerate(st0):
            if x.k == "expr_stmt" and strip(x["e"]).k == "if" and inc_i and i < inc_i[0]:
                c = upn(fn_, strip(x["e"])["cond"])
                if c == "%s <= %s.start" % (ie, seg) and re.fullmatch(r"\{break;?\}", up(strip(x["e"])["then"])):
                    okg = True
        if not okg:
            res.fail("sweep/increment-overrun", w,
                     "%s sweep: the depth of a segment is bumped before it is known to start before the end of the entry: when an entry ends exactly on a segment boundary the NEXT "
                     "segment is bumped too and an empty piece [e,e) with depth+1 is split off; flushed with zero length it still enters min/max "
                     "(entries 0-10, 0-5, 0-5, 5-10, 5-10: maximum depth 4 reported, every base has depth 3)" % what_)
        else:
            res.ok(w, "%s sweep: the bump stops at the first segment starting at or after the end of the entry" % what_)
    # (b) tail extension by exhaustive cases
    for what, fn, stmts, lo, hi, names in (("summary", pv, s_stmts, s_inc, s_fl, (cnames[2], cnames[3], cnames[0])),
                                           ("zoom", pz, z_stmts, z_inc, z_fl, ("item_start", "item_end", "overlap"))):
        region = [st for st in stmts[lo + 1:hi] if not (st.k == "expr_stmt" and strip(st["e"]).k == "macro" and strip(st["e"])["path"].startswith("debug_assert"))]
        # drop `let next_start = ...` (belongs to the flush loop)
        region = [st for st in region if not (st.k == "let" and "next_start" in up(st["pat"]))]
        if not region:
            res.fail("sweep/%s/tail-missing" % what, fn, "no tail-extension statement between the increment loop and the flush loop")
            continue
        try:
            cases = _tail_cases(ctx, fn, region, names[0], names[1], names[2])
        except NotPure as e:
            res.fail("sweep/%s/tail-idiom" % what, region[0], "tail extension not analysable: %s" % e)
            continue
        bad = [(d, g, w_) for d, g, w_ in cases if g != w_ and not (w_ is None and g is not None and g != "multiple" and g[0] == g[1])]
        if bad:
            d, g, w_ = bad[0]
            res.fail("sweep/%s/tail" % what, region[0],
                     "%s sweep: when %s the sweep %s but must %s: the part of a partially overlapping entry beyond the last open segment is "
                     "never added to the depth list (covered bases and sum are under-counted)" % (
                         what, d, "appends nothing" if g is None else "appends %s" % (g,),
                         "append nothing" if w_ is None else "append a depth-1 segment [last.end|item_start, item_end)"))
        else:
            res.ok(region[0], "%s sweep tail extension: empty list -> [item_start,item_end) depth 1; last.end < item_end -> [last.end,item_end) depth 1; else nothing (%d cases)" % (what, len(cases)))
    # (c) flush loops run while the first open segment starts before the next entry's start: the condition of each sweep is evaluated
    #     (first segment absent / starting before, at, after next_start)
    from ..rules.interp import Interp
    for what_, fn_, fl in (("summary", pv, strip(s_stmts[s_fl]["e"])), ("zoom", pz, strip(z_stmts[z_fl]["e"]))):
        bad = None
        for first in (None, 0, 1, 2):
            def method(m, recv, args, first=first):
                if m == "get_first" and recv == "OVERLAP" and not args:
                    return None if first is None else ("some", {"__type": "Seg", "start": first, "end": first + 5, "value": ("f", 1.0)})
                raise NotPure("method " + m)
            env = {}
            from ..astq import _tnorm
            nf = strip(fl["cond"])
            class _AnyEnv(dict):
                def __contains__(self, k):
                    return True
                def __missing__(self, k):
                    return 1 if "next" in k else "OVERLAP"
            try:
                got = Interp(ctx.ast, BW, extern={"None": None, "method": method}).ev(nf, _AnyEnv(), 0)
            except NotPure as e:
                bad = ("undecided", str(e))
                break
            want = first is not None and first < 1
            if bool(got) != want:
                bad = ("differs", "first open segment %s: condition is %s, required %s" % ("absent" if first is None else "starts at next_start%+d" % (first - 1), got, want))
                break
        if bad is None:
            res.ok(fl, "%s sweep flush: segments starting before next_start are flushed (whole, or split at next_start)" % what_)
        elif bad[0] == "undecided":
            res.undecided("sweep/flush-form", fl, "%s sweep: flush condition `%s` not evaluated (%s)" % (what_, up(fl["cond"])[:80], bad[1]))
        else:
            res.fail("sweep/flush-form", fl, "%s sweep: the flush loop must run while the first open segment starts before the next entry's start; %s" % (what_, bad[1]))
    # segments without bases (from zero-length entries) must not reach the summary's min/max
    ev_ = bed_sweep_eval(ctx)
    if ev_ is not None and ev_[0] == "ok":
        res.ok(pv, "summary flush: decided by running the whole sweep (zero-length entries included): %d entries" % ev_[1])
        _sweep_tail_clauses(ctx, res, pv, pz, s_stmts, z_stmts)
        return
    if ev_ is not None and ev_[0] == "bad":
        res.fail("sweep/summary-eval", pv, "bigBed summary sweep: " + ev_[1])
        return
    sw = strip(s_stmts[s_fl]["e"])
    lenlet = [x for x in walk_no_nested_fn(sw["body"]) if x.k == "let" and x["pat"].k == "p_tuple" and up(x["pat"]["elems"][0]) == "len"]
    upd = [x for x in walk_no_nested_fn(sw["body"]) if x.k == "match" and up(strip(x["scrut"])) == "summary"]
    skip = [x for x in sw["body"]["stmts"] if x.k == "expr_stmt" and strip(x["e"]).k == "if" and _sqs(up(strip(x["e"])["cond"])) in ("len==0", "0==len")
            and re.fullmatch(r"\{continue;?\}", up(strip(x["e"])["then"]))]
    if len(lenlet) != 1 or len(upd) != 1:
        res.fail("sweep/summary-flush-shape", sw, "flushed segment length / summary update not found")
    elif len(skip) != 1 or not (toplevel_in_block(sw["body"], lenlet[0]).order < skip[0].order < toplevel_in_block(sw["body"], upd[0]).order):
        res.fail("sweep/empty-segment", sw,
                 "a flushed segment of length 0 (opened by a zero-length entry) adds nothing to bases/sum but its depth still goes into min_val/max_val: "
                 "entries [0,0),[0,1) report maximum 2; empty segments must be skipped before the summary update")
    else:
        res.ok(skip[0], "summary flush: segments without bases are skipped before min/max/sum are updated")
    _sweep_tail_clauses(ctx, res, pv, pz, s_stmts, z_stmts)


def _sweep_tail_clauses(ctx, res, pv, pz, s_stmts, z_stmts):
    # next_start default: u32::MAX when there is no next value
    for what, fn, stmts in (("summary", pv, s_stmts), ("zoom", pz, z_stmts)):
        ns = [st for st in stmts if st.k == "let" and up(st["pat"]) == "next_start"]
        t_ns = up(ns[0]["init"]).replace("u32::max_value()", "u32::MAX") if len(ns) == 1 else ""
        if len(ns) != 1:
            res.undecided("sweep/%s/next_start" % what, fn, "`next_start` is not bound by one `let`")
        elif "u32::MAX" not in t_ns:
            res.fail("sweep/%s/next_start" % what, fn, "next_start must default to u32::MAX at the end of the chromosome (flush everything); it is `%s`" % t_ns[:80])
        else:
            res.ok(ns[0], "%s sweep: end of chromosome flushes every open segment" % what)
    # the summary sweep is called with (current.start, current.end, next.start)
    cs = [c for c in walk_no_nested_fn(pv.body) if c.k == "call" and up(c["func"]) == "add_interval_to_summary"]
    if len(cs) != 1:
        res.fail("sweep/summary-call", pv, "summary sweep must be called once per entry")
    else:
        o = [origin(pv, a) for a in cs[0]["args"]]
        if o[2:4] != ["p0.start", "p0.end"] or "p1" not in o[4] or not (o[4].endswith(".start") or o[4].endswith(".start)")):
            res.fail("sweep/summary-args", cs[0], "summary sweep must receive (entry.start, entry.end, next.start); got %s" % o[2:])
        else:
            res.ok(cs[0], "summary sweep fed (entry.start, entry.end, next entry's start)")


def ob_every_value_processed(ctx, res):
    """C01/C02/C06/C07/C08: between the refusal guards and the end of the per-value functions there is no early success exit:
    every accepted value reaches the summary update / depth sweep, the items buffer, the flush test and every zoom level."""
    for file, what in ((WW, "bigWig"), (BW, "bigBed")):
        fn = ctx.ast.fn(file, "process_val", inline=True, keep=("encode_section",))
        bad = [n for n in walk_no_nested_fn(fn.body) if n.k == "return" and not up(n).startswith("return Err(")]
        bad += [n for n in walk_no_nested_fn(fn.body) if n.k == "continue"]
        # returns inside the summary-sweep closure do not leave process_val; walk_no_nested_fn descends into closures, so filter them
        bad = [n for n in bad if not _in_closure(n)]
        if bad:
            res.fail("everyValue/%s/process_val" % what, bad[0], "`%s` leaves process_val early with success: the value would skip the summary / items buffer / section flush test "
                     "(a chromosome whose last value takes this path never flushes its last section)" % up(bad[0])[:60])
            continue
        # effects are unconditional top-level statements, in order: summary (update or sweep call) -> items.push -> flush if
        st = fn.body["stmts"]
        idx = {}
        for i, s_ in enumerate(st):
            t = up(s_)
            if re.match(r"summary\.\w+ (\+=|=)", t) or t.startswith("add_interval_to_summary("):
                idx.setdefault("summary", i)
            elif s_.k == "expr_stmt" and strip(s_["e"]).k == "block" and strip(s_["e"]).get("inlined_from") and re.search(r"\bsummary\.\w+ (\+=|=)", t) \
                    and not any(x.k in ("if", "match", "return", "break", "continue", "while", "for", "loop") for x in walk_no_nested_fn(strip(s_["e"]))):
                idx.setdefault("summary", i)     # the update, extracted into a straight-line helper
            if re.match(r"items\.push\(current_val\);", t):
                idx["push"] = i
            if s_.k == "expr_stmt" and strip(s_["e"]).k == "if" and "encode_section" in t:
                idx["flush"] = i
        if set(idx) != {"summary", "push", "flush"} or not (idx["summary"] < idx["push"] < idx["flush"]):
            res.fail("everyValue/%s/effects" % what, fn, "summary update, items.push(current_val) and the flush test must be unconditional top-level statements in that order; found %s" % idx)
            continue
        res.ok(fn, "%s process_val: only `return Err(..)` exits before the end; summary -> items.push -> flush test unconditional and in order" % what)
    for file, what in ((WW, "bigWig"), (BW, "bigBed")):
        fn = ctx.ast.fn(file, "process_val_zoom")
        rets = [n for n in walk_no_nested_fn(fn.body) if n.k == "return"]
        st = [s_ for s_ in fn.body["stmts"] if not (s_.k == "expr_stmt" and strip(s_["e"]).k == "macro")]
        top_ok = len(st) >= 1 and st[0].k == "expr_stmt" and strip(st[0]["e"]).k == "for" and "zoom_items.iter_mut()" in up(strip(st[0]["e"])["iter"])
        if rets or not top_ok or len(st) > 2:
            res.fail("everyValue/%s/process_val_zoom" % what, rets[0] if rets else fn,
                     "process_val_zoom must run its per-zoom-level loop for EVERY value (first statement, no early return): skipping a value leaves the "
                     "depth sweep / live record of each level un-advanced, so later records absorb bases of earlier entries")
            continue
        lp = strip(st[0]["e"])
        conts = [n for n in walk_no_nested_fn(lp["body"]) if n.k == "continue" and _nearest_loop(n) is lp]
        if conts:
            res.fail("everyValue/%s/zoom-continue" % what, conts[0], "a zoom level is skipped for some values (`continue` in the per-level loop)")
            continue
        res.ok(fn, "%s process_val_zoom: the per-level loop is the first statement, no early return, no level skipped" % what)
    # do_process calls both for every value (full processors)
    for file, impl in ((WW, "BigWigFullProcess"), (BW, "BigBedFullProcess")):
        fn = ctx.ast.fn(file, "do_process", impl=impl)
        a = [c for c in walk_no_nested_fn(fn.body) if c.k == "call" and up(c["func"]) == "process_val"]
        b = [c for c in walk_no_nested_fn(fn.body) if c.k == "call" and up(c["func"]) == "process_val_zoom"]
        from ..astq import cond_ancestors
        if len(a) != 1 or len(b) != 1 or cond_ancestors(a[0]) or cond_ancestors(b[0]) or not a[0].order < b[0].order:
            res.fail("everyValue/%s/do_process" % impl, fn, "do_process must call process_val and then process_val_zoom unconditionally for every value")
        else:
            res.ok(fn, "%s::do_process: process_val(..)? then process_val_zoom(..) for every value" % impl)


def _in_closure(n):
    p = n.parent
    while p is not None and isinstance(p, Node):
        if p.k == "closure":
            return True
        p = p.parent
    return False


def _nearest_loop(n):
    p = n.parent
    while p is not None and isinstance(p, Node):
        if p.k in ("for", "while", "loop"):
            return p
        p = p.parent
    return None


def ob_processor_args(ctx, res):
    """C01-F5: what each processor hands to its per-value functions (value, next, chromosome length, chromosome id, own state)"""
    sites = 0
    for file, impls in ((WW, ["BigWigFullProcess", "BigWigNoZoomsProcess", "BigWigZoomsProcess"]), (BW, ["BigBedFullProcess", "BigBedNoZoomsProcess", "BigBedZoomsProcess"])):
        for impl in impls:
            fn = ctx.ast.fn(file, "do_process", impl=impl)
            for c in walk_no_nested_fn(fn.body):
                if not (c.k == "call" and up(c["func"]) in ("process_val", "process_val_zoom")):
                    continue
                callee = ctx.ast.fn(file, up(c["func"]))
                sites += 1
                bad = []
                for (pn, pty), a in zip(callee.params, c["args"]):
                    o = origin(fn, a)
                    t = up(strip(a))
                    want = None
                    if pn == "current_val":
                        want = o == "p1"
                    elif pn == "next_val":
                        want = o == "p2"
                    elif pn == "chrom_length":
                        want = o.endswith("length") or t == "length"
                    elif pn == "chrom_id":
                        want = o.endswith("chrom_id") or t == "chrom_id"
                    elif pn == "chrom":
                        want = o.endswith("chrom") or t == "chrom"
                    elif pn == "item_start":
                        want = o == "p1.start"
                    elif pn == "item_end":
                        want = o == "p1.end"
                    elif pn in ("summary", "items", "overlap", "zoom_items", "options", "runtime", "ftx"):
                        want = pn in o or pn in t
                    if want is False:
                        bad.append("%s <- `%s`" % (pn, t))
                if bad:
                    res.fail("processorArgs/%s/%s" % (impl, up(c["func"])), c, "%s::do_process passes the wrong value to %s: %s" % (impl, up(c["func"]), "; ".join(bad)))
                else:
                    res.ok(c, "%s -> %s: value, next, chromosome length/id and the processor's own state passed to the like-named parameters" % (impl, up(c["func"])))
    res.count("sites", sites)


# ---------------------------------------------------------------------------------------------------------------------
# the bigBed summary sweep as a whole: `add_interval_to_summary` run on a mocked depth list for small entry sequences and compared with the
# definition (per-base coverage depth of the entries seen so far, restricted to the bases before the next entry's start)

_SWEEP_CASES = [
    [(0, 10), (5, 20), (5, 8), (30, 40), (30, 30), (35, 36)],
    [(0, 0), (0, 5), (5, 5), (5, 6)],
    [(10, 20), (10, 20), (12, 15), (19, 25)],
    [(3, 4)],
    [(0, 0), (0, 0)],
    [(2, 9), (4, 6), (6, 9), (9, 12)],
]


class _DepthList:
    """IndexList<Value> stand-in: ordered segments with stable ids"""
    def __init__(self):
        self.items = []      # [id, record]
        self.n = 0

    def _new(self, rec):
        self.n += 1
        rec["__ref"] = True
        return [self.n, rec]

    def pos(self, ix):
        if ix is None:
            return None
        for i, (k, _) in enumerate(self.items):
            if ("some", k) == ix:
                return i
        return None


def bed_sweep_eval(ctx):
    """None (not evaluable) | ("ok", n_steps) | ("bad", message)"""
    from ..rules.interp import _Return
    key = "bed_sweep_eval"
    if key in ctx.cache:
        return ctx.cache[key]
    out = _bed_sweep_eval(ctx)
    ctx.cache[key] = out
    return out


def _bed_sweep_eval(ctx):
    from ..rules.interp import _Return
    pv = ctx.ast.fn(BW, "process_val")
    cls = [n for n in walk_no_nested_fn(pv.body) if n.k == "let" and n.get("init") is not None and strip(n["init"]).k == "closure" and len(strip(n["init"])["inputs"]) == 5]
    if len(cls) != 1:
        return None
    cl = strip(cls[0]["init"])
    names = []
    for p_ in cl["inputs"]:
        q = p_
        while q.k == "p_type":
            q = q["pat"]
        if q.k != "p_ident":
            return None
        names.append(q["name"])
    steps = 0
    for case in _SWEEP_CASES:
        dl = _DepthList()
        OV = {"__ref": True, "__depthlist": True}

        def method(m, recv, args, dl=dl, OV=OV):
            if recv is OV:
                it_ = dl.items
                if m in ("get_first", "get_first_mut") and not args:
                    return ("some", it_[0][1]) if it_ else None
                if m in ("get_last", "get_last_mut") and not args:
                    return ("some", it_[-1][1]) if it_ else None
                if m == "first_index" and not args:
                    return ("some", it_[0][0]) if it_ else None
                if m == "last_index" and not args:
                    return ("some", it_[-1][0]) if it_ else None
                if m in ("get", "get_mut") and len(args) == 1:
                    i = dl.pos(args[0])
                    return None if i is None else ("some", it_[i][1])
                if m == "next_index" and len(args) == 1:
                    i = dl.pos(args[0])
                    return ("some", it_[i + 1][0]) if i is not None and i + 1 < len(it_) else None
                if m == "insert_after" and len(args) == 2:
                    i = dl.pos(args[0])
                    if i is None:
                        raise NotPure("insert_after without a position")
                    it_.insert(i + 1, dl._new(dict(args[1])))
                    return ("some", it_[i + 1][0])
                if m == "insert_before" and len(args) == 2:
                    i = dl.pos(args[0])
                    if i is None:
                        raise NotPure("insert_before without a position")
                    it_.insert(i, dl._new(dict(args[1])))
                    return ("some", it_[i][0])
                if m == "insert_last" and len(args) == 1:
                    it_.append(dl._new(dict(args[0])))
                    return ("some", it_[-1][0])
                if m == "insert_first" and len(args) == 1:
                    it_.insert(0, dl._new(dict(args[0])))
                    return ("some", it_[0][0])
                if m == "remove_first" and not args:
                    return ("some", it_.pop(0)[1]) if it_ else None
                if m == "remove_last" and not args:
                    return ("some", it_.pop()[1]) if it_ else None
                if m == "is_empty" and not args:
                    return not it_
                if m == "len" and not args:
                    return len(it_)
                raise NotPure("depth list method " + m)
            if m == "is_nan" and isinstance(recv, float):
                return recv != recv
            raise NotPure("method " + m)

        def binop(op, a, b):
            if isinstance(a, (int, float)) and isinstance(b, (int, float)) and not isinstance(a, bool) and not isinstance(b, bool):
                if op == "+":
                    return a + b
                if op == "-":
                    if isinstance(a, int) and isinstance(b, int) and a < b:
                        raise NotPure("unsigned underflow %d - %d" % (a, b))
                    return a - b
                if op == "*":
                    return a * b
            raise NotPure("arithmetic")

        def path(p_):
            return {"u32::MAX": 4294967295, "f64::MAX": 1.7976931348623157e308, "f64::MIN": -1.7976931348623157e308}.get(p_, NotImplemented)

        def call(p_, args):
            if p_ in ("u32::max_value",) and not args:
                return 4294967295
            return NotImplemented
        summary = None
        seen = []
        for i, (s, e) in enumerate(case):
            nxt = case[i + 1][0] if i + 1 < len(case) else None
            it = Interp(ctx.ast, BW, extern={"None": None, "method": method, "binop": binop, "path": path, "call": call, "floats": True})
            env = {names[0]: OV, names[1]: summary, names[2]: s, names[3]: e, names[4]: None if nxt is None else ("some", nxt)}
            try:
                b = cl["body"]
                it.block(b, env, 0) if b.k == "block" else it.ev(b, env, 0)
            except (NotPure, _Return):
                return None
            except Exception:
                return None
            summary = env[names[1]]
            seen.append((s, e))
            steps += 1
            # definition: depth per base over the entries so far, bases before the next entry's start
            hi = max(x[1] for x in seen) if nxt is None else nxt
            depth = [sum(1 for (a, b_) in seen if a <= p < b_) for p in range(0, hi)]
            cov = [d for d in depth if d > 0]
            got = None
            if summary is not None:
                if not (isinstance(summary, tuple) and summary[0] == "some" and isinstance(summary[1], dict)):
                    return None
                got = summary[1]
            if not cov:
                if got is not None and got.get("bases_covered", 0) != 0:
                    return ("bad", "entries %s: no base is covered before %s, yet the summary reports %s covered bases" % (seen, nxt, got.get("bases_covered")))
                continue
            want = {"bases_covered": len(cov), "min_val": float(min(cov)), "max_val": float(max(cov)), "sum": float(sum(cov)), "sum_squares": float(sum(d * d for d in cov))}
            if got is None:
                return ("bad", "entries %s: %d bases are covered before %s but no summary was started" % (seen, len(cov), "the end" if nxt is None else nxt))
            for k_, w_ in want.items():
                if k_ not in got:
                    return None
                if got[k_] != w_:
                    return ("bad", "after the entries %s (next entry starts at %s) the chromosome summary has %s = %s; the coverage depth of the bases before that point gives %s"
                            % (seen, "end of chromosome" if nxt is None else nxt, k_, got[k_], w_))
    return ("ok", steps)
