"""C07-Z1 / C07-N1: the list of zoom resolutions is normalised (zero-free, strictly increasing, bounded by the reserved
header slots) before any per-level state is created, identically in both pass modes."""
from __future__ import annotations
import re
from ..astq import Node, up, strip, strip_cast, walk_no_nested_fn, calls, binding_before, dominates
from ..rules.layout import origin, int_value

W = "bigtools/src/bbi/bbiwrite.rs"


def _normalizer_props(ctx, fn):
    """which normalisation steps does `fn` (Vec<u32> -> Vec<u32>) perform on its parameter: decided by evaluating it on small lists"""
    if fn.body is None or not fn.params:
        return set()
    from ..rules.interp import Interp, NotPure
    mz = ctx.ast.const(W, "MAX_ZOOM_LEVELS")
    MAXZ = int_value(mz["e"]) or 10
    holder = [None]

    def method(m, recv, args):
        it = holder[0]
        if isinstance(recv, list):
            if m == "retain" and len(args) == 1:
                recv[:] = [x for x in recv if it.apply_closure(args[0], [x])]
                return None
            if m in ("sort", "sort_unstable") and not args:
                recv.sort()
                return None
            if m == "dedup" and not args:
                out = []
                for x in recv:
                    if not out or out[-1] != x:
                        out.append(x)
                recv[:] = out
                return None
            if m == "truncate" and len(args) == 1 and isinstance(args[0], int):
                del recv[args[0]:]
                return None
            if m in ("into_iter", "iter", "copied", "cloned", "collect", "to_vec") and not args:
                return list(recv)
            if m == "filter" and len(args) == 1:
                return [x for x in recv if it.apply_closure(args[0], [x])]
            if m == "take" and len(args) == 1 and isinstance(args[0], int):
                return recv[:args[0]]
            if m == "len" and not args:
                return len(recv)
        raise NotPure("method %s" % m)

    def run(lst):
        it = Interp(ctx.ast, W, extern={"None": None, "method": method})
        holder[0] = it
        return it.call(fn, [list(lst)])
    props = set()
    try:
        if run([0, 20, 0, 100]) == [20, 100] or 0 not in (run([0, 20, 0, 100]) or [0]):
            props.add("nonzero")
        if run([100, 20, 60]) == [20, 60, 100]:
            props.add("sorted")
        if run([20, 100, 20, 20]) == [20, 100]:
            props.add("dedup")
        r = run(list(range(1, MAXZ + 6)))
        if isinstance(r, list) and len(r) <= MAXZ:
            props.add("bounded")
    except NotPure:
        return _normalizer_props_text(ctx, fn)
    return props


def _normalizer_props_text(ctx, fn):
    p = fn.params[0][0]
    t = up(fn.body)
    props = set()
    if re.search(r"%s\.retain\(\|(\w+)\| \*\1 != 0\)" % p, t) or re.search(r"\.filter\(\|(\w+)\| \*\1 != 0\)", t):
        props.add("nonzero")
    if re.search(r"%s\.sort(_unstable)?\(\)" % p, t):
        props.add("sorted")
    if re.search(r"%s\.dedup\(\)" % p, t) and "sorted" in props and t.index(".dedup()") > t.index(".sort"):
        props.add("dedup")
    if re.search(r"%s\.truncate\(MAX_ZOOM_LEVELS\)" % p, t) or re.search(r"\.take\(MAX_ZOOM_LEVELS\)", t):
        props.add("bounded")
    return props


def _list_props(ctx, fn, expr_node):
    """normalisation properties established for the value of `expr_node` (a local holding the zoom list)"""
    props = set()
    seen = 0
    n = strip(expr_node)
    while isinstance(n, Node) and seen < 8:
        seen += 1
        if n.k == "path" and "::" not in n["path"]:
            b = binding_before(fn, n["path"], n)
            if b is None or b[0] != "let" or b[1].get("init") is None:
                break
            n = strip(b[1]["init"])
            continue
        if n.k == "call" and isinstance(n["func"], Node) and n["func"].k == "path":
            cal = n["func"]["path"].split("::")[-1]
            tf = [f for f in ctx.ast.fns_in(W) if f.name == cal]
            if tf and len(n["args"]) == 1:
                props |= _normalizer_props(ctx, tf[0])
                n = strip(n["args"][0])
                continue
            break
        if n.k == "mcall":
            t = up(n)
            if n["method"] == "collect":
                n = strip(n["recv"])
                continue
            if n["method"] == "filter" and re.search(r"\|(\w+)\| \*\1 != 0", up(n["args"][0])):
                props.add("nonzero")
            n = strip(n["recv"])
            continue
        break
    return props


def ob_zoom_list(ctx, res):
    sites = []
    # single pass: the list handed to setup_chrom (per-chromosome channels) and to the BTreeMap of per-level state
    wv = ctx.ast.fn(W, "write_vals")
    sc = [c for c in walk_no_nested_fn(wv.body) if c.k == "call" and up(c["func"]) == "setup_chrom"]
    mk = [c for c in walk_no_nested_fn(wv.body) if c.k == "mcall" and c["method"] == "map" and up(strip(c["args"][0])) == "make_zoom"]
    if len(sc) != 1 or len(mk) != 1:
        res.fail("zoomList/write_vals/sites", wv, "expected one setup_chrom call and one make_zoom mapping")
        return
    sites.append((wv, sc[0]["args"][-1], "write_vals: per-chromosome zoom channels"))
    sites.append((wv, strip(mk[0]["recv"]), "write_vals: per-level staging buffers"))
    zw = ctx.ast.fn(W, "write_zoom_vals")
    from ..astq import iter_loops
    loops = [n for n in iter_loops(zw.body) if "TempFileBuffer::new" in up(n["body"])]
    if len(loops) != 1:
        res.fail("zoomList/write_zoom_vals/sites", zw, "expected the loop creating one staging buffer per zoom level")
        return
    sites.append((zw, loops[0]["iter"], "write_zoom_vals: per-level staging buffers"))
    inner = [n for n in iter_loops(zw.body) if "future_channel" in up(n["body"])]
    inner = [n for n in inner if not any(m is not n and any(x is n.node for x in walk_no_nested_fn(m["body"])) and "future_channel" in up(m["body"]) and False for m in inner)]
    if len(inner) > 1:
        inner = sorted(inner, key=lambda n: -n.order)[:1]      # the innermost loop that creates the channels
    if len(inner) != 1:
        res.fail("zoomList/write_zoom_vals/chrom-sites", zw, "expected the loop creating per-chromosome zoom channels")
        return
    sites.append((zw, inner[0]["iter"], "write_zoom_vals: per-chromosome zoom channels"))
    allprops = []
    for fn, e, what in sites:
        # strip `.iter().copied()` / `&`
        x = strip(e)
        while isinstance(x, Node) and x.k == "mcall" and x["method"] in ("iter", "copied", "into_iter", "cloned"):
            x = strip(x["recv"])
        props = _list_props(ctx, fn, x)
        allprops.append(props)
        miss = [p for p in ("nonzero", "sorted", "dedup") if p not in props]
        if miss:
            res.fail("zoomList/%s/%s" % (fn.name, "+".join(miss)), x,
                     "%s are created from a zoom size list that is not normalised (%s missing): a manual list such as `100,20`, `20,20` or `0,20` "
                     "gives levels listed out of order, a level without records / a panic, or a tiling loop that never advances" % (what, ", ".join(miss)))
        else:
            res.ok(x, "%s from a list that is zero-free, sorted and duplicate-free" % what)
    # C07-N1: bounded by the reserved slots
    for (fn, e, what), props in zip(sites, allprops):
        if "bounded" not in props:
            res.fail("zoomList/%s/unbounded" % fn.name, strip(e),
                     "%s: the number of zoom levels is not limited to MAX_ZOOM_LEVELS, the number of directory entries write_blank_headers reserves: "
                     "an 11th level is written over the total summary" % what)
    mz = ctx.ast.const(W, "MAX_ZOOM_LEVELS")
    if int_value(mz["e"]) is None or int_value(mz["e"]) < 1:
        res.fail("zoomList/const", W, "MAX_ZOOM_LEVELS not evaluable")
    elif not [v for v in res.violations if "unbounded" in v["role"]]:
        res.ok(W, "zoom level count bounded by MAX_ZOOM_LEVELS = %d in both pass modes (same constant sizes the blank header)" % int_value(mz["e"]))
    # write_zooms pushes headers in iteration order of the (sorted) list: the BTreeMap / Vec order
    wz = ctx.ast.fn(W, "write_zooms")
    lp = [n for n in walk_no_nested_fn(wz.body) if n.k == "for" and up(strip(n["iter"])) == fn_param(wz, "Vec<ZoomInfo>")]
    pushes = [c for c in calls(wz.body, method="push") if up(strip(c["recv"])) == "zoom_entries"]
    if len(lp) != 1 or len(pushes) != 1:
        res.fail("zoomList/write_zooms/order", wz, "zoom headers must be pushed in the iteration order of the level list")
    else:
        zi = [n for n in walk_no_nested_fn(wv.body) if n.k == "let" and up(n["pat"]).startswith("zoom_infos")]
        if not zi or "zooms_map.into_iter()" not in up(zi[0]["init"]):
            res.fail("zoomList/write_vals/map-order", wv, "per-level state must be handed to write_zooms in BTreeMap (ascending) order")
        else:
            ty = [n for n in walk_no_nested_fn(wv.body) if n.k == "let" and n["pat"].k == "p_type" and up(n["pat"]["pat"]) == "zooms_map"]
            if not ty or not ty[0]["pat"]["ty"].replace(" ", "").startswith("BTreeMap<u32,"):
                res.fail("zoomList/write_vals/map-type", wv, "zooms_map must be a BTreeMap<u32, _> (ascending resolution order)")
            else:
                res.ok(pushes[0], "single pass: headers pushed in BTreeMap<u32,_> order; two-pass: in the order of the sorted list")


def fn_param(fn, ty):
    for nm, t in fn.params:
        if t.replace(" ", "") == ty.replace(" ", ""):
            return nm
    return None
