"""C11 discipline clauses (ordering / FIFO / forbidden constructs / sibling writers) and CLI siblings (C16)."""
from __future__ import annotations
import re, os
from ..astq import Node, up, strip, strip_cast, walk_no_nested_fn, calls, dominates, walk, binding_before
from ..rules.layout import origin, origin_short
from . import staging

W = "bigtools/src/bbi/bbiwrite.rs"
BD = "bigtools/src/bbi/beddata.rs"
BG = "bigtools/src/utils/cli/bigwigtobedgraph.rs"
BB = "bigtools/src/utils/cli/bigbedtobed.rs"


def ob_handover(ctx, res):
    staging.handover_loops(ctx, res, [(W, "write_chroms_with_zooms"), (W, "write_chroms_without_zooms"), (W, "write_zoom_vals"),
                                      (BG, "write_bg"), (BB, "write_bed")])


def _method_set(fn, recv_text):
    out = {}
    for n in walk_no_nested_fn(fn.body):
        if n.k == "mcall" and up(strip(n["recv"])) == recv_text:
            out.setdefault(n["method"], []).append(n)
    return out


def ob_queues(ctx, res):
    """C11-D1: FIFO / reversed-stack discipline in the parallel source and the CLI fan-out"""
    fn = ctx.ast.fn(BD, "process_to_bbi", impl="BedParserParallelStreamingIterator")
    ms = _method_set(fn, "queued_reads")
    allowed = {"push_back", "pop_front", "len", "is_empty"}
    bad = set(ms) - allowed
    if bad or "push_back" not in ms or "pop_front" not in ms:
        res.fail("queues/queued_reads", fn, "queued_reads must be used as a FIFO (push_back/pop_front/len only); methods seen: %s" % sorted(ms))
    else:
        res.ok(ms["pop_front"][0], "queued_reads: push_back x%d, pop_front x%d, len only" % (len(ms["push_back"]), len(ms["pop_front"])))
    ci = _method_set(fn, "self.chrom_indices")
    if set(ci) - {"pop", "last", "len", "is_empty"} or "pop" not in ci:
        res.fail("queues/chrom_indices", fn, "chrom_indices must only be popped/peeked after the single reverse in new(); methods seen: %s" % sorted(ci))
    else:
        new = ctx.ast.fn(BD, "new", impl="BedParserParallelStreamingIterator")
        rv = [c for c in calls(new.body, method="reverse") if up(strip(c["recv"])) == "chrom_indices"]
        srt = list(calls(new.body, method=("sort", "sort_by", "sort_by_key", "sort_unstable", "dedup", "retain", "swap", "rotate_left", "rotate_right")))
        if len(rv) != 1 or srt:
            res.fail("queues/reverse-once", new, "the index must be reversed exactly once (and not otherwise reordered) before being consumed with pop()")
        else:
            res.ok(rv[0], "chrom_indices: one reverse in new(), then pop()/last() only: chromosomes are started in index order")
    # start_processing before spawn, in pop order; advance in pop_front order
    sp = [c for c in walk_no_nested_fn(fn.body) if c.k == "call" and up(c["func"]) == "start_processing"]
    spawn = list(calls(fn.body, method="spawn"))
    adv = [c for c in walk_no_nested_fn(fn.body) if c.k == "call" and up(c["func"]) == "advance"]
    if len(sp) != 1 or len(spawn) != 1 or len(adv) != 1 or not dominates(sp[0], spawn[0]):
        res.fail("queues/start-before-spawn", fn, "start_processing(chrom) must be called on the coordinating thread before the chromosome's task is spawned")
    else:
        pf = ms.get("pop_front", [None])[0]
        bo = list(calls(fn.body, method="block_on"))
        if pf is None or len(bo) != 1 or not (pf.order < bo[0].order < adv[0].order):
            res.fail("queues/advance-order", fn, "advance(p) must follow block_on of the handle taken with pop_front")
        else:
            res.ok(adv[0], "start_processing before spawn (pop order); advance after joining the pop_front handle (same order)")
    # CLI fan-out: remaining_chroms reversed once then pop; handles and buffers sent in the same order
    for file, name in ((BG, "write_bg"), (BB, "write_bed")):
        f2 = ctx.ast.fn(file, name)
        rm = _method_set(f2, "remaining_chroms")
        # reversed exactly once - in place (`.reverse()`) or when it is built (`..iter().rev()..collect()`) - and then only popped
        init_rev = 0
        for l_ in walk_no_nested_fn(f2.body):
            pt_ = l_["pat"] if l_.k == "let" else None
            while pt_ is not None and pt_.k == "p_type":
                pt_ = pt_["pat"]
            if pt_ is not None and pt_.k == "p_ident" and pt_["name"] == "remaining_chroms" and l_.get("init") is not None:
                init_rev = sum(1 for c_ in walk_no_nested_fn(l_["init"]) if c_.k == "mcall" and c_["method"] == "rev")
        n_rev = len(rm.get("reverse", [])) + init_rev
        pops_after = rm.get("pop", []) and all(r_.order < rm["pop"][0].order for r_ in rm.get("reverse", []))
        if set(rm) - {"reverse", "pop"} or n_rev != 1 or len(rm.get("pop", [])) != 1 or not pops_after:
            res.fail("queues/%s/remaining" % name, f2, "remaining_chroms must be reversed once and then only popped; methods: %s%s" % (sorted(rm), ", reversed when built" if init_rev else ""))
            continue
        snd = sorted(calls(f2.body, method="send"), key=lambda c: c.order)
        if len(snd) != 2 or {up(strip(s["recv"])) for s in snd} != {"handle_snd", "buf_snd"} or staging._loop_of(snd[0]) is not staging._loop_of(snd[1]):
            res.fail("queues/%s/sends" % name, f2, "each chromosome's task handle and staging buffer must be sent once, in the same loop iteration")
            continue
        res.ok(rm["pop"][0], "%s: chromosomes popped in file order; (handle, buffer) sent per chromosome on FIFO channels" % name)


FORBIDDEN = [
    (r"\bFuturesUnordered\b", "FuturesUnordered (completion-order stream)"),
    (r"\bbuffer_unordered\b|\bfor_each_concurrent\b|\btry_for_each_concurrent\b", "unordered stream combinator"),
    (r"\bselect!|\bselect_biased!|\btokio::select\b|\bselect_all\b|\bselect_ok\b", "select over several futures (first-ready wins)"),
    (r"\brayon\b|\bpar_iter\b|\bpar_bridge\b", "rayon parallel iterator"),
    (r"\bSystemTime\b|\bInstant::now\b|\bthread_rng\b|\brand::", "time / randomness source"),
    (r"\bthread::current\(\)\.id\(\)|\bThreadId\b", "thread identity"),
    (r"\btry_recv\b|\btry_next\b", "non-blocking receive (result depends on timing)"),
]
WRITE_PATH_FILES = [W, "bigtools/src/bbi/bigwigwrite.rs", "bigtools/src/bbi/bigbedwrite.rs", BD, "bigtools/src/utils/file/tempfilebuffer.rs",
                    BG, BB, "bigtools/src/utils/cli/bedgraphtobigwig.rs", "bigtools/src/utils/cli/bedtobigbed.rs", "bigtools/src/bed/indexer.rs",
                    "bigtools/src/utils/file/file_view.rs", "bigtools/src/bed/bedparser.rs", "bigtools/src/utils/idmap.rs"]


def _scan_forbidden(text):
    hits = []
    for pat, what in FORBIDDEN:
        for m in re.finditer(pat, text):
            hits.append((m.start(), what, m.group(0)))
    return hits


def ob_forbidden(ctx, res):
    """C11-D3 (zero-count rule with a positive control fixture)"""
    verif = os.path.dirname(os.path.dirname(os.path.dirname(os.path.abspath(__file__))))
    fx = os.path.join(verif, "selftest", "fixtures", "unordered.rs")
    try:
        ft = open(fx).read()
    except OSError:
        res.fail("forbidden/fixture", fx, "positive control fixture missing")
        return
    fh = _scan_forbidden(ft)
    if len({w for _, w, _ in fh}) < len(FORBIDDEN):
        res.fail("forbidden/fixture", fx, "positive control: only %d of %d forbidden construct kinds matched in the fixture" % (len({w for _, w, _ in fh}), len(FORBIDDEN)))
        return
    n_fn = 0
    for file in WRITE_PATH_FILES:
        for fn in ctx.ast.fns_in(file):
            if fn.body is None:
                continue
            n_fn += 1
            t = up(fn.body)
            for pos, what, tok in _scan_forbidden(t):
                res.fail("forbidden/%s" % tok.strip("!"), fn, "write path uses %s (`%s`): output order would depend on task timing" % (what, tok))
        for it in ctx.ast.files.get(file, {}).get("items", []):
            if isinstance(it, Node) and it.k == "use":
                for pos, what, tok in _scan_forbidden(it["t"]):
                    res.fail("forbidden-use/%s" % tok, file, "write path imports %s" % what)
    # HashMap / HashSet iteration on the write path must be followed by a sort
    n_it = 0
    for file in WRITE_PATH_FILES:
        for fn in ctx.ast.fns_in(file):
            if fn.body is None:
                continue
            for n in walk_no_nested_fn(fn.body):
                it_expr = None
                if n.k == "mcall" and n["method"] in ("iter", "into_iter", "keys", "values", "drain", "iter_mut", "into_keys", "into_values") and not n["args"]:
                    it_expr = n["recv"]
                elif n.k == "for":
                    it_expr = n["iter"]
                if it_expr is None:
                    continue
                ty = _type_of(fn, it_expr)
                if ty is None or not re.search(r"\bHash(Map|Set)\b", ty):
                    continue
                n_it += 1
                srt = [c for c in calls(fn.body, method=("sort", "sort_by", "sort_by_key", "sort_unstable", "sort_unstable_by", "sort_unstable_by_key")) if c.order > n.order]
                if not srt:
                    res.fail("hash-iteration", n, "iteration over `%s: %s` without a following sort: hash order reaches the output" % (up(strip(it_expr)), ty))
    if n_it < 1:
        res.fail("hash-iteration/floor", W, "expected at least the HashMap iteration in write_chrom_tree")
        return
    if not res.violations:
        res.ok(W, "%d write-path functions scanned: none of %d forbidden construct kinds; %d HashMap iteration(s), each followed by a sort; fixture matched all kinds" % (n_fn, len(FORBIDDEN), n_it))
        res.count("functions_scanned", n_fn)


def _type_of(fn, e):
    """declared type text of a parameter / typed local that `e` names (AST-level; None if unknown)"""
    e = strip(e)
    if not isinstance(e, Node) or e.k != "path" or "::" in e["path"]:
        return None
    for nm, ty in fn.params:
        if nm == e["path"]:
            return ty
    for n in walk_no_nested_fn(fn.body):
        if n.k == "let" and n["pat"].k == "p_type" and n["pat"]["pat"].k == "p_ident" and n["pat"]["pat"]["name"] == e["path"]:
            return n["pat"]["ty"]
    return None


def ob_source_siblings(ctx, res):
    """C11-S1: both sources call do_process(val, next) with next = Some(&v) iff the following record is on the same chromosome"""
    n_sites = 0
    for impl in ("BedParserStreamingIterator", "BedParserParallelStreamingIterator"):
        fn = ctx.ast.fn(BD, "process_to_bbi", impl=impl)
        dps = list(calls(fn.body, method="do_process"))
        want = 3 if impl == "BedParserStreamingIterator" else 1
        if len(dps) != want:
            res.fail("sources/%s/sites" % impl, fn, "expected %d do_process call(s), found %d" % (want, len(dps)))
            continue
        for d in dps:
            n_sites += 1
            nv = strip(d["args"][1])
            if nv.k != "path":
                res.fail("sources/%s/next-arg" % impl, d, "second do_process argument must be the computed next-value option")
                continue
            from ..astq import binding_before
            b = binding_before(fn, nv["path"], d)
            init = strip(b[1]["init"]) if b is not None and b[0] == "let" else None
            if init is None or init.k != "match" or len(init["arms"]) != 2:
                res.fail("sources/%s/next-form" % impl, d, "next value must be `match &next { Some(v) if v.0 == chrom => Some(&v.1), _ => None }`")
                continue
            a0, a1 = init["arms"]
            g = up(strip(a0["guard"])) if a0.get("guard") is not None else ""
            okg = re.fullmatch(r"(\w+)\.0 == (\w+)", g)
            if not (okg and re.fullmatch(r"Some\(&%s\.1\)" % okg.group(1), up(strip(a0["body"]))) and up(a1["pat"]) == "_" and up(strip(a1["body"])) == "None"):
                res.fail("sources/%s/next-guard" % impl, init, "next value must be passed iff it belongs to the same chromosome; got `%s`" % up(init)[:120])
                continue
            # the chromosome compared with must be the one the processor receiving the value was started for
            gvar = okg.group(2)
            proc = up(strip(d["recv"]))
            pb = binding_before(fn, proc, d)
            same = False
            if pb is not None and pb[0] == "let" and pb[1].get("init") is not None and "start_processing(" in up(pb[1]["init"]):
                sp = [c for c in walk_no_nested_fn(pb[1]["init"]) if c.k == "call" and up(c["func"]) == "start_processing"][0]
                a0 = up(strip(sp["args"][0]))
                gb = binding_before(fn, gvar, d)
                ginit = up(strip(gb[1]["init"])) if gb is not None and gb[0] == "let" and gb[1].get("init") is not None else None
                same = a0 == gvar or (ginit is not None and (ginit == a0 or ginit.replace(".to_string()", "") == a0))
            elif pb is not None and pb[0] == "arm":
                # (curr_chrom, curr_state) destructured together from the current state
                names = re.findall(r"\b\w+\b", up(pb[1]["pat"]))
                same = gvar in names and proc in names and up(pb[1]["pat"]).replace(" ", "").find("(%s,%s)" % (gvar, proc)) >= 0
            if not same:
                res.fail("sources/%s/next-chrom" % impl, init, "the look-ahead is compared with `%s`, which is not the chromosome the processor `%s` was started for: the first/last "
                         "value of a chromosome would be told the wrong `next` (sections end early or straddle chromosomes)" % (gvar, proc))
                continue
            # the awaited result is propagated
            p = d.parent
            if not (p is not None and p.k == "await" and p.parent is not None and p.parent.k == "try"):
                res.fail("sources/%s/propagate" % impl, d, "do_process(..).await result must be propagated with `?`")
                continue
            res.ok(d, "%s: do_process(val, next-if-same-chromosome).await?" % impl)
    res.count("do_process_sites", n_sites)


def _emit_macros(fn):
    """uwrite!/write!/writeln! invocations: list of (format string, [arg texts])"""
    out = []
    for n in walk_no_nested_fn(fn.body):
        if n.k == "macro" and n["path"] in ("uwrite", "write", "writeln", "uwriteln") and "args" in n:
            a = n["args"]
            if len(a) >= 2 and a[1].k == "lit":
                out.append((a[1]["v"], [up(strip(x)) for x in a[2:]], n))
    return out


def _queries(fn, method):
    return [[origin(fn, a) for a in c["args"]] for c in calls(fn.body, method=method)]


def ob_writer_siblings(ctx, res):
    """C11-S2 / C16-S1: threaded and serial text writers emit the same format with the same arguments"""
    st = ctx.ast.fn(BG, "write_bg_singlethreaded")
    ff = ctx.ast.fn(BG, "file_future")
    fb = ctx.ast.fn(BG, "write_bg_from_bed")
    a, b, c = _emit_macros(st), _emit_macros(ff), _emit_macros(fb)
    if len(a) != 1 or len(b) != 1 or len(c) != 1:
        res.fail("writers/bg/sites", st, "expected one bedGraph line emission per writer")
    else:
        WANT = ("{}\t{}\t{}\t{}\n", ["val.start", "val.end", "ryu::Buffer::new().format(val.value)"])
        for nm, (fmt, args, node) in (("serial", a[0]), ("threaded", b[0]), ("from-bed", c[0])):
            if fmt != WANT[0] or args[1:] != WANT[1] or not (args[0] in ("chrom.name", "chrom")):
                res.fail("writers/bg/%s" % nm, node, "bedGraph line must be `chrom\\tstart\\tend\\tvalue\\n` with the value printed by ryu from the unmodified f32; got %r %s" % (fmt, args))
        if a[0][:2] != b[0][:2]:
            res.fail("writers/bg/differ", b[0][2], "threaded bedGraph writer differs from the serial one: %r %s vs %r %s" % (b[0][0], b[0][1], a[0][0], a[0][1]))
        elif not res.violations:
            res.ok(a[0][2], "bedGraph writers (serial, threaded, from-bed): identical format and argument order (chrom, start, end, ryu(value))")
    _unmodified(res, [ctx.ast.fn(BG, "write_bg_singlethreaded"), ctx.ast.fn(BG, "file_future"), ctx.ast.fn(BB, "write_bed_singlethreaded"), ctx.ast.fn(BB, "file_future")])
    q1, q2 = _queries(st, "get_interval"), _queries(ff, "get_interval")
    if len(q1) != 1 or len(q2) != 1:
        res.fail("writers/bg/query-sites", st, "one get_interval per writer expected")
    else:
        if not (q2[0][0].endswith(".name") and q2[0][1] == "lit:0" and q2[0][2].endswith(".length")):
            res.fail("writers/bg/threaded-query", ff, "threaded writer must query (chrom.name, 0, chrom.length); got %s" % q2[0])
        elif not (q1[0][0].endswith(".name") and "unwrap_or(lit:0)" in q1[0][1] and re.search(r"unwrap_or\(.*\.length\)", q1[0][2])):
            res.fail("writers/bg/serial-query", st, "serial writer must query (chrom.name, start.unwrap_or(0), end.unwrap_or(chrom.length)); got %s" % q1[0])
        else:
            res.ok(ff, "both bedGraph writers query the whole chromosome (0, length) unless restricted")
    # BED
    st = ctx.ast.fn(BB, "write_bed_singlethreaded", inline=True)
    ff = ctx.ast.fn(BB, "file_future", inline=True)
    fb = ctx.ast.fn(BB, "write_bed_from_bed", inline=True)
    a = [m for m in _emit_macros(st) if m[0].count("{}") <= 4]
    b = _emit_macros(ff)
    c = _emit_macros(fb)
    if len(a) != 2 or len(b) != 2 or len(c) != 2:
        res.fail("writers/bed/sites", st, "expected two BED line emissions (with / without rest) per writer; found %d/%d/%d" % (len(a), len(b), len(c)))
    else:
        for nm, ms in (("serial", a), ("threaded", b), ("from-bed", c)):
            full = [m for m in ms if m[0] == "{}\t{}\t{}\t{}\n"]
            short = [m for m in ms if m[0] == "{}\t{}\t{}\n"]
            if len(full) != 1 or len(short) != 1 or full[0][1][1:] != ["val.start", "val.end", "val.rest"] or short[0][1][1:] != ["val.start", "val.end"]:
                res.fail("writers/bed/%s" % nm, ms[0][2], "BED lines must be chrom\\tstart\\tend[\\trest]\\n; got %s" % [(m[0], m[1]) for m in ms])
                continue
            iff = full[0][2].parent
            while iff is not None and iff.k != "if":
                iff = iff.parent
            # the 4-column form sits in the branch taken when rest is NOT empty (`if !rest.is_empty() {4} else {3}` or `if rest.is_empty() {3} else {4}`)
            def _inside(n, anc):
                x = n
                while x is not None and isinstance(x, Node):
                    if x is anc:
                        return True
                    x = x.parent
                return False
            okr = False
            if iff is not None:
                ct = up(strip(iff["cond"])).replace(" ", "")
                in_then = _inside(full[0][2], iff["then"])
                short_other = iff.get("else") is not None and _inside(short[0][2], iff["else"] if in_then else iff["then"])
                if re.fullmatch(r"!\w+(\.\w+)*\.rest\.is_empty\(\)", ct) and in_then and short_other:
                    okr = True
                if re.fullmatch(r"\w+(\.\w+)*\.rest\.is_empty\(\)", ct) and not in_then and short_other:
                    okr = True
            if not okr:
                res.fail("writers/bed/%s/rest-test" % nm, full[0][2], "the 4-column form must be used iff rest is not empty")
        if sorted((m[0], tuple(m[1])) for m in a) != sorted((m[0], tuple(m[1])) for m in b):
            res.fail("writers/bed/differ", b[0][2], "threaded BED writer differs from the serial one")
        elif not [v for v in res.violations if "writers/bed" in v["role"]]:
            res.ok(a[0][2], "BED writers (serial, threaded, from-bed): identical formats and argument order, 3-column form iff rest is empty")
    q1, q2 = _queries(st, "get_interval"), _queries(ff, "get_interval")
    if len(q1) == 1 and len(q2) == 1 and q2[0][0].endswith(".name") and q2[0][1] == "lit:0" and q2[0][2].endswith(".length") and \
            "unwrap_or(lit:0)" in q1[0][1] and re.search(r"unwrap_or\(.*\.length\)", q1[0][2]):
        res.ok(ff, "both BED writers query the whole chromosome (0, length) unless restricted")
    else:
        res.fail("writers/bed/query", ff, "BED writers must query (chrom.name, 0|start, length|end); got %s / %s" % (q1, q2))


def ob_option_taint(ctx, res):
    """C11-F1: inmemory / channel_size / thread count reach only staging and scheduling decisions"""
    allowed_callees = {"new", "future_channel", "channel", "worker_threads", "clone"}
    n = 0
    for file in (W, "bigtools/src/bbi/bigwigwrite.rs", "bigtools/src/bbi/bigbedwrite.rs", BG, BB):
        for fn in ctx.ast.fns_in(file):
            if fn.body is None:
                continue
            for x in walk_no_nested_fn(fn.body):
                t = None
                if x.k == "field" and x["member"] in ("inmemory", "channel_size"):
                    t = x["member"]
                elif x.k == "path" and x["path"] in ("inmemory", "channel_size", "nthreads"):
                    t = x["path"]
                if t is None:
                    continue
                n += 1
                # climb to the consuming call
                p = x.parent
                child = x
                while p is not None and isinstance(p, Node) and p.k in ("ref", "cast", "field", "unary"):
                    child = p
                    p = p.parent
                ok = False
                if p is not None and p.k == "call" and child.pkey == "args":
                    cal = up(p["func"]).split("::")[-1]
                    ok = cal in allowed_callees
                    if not ok:
                        # forwarding to a repository function whose parameter at that position has the same name
                        idx = [i for i, a in enumerate(p["args"]) if a is child]
                        for tf in ctx.ast.fns:
                            if tf.name == cal and idx and idx[0] < len(tf.params) and tf.params[idx[0]][0] == t:
                                ok = True
                elif p is not None and p.k == "mcall" and child.pkey == "args":
                    ok = p["method"] in allowed_callees
                elif p is not None and p.k == "struct":
                    ok = True  # options struct construction / copy
                elif p is not None and p.k in ("let", "p_ident", "assign"):
                    ok = True
                elif p is not None and p.k == "binary" and p["op"] == "==" and t == "nthreads":
                    ok = True  # nthreads == 1 selects the runtime / the serial writer
                elif p is not None and p.k == "mcall" and child.pkey == "recv":
                    ok = p["method"] in ("clone",)
                if not ok:
                    res.fail("taint/%s" % t, x, "`%s` flows into `%s`: scheduling/staging options must not influence what is emitted" % (t, up(p)[:80] if p is not None else "?"))
    if not res.violations:
        res.ok(W, "%d uses of inmemory / channel_size / nthreads in the writer modules, all in TempFileBuffer::new, future_channel, channel(), worker_threads, option copies or the `nthreads == 1` switch" % n)
        res.count("option_uses", n)


def _unmodified(res, fns):
    """the record printed is the one the range query returned: no assignment to its fields, binding not `mut`"""
    for fn in fns:
        for n in walk_no_nested_fn(fn.body):
            if n.k in ("assign",) or (n.k == "binary" and n["op"].endswith("=") and n["op"] not in ("==", "<=", ">=", "!=")):
                l = strip(n["l"])
                if isinstance(l, Node) and l.k == "field" and up(strip(l["base"])) in ("val", "raw_val", "entry", "value"):
                    res.fail("writers/%s/modified" % fn.name, n, "`%s` alters a record between the range query and the output line: the converter no longer prints what the query returned "
                             "(e.g. records straddling --start/--end are clipped)" % up(n)[:60])
        if not [v for v in res.violations if "writers/%s/modified" % fn.name in v["role"]]:
            res.ok(fn, "%s prints the records exactly as returned by the range query" % fn.name)


def ob_stream_siblings(ctx, res):
    """C01-S1: iterator-backed sources keep the chromosome name while it does not change (fallible and infallible variants agree)"""
    BP = "bigtools/src/bed/bedparser.rs"
    a = ctx.ast.fn(BP, "next", impl="BedIteratorStream")
    b = ctx.ast.fn(BP, "next", impl="BedInfallibleIteratorStream")
    ta, tb = up(a.body), up(b.body)
    # normalise the fallible variant: drop the error arm and the Ok() wrappers in patterns
    na = ta.replace("(_,Err(e)) => return Some(Err(e.into())), ", "").replace("Ok(v)", "v")
    if na != tb:
        i = 0
        while i < min(len(na), len(tb)) and na[i] == tb[i]:
            i += 1
        res.fail("streams/siblings", b, "BedIteratorStream::next and BedInfallibleIteratorStream::next differ beyond error handling near `%s` vs `%s`" % (na[max(0, i - 40):i + 40], tb[max(0, i - 40):i + 40]))
        return
    if "(_,Err(e)) => return Some(Err(e.into()))" not in ta:
        res.fail("streams/error", a, "an error of the wrapped iterator must be passed on")
        return
    m = re.search(r"\(Some\((\w+)\),(\w+)\) => \{if \2\.0 == &\1\.0 \{Some\(\(\1\.0,\2\.1\)\)\} else \{Some\(\(\2\.0\.into\(\),\2\.1\)\)\}\}", tb)
    if not m or "(None,v) => Some((v.0.into(),v.1))" not in tb or "self.curr.as_ref().map(|v| Ok((v.0.deref(),v.1.clone())))" not in tb:
        res.fail("streams/form", b, "next must keep the stored chromosome name while the incoming one equals it, else take the new one, and yield (name, value) of the current item")
        return
    res.ok(a, "iterator sources: same chromosome -> stored name kept, new chromosome -> new name; value passed through; fallible/infallible variants identical modulo the error arm")


def ob_zoom_count_siblings(ctx, res):
    """C07-Z2: the two-pass zoom-size estimators of the bigWig and bigBed first pass agree; process_val is unconditional in every processor"""
    WW, BW = "bigtools/src/bbi/bigwigwrite.rs", "bigtools/src/bbi/bigbedwrite.rs"
    fa = ctx.ast.fn(WW, "do_process", impl="BigWigNoZoomsProcess")
    fb = ctx.ast.fn(BW, "do_process", impl="BigBedNoZoomsProcess")
    la = [n for n in walk_no_nested_fn(fa.body) if n.k == "for" and "zoom_counts" in up(n["iter"])]
    lb = [n for n in walk_no_nested_fn(fb.body) if n.k == "for" and "zoom_counts" in up(n["iter"])]
    if len(la) != 1 or len(lb) != 1:
        res.fail("zoomCounts/sites", fa, "zoom count loops not found")
        return
    from ..astq import upn
    ta = upn(fa, la[0]).replace("current_val.start", "item_start").replace("current_val.end", "item_end")
    tb = upn(fb, lb[0]).replace("current_val.start", "item_start").replace("current_val.end", "item_end")
    if ta != tb:
        res.undecided("zoomCounts/siblings", lb[0], "bigWig and bigBed first-pass zoom counters are spelled differently (compared in normal form); their agreement is not decided")
        ta = tb = None
    if ta is None:
        pass
    elif False:
        pass
    else:
        res.ok(la[0], "first-pass zoom record counters identical for bigWig and bigBed")
    from ..astq import cond_ancestors
    for file, impls, callee in ((WW, ["BigWigNoZoomsProcess"], "process_val"), (BW, ["BigBedNoZoomsProcess"], "process_val"),
                                (WW, ["BigWigZoomsProcess"], "process_val_zoom"), (BW, ["BigBedZoomsProcess"], "process_val_zoom")):
        for impl in impls:
            fn = ctx.ast.fn(file, "do_process", impl=impl)
            cs = [c for c in walk_no_nested_fn(fn.body) if c.k == "call" and up(c["func"]) == callee]
            rets = [n for n in walk_no_nested_fn(fn.body) if n.k == "return"]
            if len(cs) != 1 or cond_ancestors(cs[0]) or rets:
                res.fail("zoomCounts/%s/unconditional" % impl, fn, "%s::do_process must call %s unconditionally for every value" % (impl, callee))
            else:
                a = [up(strip(x)) for x in cs[0]["args"]]
                res.ok(cs[0], "%s::do_process: %s(..) for every value" % (impl, callee))
    # destroy(): the chromosome summary is returned as accumulated (only the empty-chromosome reset / total_items store)
    for file, impl in ((WW, "BigWigFullProcess"), (WW, "BigWigNoZoomsProcess"), (BW, "BigBedFullProcess"), (BW, "BigBedNoZoomsProcess")):
        fn = ctx.ast.fn(file, "destroy", impl=impl)
        asg = [n for n in walk_no_nested_fn(fn.body) if n.k in ("assign",) or (n.k == "binary" and n["op"].endswith("=") and n["op"] not in ("==", "<=", ">=", "!="))]
        allowed = 0
        for n in asg:
            l = up(strip(n["l"]))
            if re.fullmatch(r"\w+\.(min_val|max_val)", l) and up(strip(n["r"])) == "0.0":
                allowed += 1
            elif re.fullmatch(r"\w+\.total_items", l) and up(strip(n["r"])) == "total_items":
                allowed += 1
            else:
                res.fail("zoomCounts/%s/destroy" % impl, n, "%s::destroy alters the accumulated summary: `%s`" % (impl, up(n)))
        if not [v for v in res.violations if impl + "/destroy" in v["role"]]:
            res.ok(fn, "%s::destroy returns the accumulated summary (only the empty-chromosome reset / item count store)" % impl)
