"""Type-resolved rules over the MIR facts dumped by tools/bt-mir (callees resolved through Instance::try_resolve, result types and
overflow assertions taken from the compiler): discarded Results, u32 arithmetic on coordinates, HashMap iteration, unwrap on parse errors.

Every table below lists instances that were confirmed by reading the code; keys carry no line numbers."""
from __future__ import annotations
import re

WRITE_PATH = ("bigtools/src/bbi/bbiwrite.rs", "bigtools/src/bbi/bigwigwrite.rs", "bigtools/src/bbi/bigbedwrite.rs", "bigtools/src/bbi/beddata.rs",
              "bigtools/src/bed/bedparser.rs", "bigtools/src/bed/indexer.rs", "bigtools/src/utils/idmap.rs", "bigtools/src/utils/file/tempfilebuffer.rs",
              "bigtools/src/utils/file/file_view.rs", "bigtools/src/utils/file/streaming_linereader.rs")
MERGE_PATH = ("bigtools/src/utils/merge.rs", "bigtools/src/utils/fill.rs")


def _mir(ctx, res):
    m = ctx.mir()
    if m is None:
        res.fail("mir/unavailable", "bigtools", "MIR facts could not be produced: %s" % ctx.mir_error)
        return None
    ctx.extra_coverage["mir"] = m.summary()
    return m


def _short(name):
    return re.sub(r"::<[^<>]*(<[^<>]*>[^<>]*)*>", "", name)


def _site(m, b, c=None):
    f = m.rel((c or b)["file"])
    return "%s:%d (fn %s)" % (f, (c or b)["line"], _short(b["fn"]).split("::")[-1] if "{closure" not in b["fn"] else _short(b["fn"]).split("::{closure")[0].split("::")[-1])


# ---------------------------------------------------------------------------------------------------------------------
# M-ERR: a Result produced by a call is neither propagated, inspected, stored nor handed on

SWALLOW = ("::ok", "::err", "::unwrap_or", "::unwrap_or_default", "::unwrap_or_else", "::map_or", "::map_or_else", "::is_err", "::is_ok", "::is_ok_and", "::is_err_and", "::iter")
PROPAGATING = ("return", "discriminant", "switch", "stored", "yield", "aggregate", "field", "called")

# (function, callee, how) -> reason.  Confirmed by reading.
ERR_ALLOWED = {
    ("utils::file::remote_file::RemoteFile::read_current_block", "byteorder::ReadBytesExt::read_u8", "unwrap_or"):
        "cache probe: an unreadable status byte means `not cached yet` (0); the block is then fetched and any real I/O error surfaces there",
    ("utils::cli::bigwigmerge::MergingValues::new::{closure#1}", "std::result::Result::<T, E>::as_ref", "map_or"):
        "threshold filter on a borrowed view: errors map to `keep`, the Result itself is passed through to the consumer",
    ("utils::cli::bigwigvaluesoverbed::write::{closure#0}", "std::option::Option::<T>::ok_or_else", "discarded"):
        "name-uniqueness pre-scan of the first 10 lines only decides the row label; the columns are parsed again (with errors) in the main loop",
    ("file_like::PyFileLikeObject::new", "<pyo3::Bound<'py, pyo3::PyAny> as pyo3::types::PyAnyMethods<'py>>::getattr", "is_err"):
        "capability probe: does the Python object have read/seek/write attributes; a missing attribute becomes a TypeError",
    ("BigWigWrite::write", "std::result::Result::<T, E>::map", "unwrap_or"):
        "available_parallelism() fallback to 1 worker thread",
    ("BigBedWrite::write", "std::result::Result::<T, E>::map", "unwrap_or"):
        "available_parallelism() fallback to 1 worker thread",
}


def ob_results_used(ctx, res):
    """C14-E3 (type-resolved): no Result produced in non-test workspace code is dropped or collapsed to a default / boolean without being propagated"""
    m = _mir(ctx, res)
    if m is None:
        return
    n = swallowed = 0
    used_allow = set()
    for b in m.bodies:
        for c in b["calls"]:
            if "uses" not in c:
                continue
            n += 1
            u = set(c["uses"])
            cons = [x for x in u if x.startswith("call:std::result::Result") and any(_short(x).endswith(s) for s in SWALLOW)]
            other_calls = [x for x in u if x.startswith("call:") and x not in cons]
            propagated = bool(u & set(PROPAGATING)) or bool(other_calls)
            how = None
            if u <= {"drop"}:
                how = "discarded"
            elif cons and not propagated:
                how = _short(cons[0]).split("::")[-1]
                if how in ("ok", "err"):
                    # `r.ok()` hands the outcome on as an Option: it is a swallow only if that Option is itself dropped unused
                    # (`r.ok();`); when the Option is matched, mapped or returned the failure case reaches a decision, exactly as with
                    # `let Ok(x) = r else { .. }`
                    conv = [c2 for c2 in b["calls"] if "opt_uses" in c2 and _short(c2["callee"]).endswith("::" + how)]
                    if conv and all(set(c2["opt_uses"]) - {"drop"} for c2 in conv):
                        continue
            if how is None:
                continue
            swallowed += 1
            key = (_short(b["fn"]), c["callee"], how)
            if key in ERR_ALLOWED:
                used_allow.add(key)
                continue
            what = "dropped without being looked at" if how == "discarded" else "collapsed with `%s` and never propagated" % how
            res.fail("resultsUsed/%s/%s/%s" % (_short(b["fn"]), _short(c["callee"]), how), _site(m, b, c),
                     "the `Result<%s, %s>` returned by `%s` is %s: a failure here is reported as success" % (c["ok"][:40], c["err"][:60], _short(c["callee"]), what))
    res.count("result_call_sites", n)
    res.count("swallowing_sites_confirmed", len(used_allow))
    stale = set(ERR_ALLOWED) - used_allow
    for k in sorted(stale):
        res.note("informational: confirmed exception no longer present: %s" % (k,))
    if n < 2000:
        res.fail("resultsUsed/floor", "bigtools", "only %d Result-returning call sites seen (expected >= 2000)" % n)
        return
    if not res.violations:
        res.ok("bigtools + pybigtools (MIR)", "%d call sites returning a Result in %d non-test bodies: each result is propagated (`?`/return), inspected, stored or handed on; "
                                              "%d confirmed exceptions" % (n, len(m.bodies), len(used_allow)))


# ---------------------------------------------------------------------------------------------------------------------
# M-OVF: overflow-checked 32-bit arithmetic on the write and merge paths

# (function, op, type, left, right) -> reason
OVF_ALLOWED = {
    ("bbi::bbiwrite::write_zooms", "Add", "u32", "zoom_count", "const 1_u32"): "counts zoom levels actually written, at most MAX_ZOOM_LEVELS (C07-Z1)",
    ("utils::idmap::IdMap::get_id", "Add", "u32", "self.next_id", "const 1_u32"): "one id per distinct chromosome name held in memory",
    ("<utils::merge::ValueIter<E, I> as std::iter::Iterator>::next", "Add", "u32", "idx", "current_start"):
        "idx < data_end <= value.end - current_start for a value of this window, so idx + current_start < value.end <= u32::MAX (scan length is per window: C15-W1)",
    ("<utils::merge::ValueIter<E, I> as std::iter::Iterator>::next", "Add", "u32", "*", "const 1_u32"):
        "run end = position + 1 <= value.end <= u32::MAX for a position covered in this window",
}


READ_PATH = ("bigtools/src/bbi/bigwigread.rs", "bigtools/src/bbi/bigbedread.rs", "bigtools/src/bbi/bbiread.rs")
OVF_ALLOWED_READ = {
    ("bbi::bigwigread::get_block_values", "Add", "u32", "chrom_start", "item_span"):
        "end of a variable/fixed-step item = start + span: in a well-formed file it is at most the chromosome length (<= u32::MAX)",
}


# how many sites carry a confirmed key on the tree the table was confirmed on (default 1)
OVF_SITES = {("bbi::bigwigread::get_block_values", "Add", "u32", "chrom_start", "item_span"): 2}


def _ovf_key(b, a):
    return (_short(b["fn"]), a["op"], a["ty"], a["l"], a["r"])


def ob_reader_arithmetic(ctx, res):
    """C10-V1 (type-resolved): the same rule on the reader files (a well-formed file may use coordinates up to u32::MAX)"""
    _arith(ctx, res, READ_PATH, OVF_ALLOWED_READ, "readArith", "the reader", 25)


def ob_coordinate_arithmetic(ctx, res):
    """C13-V1 (type-resolved): overflow-checked u32/i32 additions, multiplications and shifts on the write and merge paths are confirmed one by one"""
    _arith(ctx, res, WRITE_PATH + MERGE_PATH, OVF_ALLOWED, "coordArith", "the write/merge path", 40)


def _arith(ctx, res, FILES, OVF_ALLOWED, ROLE, WHERE, FLOOR):
    m = _mir(ctx, res)
    if m is None:
        return
    n = seen = 0
    # confirmed sites are keyed by operand names; a local may be renamed without changing anything, so a site whose names are not listed is
    # accepted when the function still has no MORE narrow overflow-checked sites of that (operator, type) than were confirmed for it
    budget = {}
    for k_ in OVF_ALLOWED:
        budget[(k_[0], k_[1], k_[2])] = budget.get((k_[0], k_[1], k_[2]), 0) + (99 if k_[3] == "*" else OVF_SITES.get(k_, 1))
    exact_used = {}
    for b in m.bodies:
        if m.rel(b["file"]) not in FILES:
            continue
        for a in b["asserts"]:
            if a["kind"] == "Overflow" and a["ty"] in ("u32", "i32", "u16", "i16", "u8", "i8") and a["op"] in ("Add", "Mul", "Shl"):
                k_ = _ovf_key(b, a)
                if k_ in OVF_ALLOWED:
                    exact_used[(k_[0], k_[1], k_[2])] = exact_used.get((k_[0], k_[1], k_[2]), 0) + 1
    renamed_left = {g: max(0, budget[g] - exact_used.get(g, 0)) for g in budget}
    for b in m.bodies:
        f = m.rel(b["file"])
        if f not in FILES:
            continue
        for a in b["asserts"]:
            if a["kind"] != "Overflow":
                continue
            seen += 1
            if a["ty"] not in ("u32", "i32", "u16", "i16", "u8", "i8") or a["op"] not in ("Add", "Mul", "Shl"):
                continue
            n += 1
            k = _ovf_key(b, a)
            ok = k in OVF_ALLOWED or (k[0], k[1], k[2], "*", k[4]) in OVF_ALLOWED
            if ok:
                res.ok(_site(m, b, a), "%s %s `%s` %s `%s`: %s" % (a["ty"], a["op"], a["l"], {"Add": "+", "Mul": "*", "Shl": "<<"}[a["op"]], a["r"],
                                                                  OVF_ALLOWED.get(k) or OVF_ALLOWED[(k[0], k[1], k[2], "*", k[4])]))
                continue
            g_ = (k[0], k[1], k[2])
            if renamed_left.get(g_, 0) > 0 and not a["l"].startswith("const") and "." not in a["l"] and "." not in a["r"]:
                renamed_left[g_] -= 1
                res.ok(_site(m, b, a), "%s %s `%s` / `%s`: as many such sites in %s as were confirmed (operands renamed)" % (a["ty"], a["op"], a["l"], a["r"], k[0]))
                continue
            res.fail("%s/%s/%s/%s/%s" % (ROLE, k[0], a["op"], a["l"], a["r"]), _site(m, b, a),
                     "%s %s of `%s` and `%s` can overflow: coordinates and resolutions range up to u32::MAX (panic with overflow checks; wrap-around otherwise, "
                     "which stalls the zoom tiling loop). Use saturating/checked/wider arithmetic, or list the site with its bound" % (a["ty"], a["op"], a["l"], a["r"]))
        # arithmetic through the operator traits on references (`|z| z * 4` with z: &u32) is a call into core, which performs the same
        # overflow check: treat it like an overflow-checked primitive operation
        for c in b["calls"]:
            mm = re.match(r"<&(?:'\w+ )?(?:mut )?(u8|u16|u32|i8|i16|i32) as std::ops::(Add|Mul|Shl)<&?(?:'\w+ )?(?:u8|u16|u32|i8|i16|i32)>>::(?:add|mul|shl)$", c["callee"])
            if not mm:
                continue
            n += 1
            seen += 1
            res.fail("%s/%s/%s/by-reference" % (ROLE, _short(b["fn"]), mm.group(2)), _site(m, b, c),
                     "%s %s through `%s` (an operand is a reference, e.g. a closure parameter) is overflow-checked inside core: it can overflow for sizes near u32::MAX "
                     "(panic with overflow checks, wrapped value otherwise); use checked/saturating arithmetic" % (mm.group(1), mm.group(2), c["callee"]))
    res.count("overflow_checked_sites_on_path", seen)
    res.count("narrow_add_mul_sites", n)
    if seen < FLOOR:
        res.fail("%s/floor" % ROLE, "bigtools", "only %d overflow-checked sites seen on %s (expected >= %d)" % (seen, WHERE, FLOOR))
        return
    if not [v for v in res.violations if v["role"].startswith(ROLE + "/")]:
        res.ok("%s (MIR)" % WHERE, "%d overflow-checked arithmetic sites on %s; the %d narrow (<= 32 bit) Add/Mul/Shl among them are each bounded" % (seen, WHERE, n))


# ---------------------------------------------------------------------------------------------------------------------
# M-DIV: integer division / remainder on the write and merge paths (a zero divisor is a panic in every build profile)

# (function, kind, type) -> (number of confirmed sites, reason)
DIV_ALLOWED = {
    ("utils::cli::bigwigmerge::get_merged_vals::{closure#2}", "DivisionByZero", "usize"):
        (1, "len / max_bw_fds with max_bw_fds = 996 - 2 * max_zooms, computed once from the options; it does not depend on the input stream "
            "(zero only for --nzooms 498, an option value outside this property's quantifier)"),
}
DIV_FILES = WRITE_PATH + MERGE_PATH + ("bigtools/src/utils/cli/bigwigmerge.rs",)


def ob_division(ctx, res):
    """C13-V2 (type-resolved): every integer `/` and `%` on the write and merge paths has a divisor that is a non-zero constant, or is a confirmed site"""
    m = _mir(ctx, res)
    if m is None:
        return
    n = 0
    left = {k: v[0] for k, v in DIV_ALLOWED.items()}
    for b in m.bodies:
        if m.rel(b["file"]) not in DIV_FILES:
            continue
        for a in b["asserts"]:
            if a["kind"] not in ("DivisionByZero", "RemainderByZero"):
                continue
            n += 1
            r = a.get("r", "?")
            mm = re.match(r"const (-?\d+)_", r)
            if (mm and int(mm.group(1)) != 0) or (r.startswith("const ") and not mm):
                res.ok(_site(m, b, a), "%s by `%s`: a non-zero constant" % ("division" if a["kind"].startswith("Div") else "remainder", r))
                continue
            k = (_short(b["fn"]), a["kind"], a.get("ty", "?"))
            if left.get(k, 0) > 0:
                left[k] -= 1
                res.ok(_site(m, b, a), "%s by `%s`: %s" % (a["kind"], r, DIV_ALLOWED[k][1]))
                continue
            res.fail("division/%s/%s/%s" % (k[0], a["kind"], r), _site(m, b, a),
                     "integer %s by `%s` (%s), which is not a non-zero constant: a zero divisor panics (`attempt to divide by zero`) - e.g. the item count of a value "
                     "stream that yields no items. Divide in floating point, test the divisor first, or list the site with the reason it cannot be zero"
                     % ("division" if a["kind"].startswith("Div") else "remainder", r, a.get("ty", "?")))
        # the panicking division methods of the integer types and `/`/`%` through the operator traits on references check inside core
        for c in b["calls"]:
            mm = re.match(r"core::num::<impl ([iu](?:8|16|32|64|128|size))>::(div_ceil|div_euclid|rem_euclid|div_floor|next_multiple_of|rem|div)$", c["callee"]) or \
                re.match(r"<&(?:'\w+ )?(?:mut )?([iu](?:8|16|32|64|128|size)) as std::ops::(Div|Rem)<&?(?:'\w+ )?[iu](?:8|16|32|64|128|size)>>::(?:div|rem)$", c["callee"])
            if not mm:
                continue
            n += 1
            k = (_short(b["fn"]), mm.group(2), mm.group(1))
            if left.get(k, 0) > 0:
                left[k] -= 1
                res.ok(_site(m, b, c), "%s: %s" % (c["callee"], DIV_ALLOWED[k][1]))
                continue
            res.fail("division/%s/%s/call" % (k[0], mm.group(2)), _site(m, b, c),
                     "`%s` panics on a zero divisor and the divisor is not visible as a constant here; test the divisor first or list the site with the reason it cannot be zero" % c["callee"])
    res.count("division_sites_on_path", n)
    if n < 5:
        res.fail("division/floor", "bigtools", "only %d integer division sites seen on the write/merge path (expected >= 5): MIR facts incomplete" % n)
        return
    if not [v for v in res.violations if v["role"].startswith("division/")]:
        res.ok("write/merge path (MIR)", "%d integer division/remainder sites: divisor a non-zero constant, or a confirmed site" % n)


# ---------------------------------------------------------------------------------------------------------------------
# M-HASH: iteration over a hash container (unspecified order) in library code

HASH_ITER = re.compile(r"std::collections::(hash_map::|hash_set::)?(HashMap|HashSet)::<[^>]*>::(iter|iter_mut|into_iter|keys|values|values_mut|into_keys|into_values|drain)$|"
                       r"<&?(mut )?std::collections::(HashMap|HashSet)<[^>]*> as std::iter::IntoIterator>::into_iter$")
HASH_ALLOWED = {
    ("bbi::bbiwrite::write_chrom_tree", "iter"): "collected into a Vec that is sorted by chromosome id before anything is written (C01-K)",
}


def ob_hash_iteration(ctx, res):
    """C11-D4 (type-resolved): no iteration over a HashMap/HashSet on the way to the output bytes"""
    m = _mir(ctx, res)
    if m is None:
        return
    n = control = 0
    for b in m.bodies:
        f = m.rel(b["file"])
        for c in b["calls"]:
            if "HashMap" in c["callee"] or "HashSet" in c["callee"]:
                control += 1
            mm = HASH_ITER.search(c["callee"])
            if not mm:
                continue
            if not f.startswith("bigtools/src/"):
                continue
            n += 1
            meth = (mm.group(3) or "into_iter")
            k = (_short(b["fn"]), meth)
            if k in HASH_ALLOWED:
                res.ok(_site(m, b, c), "HashMap::%s: %s" % (meth, HASH_ALLOWED[k]))
                continue
            res.fail("hashIter/%s/%s" % (k[0], meth), _site(m, b, c),
                     "`%s` iterates a hash container: the order differs from run to run, so anything derived from it (ids, sections, bytes) is not deterministic" % _short(c["callee"]))
    res.count("hash_container_calls", control)
    res.count("hash_iterations", n)
    if control < 15:
        res.fail("hashIter/control", "bigtools", "only %d calls on HashMap/HashSet seen at all (expected >= 15): the detector would pass vacuously" % control)
        return
    if not res.violations:
        res.ok("bigtools (MIR)", "%d resolved calls on hash containers, %d of them iterate and are confirmed order-insensitive" % (control, n))


# ---------------------------------------------------------------------------------------------------------------------
# M-UNWRAP: unwrap/expect on a parse or I/O error in the functions that consume the data input

INPUT_ERRS = ("std::num::ParseIntError", "std::num::ParseFloatError", "std::str::Utf8Error", "std::string::FromUtf8Error", "bed::bedparser::BedValueError", "std::io::Error")
INPUT_PATH = ("bigtools/src/bbi/bbiwrite.rs", "bigtools/src/bbi/bigwigwrite.rs", "bigtools/src/bbi/bigbedwrite.rs", "bigtools/src/bbi/beddata.rs",
              "bigtools/src/bed/bedparser.rs", "bigtools/src/bed/indexer.rs", "bigtools/src/utils/file/streaming_linereader.rs", "bigtools/src/utils/file/file_view.rs")


def ob_input_unwraps(ctx, res):
    """C13-P2 (type-resolved): no unwrap/expect on a Result whose error type is a parse or I/O error in the code that consumes the data input"""
    m = _mir(ctx, res)
    if m is None:
        return
    n = control = 0
    for b in m.bodies:
        f = m.rel(b["file"])
        for c in b["calls"]:
            if "uses" not in c:
                continue
            uw = [x for x in c["uses"] if re.match(r"call:std::result::Result::<.*>::(unwrap|expect)$", x)]
            if not uw or c["err"] not in INPUT_ERRS:
                continue
            control += 1
            if f not in INPUT_PATH:
                continue
            n += 1
            res.fail("inputUnwrap/%s/%s" % (_short(b["fn"]), _short(c["callee"])), _site(m, b, c),
                     "`%s` returns Result<_, %s> and the result is unwrapped: malformed or unreadable input panics instead of being refused with an error" % (_short(c["callee"]), c["err"]))
    res.count("typed_unwraps_anywhere", control)
    res.count("typed_unwraps_on_input_path", n)
    if control < 10:
        res.fail("inputUnwrap/control", "bigtools", "only %d unwraps of parse/I-O results seen anywhere (positive control, expected >= 10)" % control)
        return
    if not res.violations:
        res.ok("input path (MIR)", "0 unwrap/expect of a parse or I/O Result in the %d input-path files (%d such unwraps exist elsewhere: tools' option and region parsing, "
                                   "runtime construction, staging hand-over)" % (len(INPUT_PATH), control))
