"""R-ARGS: argument/parameter name agreement at call sites of repository functions (swapped-argument rule).
Reported: two same-typed parameters p_i, p_j of a repository function receiving the identifiers/fields named p_j and p_i
respectively (a mutual swap such as `f(end, start)` for `fn f(start, end)`). One-sided name coincidences are not reported."""
from __future__ import annotations
from ..astq import Node, up, strip, walk_no_nested_fn

SCOPE = ["bigtools/src/bbi/", "bigtools/src/utils/", "bigtools/src/bed/", "pybigtools/src/"]


def _callees(ctx):
    by = {}
    for f in ctx.ast.fns:
        if f.is_test or f.body is None and False:
            continue
        by.setdefault(f.name, []).append(f)
    return by


def ob_arg_names(ctx, res):
    by = _callees(ctx)
    n_sites = 0
    n_checked = 0
    for fn in ctx.ast.fns:
        if fn.is_test or fn.body is None or not any(fn.file.startswith(s) for s in SCOPE):
            continue
        for c in walk_no_nested_fn(fn.body):
            if c.k == "call" and isinstance(c["func"], Node) and c["func"].k == "path":
                name = c["func"]["path"].split("::")[-1]
                args = c["args"]
                recv = False
            elif c.k == "mcall":
                name = c["method"]
                args = c["args"]
                recv = True
            else:
                continue
            cands = by.get(name, [])
            same = [t for t in cands if t.file == fn.file]
            cands = same or cands
            if not cands:
                continue
            # all candidates must agree on parameter names for the rule to apply
            sigs = set()
            for t in cands:
                ps = [(nm, ty) for nm, ty in t.params]
                if ps and ps[0][0] == "self":
                    ps = ps[1:] if recv or len(ps) - 1 == len(args) else ps
                sigs.add(tuple(ps))
            if len(sigs) != 1:
                continue
            params = list(sigs)[0]
            if len(params) != len(args):
                continue
            n_sites += 1
            pnames = [p[0] for p in params]
            for i, a in enumerate(args):
                a_ = strip(a)
                if not (isinstance(a_, Node) and a_.k == "path" and "::" not in a_["path"]):
                    # field access `x.start` passed for `end`?
                    if isinstance(a_, Node) and a_.k == "field":
                        an = a_["member"]
                    else:
                        continue
                else:
                    an = a_["path"]
                if pnames[i] is None:
                    continue
                n_checked += 1
                if an == pnames[i]:
                    continue
                # passed under a different name: suspicious only if another same-typed parameter carries exactly this name
                for j, (pn, pty) in enumerate(params):
                    if j != i and pn == an and pty == params[i][1]:
                        # and that other parameter does not receive its own name either
                        aj = strip(args[j])
                        ajn = aj["path"] if isinstance(aj, Node) and aj.k == "path" else (aj["member"] if isinstance(aj, Node) and aj.k == "field" else None)
                        if ajn == pnames[i] and i < j:
                            res.fail("args/%s/%s" % (fn.name, name), c, "`%s` is passed for parameter `%s` of %s(..) while parameter `%s` (same type) receives `%s`: the two arguments are swapped" % (
                                an, pnames[i], name, pn, up(aj)[:30]))
    res.count("call_sites", n_sites)
    res.count("named_arguments", n_checked)
    if n_sites < 150:
        res.fail("args/floor", "bigtools/src", "only %d resolvable call sites found (expected >= 150)" % n_sites)
        return
    if not res.violations:
        res.ok("bigtools/src", "%d call sites of repository functions, %d identifier/field arguments: none passed under the name of a different same-typed parameter" % (n_sites, n_checked))
