"""R-TERM: every loop in the anchored modules is classified; unclassifiable = violation."""
from __future__ import annotations
import re
from ..astq import Node, up, strip, strip_cast, walk_no_nested_fn, calls, walk, cond_ancestors
from ..rules.interp import Interp, NotPure, _Break, _Return, _Continue

W = "bigtools/src/bbi/bbiwrite.rs"
CONSUMERS = ("next", "pop", "pop_front", "read", "recv", "take")


def _own_nodes(loop):
    """nodes of the loop body not inside a nested loop / closure / async block"""
    out = []
    stack = [loop["body"]]
    while stack:
        x = stack.pop()
        out.append(x)
        from ..astq import children
        for _, c in children(x):
            if c.k in ("loop", "while", "for", "closure", "async", "fn"):
                continue
            stack.append(c)
    return out


def _has_exit(n):
    return any(x.k in ("break", "return") for x in walk_no_nested_fn(n)) or "?" in up(n)


def classify(fn, lp):
    """-> (class, reason) or (None, why-not)"""
    t = up(lp)
    own = _own_nodes(lp)
    if lp.k == "while":
        c = strip(lp["cond"])
        ct = up(c)
        if c.k == "let_expr" and re.search(r"\.(next|pop|pop_front|read|recv)\(\)", up(c["e"])):
            return "A", "`while let` over a finite iterator / queue / channel: ends when it yields None"
        m = re.fullmatch(r"(\w+)\.is_none\(\)", ct)
        if m and re.fullmatch(r"\{%s = \w+\.wait\(%s\)\.unwrap\(\);\}" % (m.group(1), m.group(1)), up(lp["body"])):
            return "W", "condition-variable wait (ends when the writer half publishes its state: C12-O3 / C13-W1)"
        if re.fullmatch(r"!\w+\.is_real_file_ready\(\)", ct):
            return "W", "readiness poll with yield (ends when the writer half is dropped)"
        m = re.fullmatch(r"(.+) > ([\w\.]+)", ct) or re.fullmatch(r"([\w\.]+) < (.+)", ct)
        if m:
            var = m.group(2) if ">" in ct else m.group(1)
            incs = [x for x in own if x.k == "binary" and x["op"] == "+=" and up(strip(x["l"])) == var]
            if incs and all(not [a for a, k in cond_ancestors(i) if _is_inside(a, lp["body"])] for i in incs):
                return "C", "monotone cursor: `%s` grows by `%s` every iteration until the bound is reached" % (var, up(incs[0]["r"]))
        m = re.fullmatch(r"(\w+)\.is_some\(\)", ct)
        if m:
            v = m.group(1)
            adv = [x for x in own if x.k == "assign" and up(strip(x["l"])) == v and re.search(r"\.next_index\(%s\)" % v, up(x["r"]))]
            if adv and _all_paths_exit_or(lp["body"], lambda st: any(a is x for a in adv for x in walk_no_nested_fn(st))):
                return "A", "linked-list traversal: every continuing path advances `%s` with next_index" % v
        if re.fullmatch(r"\w+\.get_first\(\)\.map\(\|\w+\| \w+\.start < \w+\)\.unwrap_or\(false\)", ct):
            st = lp["body"]["stmts"]
            first = up(st[0]) if st else ""
            ins = [x for x in own if x.k == "mcall" and x["method"] == "insert_first"]
            bound = re.search(r"< (\w+)\)", ct).group(1)
            okins = all(re.search(r"(\w+)\.start = %s; \w+\.insert_first\(\1\)" % bound, up(_encl_block(x))) for x in ins)
            if ".remove_first()" in first and okins:
                return "C", "flush loop: each iteration removes the first segment; it is re-inserted only with start = %s, which ends the loop" % bound
        if re.fullmatch(r"remaining && \w+\.len\(\) < .+", ct):
            if re.search(r"match self\.chrom_indices\.pop\(\) \{.*None => \{remaining = false; break;?\}", t.replace("\n", " ")):
                return "A", "bounded refill: each iteration pops the finite index or clears `remaining`"
        return None, "while-condition `%s` not recognised" % ct[:80]
    # `loop`
    # all arms return
    st = lp["body"]["stmts"]
    if len(st) == 1 and st[0].k == "expr_stmt" and strip(st[0]["e"]).k == "match":
        m = strip(st[0]["e"])
        if all(up(strip(a["body"])).startswith("return ") or up(strip(a["body"])).startswith("unreachable!") for a in m["arms"]):
            return "R", "every arm returns in the first iteration"
    # char cursor (take_whitespace)
    if "self.data[self.start_cursor..].char_indices()" in t and re.search(r"None => \{self\.end_cursor = self\.start_cursor; return;?\}", t):
        asg = [x for x in own if x.k == "assign" and up(strip(x["l"])) == "self.start_cursor"]
        if len(asg) == 2 and "break" in t:
            return "C", "character cursor: returns at end of input, breaks on non-whitespace, else start_cursor moves to the next character"
    # let-else on a consumer
    for x in own:
        if x.k == "let" and x.get("else") is not None and _has_exit(x["else"]):
            src = up(x["init"])
            if re.search(r"\.(next|pop|pop_front)\(\)", src):
                return "A", "`let .. = %s else { exit }`: ends when the finite source is exhausted" % src[:50]
            # let read = rx.next().await; let Some(..) = read else {break}
            nm = up(strip(x["init"]))
            for y in own:
                if y.k == "let" and up(y["pat"]) == nm and y.get("init") is not None and re.search(r"\.(next|pop|pop_front)\(\)", up(y["init"])):
                    return "A", "`let %s = %s; let Some(..) = %s else { exit }`" % (nm, up(y["init"])[:40], nm)
    # match X.next() { None => exit }  (X must live outside the loop, else nothing is consumed across iterations)
    for x in own:
        if x.k == "match" and re.search(r"\.(next|pop|pop_front)\(\)", up(x["scrut"])) and _bound_outside(fn, x["scrut"], lp):
            for a in x["arms"]:
                if up(a["pat"]) == "None" and _has_exit(a["body"]):
                    return "A", "`match %s { None => exit, .. }`" % up(x["scrut"])[:50]
    # serial source: V = match (.., V) { (.., None) => return, other arms call .next() }
    if len(st) == 1 and st[0].k == "expr_stmt" and strip(st[0]["e"]).k == "assign":
        a = strip(st[0]["e"])
        v = up(strip(a["l"]))
        m = strip(a["r"])
        if m.k == "match" and strip(m["scrut"]).k == "tuple" and up(strip(m["scrut"])["elems"][-1]) == v:
            ok = True
            none_arm = False
            for arm in m["arms"]:
                pt = up(arm["pat"])
                if pt.endswith(",None)"):
                    none_arm = _has_exit(arm["body"]) and "return" in up(arm["body"])
                elif not re.search(r"\.next\(\)", up(arm["body"])):
                    ok = False
            if ok and none_arm:
                return "A", "`%s = match (.., %s)`: the None arm returns, every other arm pulls the next value from the finite source" % (v, v)
    # curr_value = match next_val.take() {Some(v) => Some(v), None => stream.next()}; next_val = match curr_value { None => return ..}
    for x in own:
        if x.k == "match" and up(x["scrut"]) in [up(y["pat"]) for y in own if y.k == "let" and y.get("init") is not None and re.search(r"\.next\(\)", up(y["init"]))]:
            for a in x["arms"]:
                if up(a["pat"]) == "None" and "return" in up(a["body"]):
                    return "A", "value pulled from the stream each iteration; None returns"
    # counter bounded
    for x in own:
        if x.k == "if" and re.fullmatch(r"(\w+) > \d+", up(strip(x["cond"]))) and "break" in up(x["then"]):
            v = re.fullmatch(r"(\w+) > \d+", up(strip(x["cond"]))).group(1)
            if any(y.k == "binary" and y["op"] == "+=" and up(strip(y["l"])) == v and not cond_ancestors(y)[:-1] for y in own):
                return "B", "counter `%s` incremented every iteration, loop breaks above a constant" % v
    # tiling: exit `if X >= E { .. break }`; X assigned once per iteration from an expression over `min(_, E)` (add_end)
    m = re.search(r"if (\w+) >= ([\w\.]+) \{.*break", t)
    if m:
        X, E = m.group(1), m.group(2)
        asg = [x for x in own if x.k == "assign" and up(strip(x["l"])) == X]
        mins = [up(x["pat"]) for x in own if x.k == "let" and x.get("init") is not None and re.fullmatch(r"(std::cmp::|cmp::)?min\(\w+,%s\)|\w+\.min\(%s\)" % (re.escape(E), re.escape(E)), up(strip(x["init"])))]
        if len(asg) == 1 and mins and any(re.search(r"\b%s\b" % re.escape(mn), up(asg[0]["r"])) for mn in mins):
            return "C", "zoom tiling loop: the cursor `%s` moves to (at least) `%s` = min(record end, %s) each iteration, or the live record closes; exits at %s >= %s (progress argument in DESIGN.md C13-T2)" % (X, mins[0], E, X, E)
    # chunker
    if re.search(r"if chunk_start >= file_size \{break\}", t.replace(";", "")) and ".read_line(" in t:
        return "C", "chunker: chunk_start moves to the end of a line read after it; exits at file_size"
    # char iterator created outside
    for x in own:
        if x.k == "match" and re.fullmatch(r"\w+\.next\(\)", up(x["scrut"])) and _bound_outside(fn, x["scrut"], lp):
            for a in x["arms"]:
                if (up(a["pat"]) in ("None", "_")) and "return" in up(a["body"]):
                    return "A", "`match chars.next()`: one character consumed per iteration, end of input returns"
    return None, "loop shape not recognised"


def _bound_outside(fn, expr, lp):
    """the base variable of `expr` (x.next(), self.x.pop()) is bound outside loop `lp`"""
    from ..astq import binding_before
    e = strip(expr)
    while isinstance(e, Node) and e.k in ("mcall", "field", "await", "try"):
        e = strip(e["recv"] if e.k == "mcall" else (e["base"] if e.k == "field" else e["e"]))
    if not isinstance(e, Node) or e.k != "path":
        return False
    if e["path"] == "self":
        return True
    b = binding_before(fn, e["path"], expr)
    if b is None:
        return False
    return b[0] == "param" or not _is_inside(b[1], lp)


def _encl_block(n):
    b = n.parent
    while b is not None and b.k != "block":
        b = b.parent
    return b


def _is_inside(a, b):
    p = a
    while p is not None and isinstance(p, Node):
        if p is b:
            return True
        p = p.parent
    return False


def _all_paths_exit_or(block, pred):
    """every path through `block` ends in break/return or executes a statement satisfying pred (structural)"""
    def stmt_ok(st):
        if pred(st):
            return True
        e = strip(st["e"]) if st.k == "expr_stmt" else (strip(st["init"]) if st.k == "let" and st.get("init") is not None else None)
        if e is None:
            return False
        return expr_ok(e)

    def expr_ok(e):
        if e.k in ("break", "return"):
            return True
        if e.k == "block":
            return any(stmt_ok(s) for s in e["stmts"])
        if e.k == "if":
            th = any(stmt_ok(s) for s in e["then"]["stmts"])
            el = e.get("else")
            if el is None:
                return False
            return th and expr_ok(strip(el))
        if e.k == "match":
            return all(expr_ok(strip(a["body"])) for a in e["arms"])
        return False
    return any(stmt_ok(s) for s in block["stmts"])


def _loops(ctx, files):
    for f in files:
        for fn in ctx.ast.fns_in(f):
            if fn.body is None:
                continue
            for n in walk_no_nested_fn(fn.body):
                if n.k in ("loop", "while"):
                    yield fn, n


def _definitely_stuck(fn, lp):
    """a reason why the loop cannot end, when that is visible without understanding the loop: no exit at all, or a loop condition none of
    whose operands is written in the body (and no other exit)"""
    from ..astq import _place_text, _PURE_METHODS
    body = lp["body"]
    exits = [x for x in walk_no_nested_fn(body) if x.k in ("return", "try")] + [x for x in _own_nodes(lp) if x.k == "break"] + \
            [x for x in walk_no_nested_fn(body) if x.k == "break" and x.get("label")] + \
            [x for x in walk_no_nested_fn(body) if x.k == "macro" and x["path"] in ("panic", "unreachable", "unimplemented", "todo")]
    if lp.k == "loop":
        return None if exits else "the loop has no exit (no break, return or `?` in its body)"
    c = strip(lp["cond"])
    if c.k == "let_expr" or exits:
        return None
    written = set()
    for x in walk_no_nested_fn(body):
        t = None
        if x.k == "assign" or (x.k == "binary" and x["op"].endswith("=") and x["op"] not in ("==", "!=", "<=", ">=")):
            t = _place_text(x["l"])
            if x.k == "assign" and up(strip(x["l"])) == up(strip(x["r"])):
                t = None    # `x = x`
        elif x.k == "ref" and x.get("mut"):
            t = _place_text(x["e"])
        elif x.k == "mcall" and x["method"] not in _PURE_METHODS:
            t = _place_text(x["recv"])
        elif x.k in ("call", "macro", "await"):
            return None     # an opaque call may change anything reachable
        if t:
            written.add(t)
    for x in walk_no_nested_fn(c):
        if x.k == "mcall" and x["method"] not in _PURE_METHODS:
            return None
        if x.k in ("call", "macro", "await"):
            return None
    leaves = [_place_text(x) for x in walk_no_nested_fn(c) if x.k in ("path", "field") and not (x.parent is not None and isinstance(x.parent, Node) and x.parent.k == "field" and x.pkey == "base")]
    leaves = [l for l in leaves if l]
    for l in leaves:
        for w in written:
            if l == w or l.startswith(w + ".") or w.startswith(l + ".") or l.startswith(w + "["):
                return None
    return "nothing the condition `%s` reads is written in the loop body, and the body has no other exit" % up(c)[:80]


def _classify_all(ctx, res, files, floor, skip=()):
    n = 0
    for fn, lp in _loops(ctx, files):
        if (fn.name, lp.k) in skip or fn.name in skip:
            continue
        n += 1
        stuck = _definitely_stuck(fn, lp)
        if stuck:
            res.fail("term/%s" % fn.name, lp, "loop cannot end: %s: `%s`" % (stuck, up(lp)[:90]))
            continue
        cls, why = classify(fn, lp)
        if cls is None:
            res.undecided("term/%s" % fn.name, lp, "loop not classified as terminating (%s): `%s`" % (why, up(lp)[:90]))
        else:
            res.ok(lp, "class %s: %s" % (cls, why))
    if n < floor:
        res.fail("term/floor", files[0], "only %d loops found, expected >= %d" % (n, floor))


def ob_write_loops(ctx, res):
    """C13-T2"""
    _classify_all(ctx, res, [W, "bigtools/src/bbi/bigwigwrite.rs", "bigtools/src/bbi/bigbedwrite.rs", "bigtools/src/bbi/beddata.rs",
                             "bigtools/src/utils/file/tempfilebuffer.rs"], floor=10, skip=("get_rtreeindex",))


def ob_rtree_loop(ctx, res):
    """C05-T1 / C13-T1: get_rtreeindex terminates for every section count (abstract domain {0,1,>=2} for the node count)"""
    fn = ctx.ast.fn(W, "get_rtreeindex")
    loops = [n for n in walk_no_nested_fn(fn.body) if n.k == "loop"]
    if len(loops) != 1:
        res.fail("rtreeLoop/site", fn, "expected one level-building loop")
        return
    lp = loops[0]
    # exits: `if COND { break .. }` at the top of the body, COND over current_nodes.len()
    exits = [x for x in lp["body"]["stmts"] if x.k == "expr_stmt" and strip(x["e"]).k == "if" and "break" in up(strip(x["e"])["then"])]
    if not exits:
        res.fail("rtreeLoop/exit", lp, "no exit test found")
        return
    it = Interp(ctx.ast, W, extern={})
    reach = {}
    var = None
    for L in (0, 1, 2):
        ex = False
        for e in exits:
            c = strip(strip(e["e"])["cond"])
            m = re.fullmatch(r"(\w+)\.len\(\) (==|<=|<|>=|>|!=) (\d+)", up(c))
            m2 = re.fullmatch(r"(\w+)\.is_empty\(\)", up(c))
            if m:
                var = m.group(1)
                k = int(m.group(3))
                ex = ex or {"==": L == k, "<=": L <= k, "<": L < k, ">=": L >= k, ">": L > k, "!=": L != k}[m.group(2)]
            elif m2:
                var = m2.group(1)
                ex = ex or L == 0
            else:
                res.fail("rtreeLoop/exit-form", e, "exit condition `%s` is not a test on the node count" % up(c))
                return
        reach[L] = ex
    # transfer function: current_nodes = chunks(block_size) of itself => len' = ceil(len/b); with b >= 2: 0->0, 1->1, >=2 -> {1,>=2} and strictly smaller
    asg = [x for x in walk_no_nested_fn(lp["body"]) if x.k == "assign" and var and up(strip(x["l"])) == var]
    if len(asg) != 1 or ".chunks(block_size)" not in up(lp["body"]) or not re.search(r"%s\.into_iter\(\)\.chunks\(block_size\)" % var, up(lp["body"])):
        res.fail("rtreeLoop/transfer", lp, "the next level must be `chunks(block_size)` of the current level (len' = ceil(len/b))")
        return
    # pre-loop guard for the empty case
    pre_guard = False
    for x in fn.body["stmts"]:
        if x.order < lp.order and re.search(r"if %s\.is_empty\(\)" % (var or "current_nodes"), up(x)) and ("return" in up(x) or "push" in up(x)):
            pre_guard = True
    if not reach[1]:
        res.fail("rtreeLoop/exit-1", lp, "the loop does not exit when a single node remains")
        return
    if reach[2]:
        res.fail("rtreeLoop/exit-2", lp, "the loop exits with more than one node at the top level (root would not cover all blocks)")
        return
    if not reach[0] and not pre_guard:
        res.fail("rtreeLoop/zero", lp,
                 "node count 0 is a fix-point of `chunks` and the only exit is `%s`: with zero sections (a zoom level of a file whose items are all "
                 "zero-length, or a source that yields no values) get_rtreeindex never returns" % up(strip(strip(exits[0]["e"])["cond"])))
        return
    # the break value must not unwrap an empty vector
    bt = up(strip(exits[0]["e"])["then"])
    if reach[0] and re.search(r"\.pop\(\)\.unwrap\(\)", bt):
        res.fail("rtreeLoop/zero-unwrap", exits[0], "exit taken with zero nodes but the break value unwraps pop()")
        return
    res.ok(lp, "level loop over node count abstracted to {0,1,>=2}: exits at <= 1 (0 handled%s), shrinks by ceil(len/b) with b >= 2 otherwise" % (
        " before the loop" if pre_guard else " by the exit test"))


A = "bigtools/src/bed/autosql.rs"
TOKEN_METHODS = {"eat_word", "eat_one", "peek_word", "peek_one", "eat_quoted_string", "peek_quoted_string", "take"}


def ob_autosql_loops(ctx, res):
    """C19-M1: all loops in autosql.rs (floor 7); token loops must exit at end of input (abstract run with every token = "")"""
    n = 0
    for fn, lp in _loops(ctx, [A]):
        n += 1
        t = up(lp)
        def _delegates(x):
            """a call handing `parser` to a function of this file that eats a token unconditionally before anything else"""
            if not (x.k == "call" and any(up(strip(a)) == "parser" for a in x["args"])):
                return False
            cal = [f for f in ctx.ast.fns_in(A) if f.name == up(x["func"]).split("::")[-1] and f.body is not None]
            if len(cal) != 1:
                return False
            for y in walk_no_nested_fn(cal[0].body):
                if y.k == "mcall" and y["method"] in TOKEN_METHODS and up(strip(y["recv"])) == "parser":
                    return y["method"].startswith("eat_") and not [a for a, k in cond_ancestors(y) if _is_inside(a, cal[0].body)]
            return False
        uses_tokens = any(x.k == "mcall" and x["method"] in TOKEN_METHODS and up(strip(x["recv"])) == "parser" for x in walk_no_nested_fn(lp)) or "try_parse(parser)" in t \
            or any(_delegates(x) for x in walk_no_nested_fn(lp))
        if not uses_tokens:
            cls, why = classify(fn, lp)
            if cls is None:
                stuck = _definitely_stuck(fn, lp)
                if stuck:
                    res.fail("autosqlLoop/%s" % fn.name, lp, "loop cannot end: %s" % stuck)
                else:
                    res.undecided("autosqlLoop/%s" % fn.name, lp, "loop not classified as terminating (%s)" % why)
            else:
                res.ok(lp, "%s: class %s: %s" % (fn.name, cls, why))
            continue
        if fn.name == "parse_declaration_list":
            cls, why = classify(fn, lp)
            if cls == "B":
                res.ok(lp, "%s: class B: %s" % (fn.name, why))
                continue
        # class D: progress + end-of-input exit
        first_tok = None
        cond_e = strip(lp["cond"]) if lp.k == "while" else None
        for x in (list(walk_no_nested_fn(cond_e)) if cond_e is not None else []):
            # the condition of a `while` / `while let` runs once per iteration, unconditionally
            if (x.k == "mcall" and x["method"].startswith("eat_")) or (x.k == "call" and "try_parse" in up(x["func"])) or _delegates(x):
                first_tok = x
                break
        for x in (walk_no_nested_fn(lp["body"]) if first_tok is None else []):
            if (x.k == "mcall" and x["method"].startswith("eat_")) or (x.k == "call" and "try_parse" in up(x["func"])) or _delegates(x):
                if not [a for a, k in cond_ancestors(x) if _is_inside(a, lp["body"])]:
                    first_tok = x
                    break
        if first_tok is None:
            res.fail("autosqlLoop/%s/progress" % fn.name, lp, "token loop does not consume a token unconditionally in every iteration")
            continue

        def method(m, recv, args):
            if recv == "PARSER" and m in TOKEN_METHODS:
                return ""
            if m in ("to_string", "to_lowercase", "to_owned", "as_str"):
                return recv
            if m == "push":
                return None
            if m == "is_empty" and isinstance(recv, str):
                return recv == ""
            raise NotPure("method %s" % m)
        it = Interp(ctx.ast, A, extern={"None": None, "method": method, "parser": "PARSER", "path": lambda p: ("sym", p),
                                        "call": lambda f, a: ("sym", f, tuple(map(str, a)))}, max_depth=4)
        env = {"parser": "PARSER", "values": "VEC", "fields": "VEC"}
        outcome = None
        try:
            if cond_e is not None:
                if cond_e.k == "let_expr":
                    v_ = it.ev(cond_e["e"], env, 0)
                    if not it.match_pat(cond_e["pat"], v_, env):
                        raise _Break()
                elif not it.ev(cond_e, env, 0):
                    raise _Break()
            it.run_stmts(lp["body"]["stmts"], env)
            outcome = "iterates"
        except _Break:
            outcome = "break"
        except _Return:
            outcome = "return"
        except _Continue:
            outcome = "iterates"
        except NotPure as e:
            outcome = "not-analysable: %s" % e
        if outcome in ("break", "return"):
            res.ok(lp, "%s: class D: consumes a token every iteration; with every token read = \"\" (end of input) the body reaches `%s`" % (fn.name, outcome))
        elif outcome == "iterates":
            res.fail("autosqlLoop/%s/eof" % fn.name, lp,
                     "token loop has no end-of-input exit: with every token read returning \"\" the body completes and iterates again, pushing an "
                     "empty value each time (never returns, unbounded growth) -- e.g. a schema that ends inside `enum(` / `set(`")
        else:
            res.fail("autosqlLoop/%s/idiom" % fn.name, lp, "token loop %s" % outcome)
    if n < 4:
        res.fail("autosqlLoop/floor", A, "only %d loops found in autosql.rs, expected >= 4" % n)
