"""C13: refusal of unrepresentable input outside process_val (chromosome order, empty input, malformed lines), and
input-reachable panic edges."""
from __future__ import annotations
import re
from ..astq import Node, up, strip, strip_cast, walk_no_nested_fn, calls, binding_before, _tnorm
from ..rules.layout import origin
from ..rules.pred import Pred, check_table

BD = "bigtools/src/bbi/beddata.rs"
BP = "bigtools/src/bed/bedparser.rs"


def ob_chrom_order(ctx, res):
    """C13-G8"""
    fn = ctx.ast.fn(BD, "process_to_bbi", impl="BedParserStreamingIterator")
    ifs = [n for n in walk_no_nested_fn(fn.body) if n.k == "if" and "allow_out_of_order_chroms" in up(n["cond"])]
    if len(ifs) != 1 or not up(ifs[0]["then"]).startswith("{return Err("):
        res.fail("chromOrder/serial/site", fn, "serial source: expected one `if !allow_out_of_order && prev >= next { return Err }`")
    else:
        n = ifs[0]

        def role(term, node):
            t = up(strip(node))
            if term.endswith("allow_out_of_order_chroms"):
                return "?allow"
            if t.startswith("prev_chrom"):
                return "prev"
            if t == "chrom":
                return "next"
            return None
        p = Pred(_tnorm(fn, n["cond"]))
        rows, cex, err = check_table(p, role, ["prev", "next", "?allow"], lambda v: True, lambda v: (not v["?allow"]) and v["prev"] >= v["next"], "equiv")
        if err:
            res.fail("chromOrder/serial/idiom", n, err)
        elif cex:
            res.fail("chromOrder/serial/table", n, "chromosome-order refusal `%s` is not `!allow && prev >= next` on %s" % (up(n["cond"]), cex[0]))
        else:
            # the refusal precedes advance/start_processing of the new chromosome in its arm
            arm = n.parent
            while arm is not None and arm.k != "arm":
                arm = arm.parent
            later = [c for c in walk_no_nested_fn(arm["body"]) if c.k == "call" and up(c["func"]) in ("advance", "start_processing")]
            if len(later) != 2 or any(c.order < n.order for c in later):
                res.fail("chromOrder/serial/order", n, "the refusal must come before the previous chromosome is closed and the new one started")
            else:
                res.ok(n, "serial source: Err when sorted input is required and prev >= next, before advance/start_processing (%d cells)" % rows)
    # empty input
    first = [n for n in walk_no_nested_fn(fn.body) if n.k == "match" and up(strip(n["scrut"])) == "first_val"]
    ok = False
    if len(first) == 1:
        for a in first[0]["arms"]:
            if up(a["pat"]) == "None" and up(strip(a["body"])).startswith("return Err("):
                ok = True
    b = binding_before(fn, "first_val", first[0]) if first else None
    if not ok or b is None or not up(b[1]["init"]).endswith(".next()"):
        res.fail("chromOrder/serial/empty", fn, "serial source: an input without any record must be refused with Err")
    else:
        res.ok(first[0], "serial source: empty input -> Err; first record error -> Err")
    # parallel
    fn = ctx.ast.fn(BD, "process_to_bbi", impl="BedParserParallelStreamingIterator")
    ifs = [n for n in walk_no_nested_fn(fn.body) if n.k == "if" and "allow_out_of_order_chroms" in up(n["cond"])]
    if len(ifs) != 1 or not up(ifs[0]["then"]).startswith("{return Err("):
        res.fail("chromOrder/parallel/site", fn, "parallel source: expected one chromosome-order refusal")
        return
    # curr/next come from pop()/last() of the index
    from .slicing import curr_next_names
    cn = curr_next_names(fn)
    if cn is None or cn[0] == "bad":
        res.undecided("chromOrder/parallel/source", ifs[0], "the (current, next) pair of index entries was not recognised (C18-F2 decides that pair)")
        return
    curn, nxtn = cn[0], cn[1]
    from ..rules.interp import Interp, NotPure
    from ..astq import tnorm_keeping
    nf = tnorm_keeping(fn, strip(ifs[0]["cond"]), (curn, nxtn))
    rows = 0
    for allow in (False, True):
        for nxt in (None, 0, 2):        # next chromosome name ranks below / above the current one (adjacent entries are distinct)
            env = {"self": {"__ref": True, "allow_out_of_order_chroms": allow}, curn: (10, 1), nxtn: None if nxt is None else ("some", (20, nxt))}
            try:
                got = Interp(ctx.ast, BD, extern={"None": None}).ev(nf, env, 0)
            except NotPure as e:
                res.undecided("chromOrder/parallel/form", ifs[0], "refusal condition `%s` is outside the fragment the rule evaluates (%s)" % (up(ifs[0]["cond"])[:100], e))
                return
            want = (not allow) and nxt is not None and 1 > nxt
            rows += 1
            if bool(got) != want:
                res.fail("chromOrder/parallel/form", ifs[0], "parallel refusal must hold iff sorted input is required and the next index entry's chromosome sorts before the current one; "
                                                             "`%s` gives %s for allow_out_of_order=%s, next=%s" % (up(ifs[0]["cond"])[:120], got, allow, {None: "none", 0: "smaller", 2: "greater"}[nxt]))
                return
    sp = [x for x in walk_no_nested_fn(fn.body) if x.k == "call" and up(x["func"]) == "start_processing"]
    if not sp or sp[0].order < ifs[0].order:
        res.fail("chromOrder/parallel/order", ifs[0], "the refusal must precede start_processing of that chromosome")
        return
    res.ok(ifs[0], "parallel source: Err iff sorted input is required and curr > next (adjacent index entries are distinct; %d cases evaluated), before start_processing" % rows)
    # a record of another chromosome inside a chromosome's slice is refused
    tk = [n for n in walk_no_nested_fn(fn.body) if n.k == "arm" and a_guard(n, r"\w+ != curr_chrom")]
    if len(tk) != 1 or "return Err(" not in up(tk[0]["body"]):
        res.fail("chromOrder/parallel/foreign-record", fn, "a record of another chromosome inside a chromosome's slice must be an error")
    else:
        res.ok(tk[0], "parallel task: record with a different chromosome name -> Err(InvalidInput)")


def a_guard(arm, rx):
    g = arm.get("guard")
    return g is not None and re.fullmatch(rx, up(strip(g))) is not None


def ob_parse_errors(ctx, res):
    """C13-G9"""
    for name, ncols in (("parse_bed", 2), ("parse_bedgraph", 3)):
        fn = ctx.ast.fn(BP, name)
        n_ok = 0
        for c in walk_no_nested_fn(fn.body):
            if c.k == "mcall" and c["method"] == "parse":
                p = c.parent
                if not (p is not None and p.k == "mcall" and p["method"] == "map_err" and p.parent is not None and p.parent.k == "try"):
                    res.fail("parse/%s/number" % name, c, "numeric parse result must become a BedValueError (`map_err(..)?`), not a panic or a default")
                else:
                    n_ok += 1
            if c.k == "mcall" and c["method"] in ("unwrap", "expect") and ("parse" in up(c["recv"]) or "split.next()" in up(c["recv"])):
                res.fail("parse/%s/unwrap" % name, c, "unwrap/expect on a column of the input line")
        cols = [c for c in walk_no_nested_fn(fn.body) if c.k == "mcall" and c["method"] == "next" and up(strip(c["recv"])) == "split"]
        req = [c for c in cols if c.parent is not None and c.parent.k == "mcall" and c.parent["method"] in ("ok_or_else", "ok_or") and c.parent.parent is not None and c.parent.parent.k == "try"]
        if n_ok != ncols or len(req) != ncols:
            res.fail("parse/%s/columns" % name, fn, "expected %d required columns each yielding `Missing ..`/`Invalid ..` errors; found %d missing-checks, %d parse-checks" % (ncols, len(req), n_ok))
            continue
        # the function's value for a column error: evaluated (the closure's result is mocked as Err(E) / Ok(columns))
        from ..rules.interp import Interp, NotPure
        tl = fn.body["stmts"][-1]
        tail_e = strip(tl["e"]) if tl.k == "expr_stmt" and not tl.get("semi") else None
        verdict = None
        if tail_e is None:
            verdict = ("undecided", "no tail expression")
        else:
            try:
                class _Env(dict):
                    def __contains__(self, k):
                        return True
                    def __missing__(self, k):
                        return "V:" + k
                v_err = Interp(ctx.ast, BP, extern={"None": None}).ev(tail_e, _Env(res=("err", "E")), 0)
                if v_err != ("some", ("err", "E")):
                    verdict = ("differs", v_err)
            except NotPure as e:
                verdict = ("undecided", str(e))
        if verdict and verdict[0] == "undecided":
            res.undecided("parse/%s/result" % name, fn, "the value returned for a column error was not evaluated (%s)" % verdict[1])
        elif verdict:
            res.fail("parse/%s/result" % name, fn, "a column error must be returned as Some(Err(..)); the function yields %s" % (verdict[1],))
            continue
        # `None` means "no more data" to every caller, so no line that was read may produce it: the first column (`split.next()` of a splitn,
        # which always yields an item) must be taken unconditionally
        nones = [n for n in walk_no_nested_fn(fn.body) if n.k == "return" and n.get("e") is not None and up(strip(n["e"])) == "None"]
        nones += [a for a in walk_no_nested_fn(fn.body) if a.k == "arm" and up(strip(a["body"])) == "None"]
        badn = None
        for n in nones:
            m = n.parent
            while m is not None and isinstance(m, Node) and m.k != "match":
                m = m.parent
            okn = False
            if m is not None and _sqz_(up(strip(m["scrut"]))) == "split.next":
                some = [a for a in m["arms"] if up(a["pat"]).startswith("Some(")]
                # the Some arm is irrefutable: binds a plain identifier, no guard
                if len(some) == 1 and some[0].get("guard") is None and re.fullmatch(r"Some\(\w+\)", up(some[0]["pat"])):
                    okn = True
            if not okn:
                badn = n
        if badn is not None:
            res.fail("parse/%s/line-as-eof" % name, badn,
                     "%s can return None for a line that was read: every caller takes None for the end of the input, so a blank / whitespace-only / tab-led line "
                     "silently ends the serial stream (later records are dropped, write returns Ok) or is skipped by the parallel source instead of being refused" % name)
            continue
        res.ok(fn, "%s: %d required columns; missing or unparsable -> Some(Err(BedValueError::InvalidInput)); no line yields None" % (name, ncols))
    fn = ctx.ast.fn(BP, "next", impl="BedFileStream")
    # evaluated on (reader: end of input | I/O error | a line) x (parser: None | error | value)
    from ..rules.interp import Interp, NotPure
    bad = None
    for rd in (None, ("some", ("err", "IO")), ("some", ("some", "LINE  "))):
        for pr in (None, ("some", ("err", "PARSE")), ("some", ("some", ("chr", "VAL")))):
            calls_ = []

            def method(m, recv, args, rd=rd):
                if recv == "READER" and m == "read" and not args:
                    return rd
                if isinstance(recv, str) and m in ("trim_end", "trim") and not args:
                    return recv.strip() if m == "trim" else recv.rstrip()
                if m == "into" and not args:
                    return recv
                raise NotPure("method " + m)

            def parse(line, pr=pr, calls_=calls_):
                calls_.append(line)
                return pr
            me = {"__ref": True, "bed": "READER", "parse": parse}
            try:
                got = Interp(ctx.ast, BP, extern={"None": None, "method": method}).call(fn, [me])
            except NotPure as e:
                bad = ("undecided", str(e))
                break
            if rd is None:
                want = None
            elif rd[1][0] == "err":
                want = ("some", ("err", "IO"))
            else:
                want = pr
                if calls_ != ["LINE"]:
                    bad = ("differs", "the parser must be given the line without its line terminator, once; it was called with %s" % calls_)
                    break
            if got != want:
                bad = ("differs", "reader yields %s, parser yields %s: next() returns %s, required %s" % (rd, pr, got, want))
                break
        if bad:
            break
    if bad and bad[0] == "undecided":
        res.undecided("parse/stream/errors", fn, "BedFileStream::next not evaluated (%s)" % bad[1])
    elif bad:
        res.fail("parse/stream/errors", fn, "BedFileStream::next must pass I/O and parse errors on as Some(Err(..)), values as they are, and end only at the end of input: %s" % bad[1])
    else:
        res.ok(fn, "BedFileStream::next: I/O error -> Some(Err), parse error -> Some(Err), end of input -> None")


INPUT_SOURCES = re.compile(r"\.parse\(|parse_bed\(|parse_bedgraph\(|from_bed_file\(|from_bedgraph_file\(|\.read\(\)|read_line\(|lines\(\)")
CLI_FILES = ["bigtools/src/utils/cli/bedtobigbed.rs", "bigtools/src/utils/cli/bedgraphtobigwig.rs", BD, BP]
# input classes outside C13's statement (data lines of the BED/bedGraph input are in; the chromosome sizes file is configuration):
# one named symbol per exception
PANIC_EXCEPTIONS = {
    ("bedtobigbed", "chrom-sizes"): "chromosome sizes file: malformed line panics (configuration input, not a class C13 names)",
    ("bedgraphtobigwig", "chrom-sizes"): "chromosome sizes file: malformed line panics (configuration input, not a class C13 names)",
}


def _recv_origin(fn, recv):
    r = strip(recv)
    # closure parameter of `.map(|v| ..)`: element of the mapped value
    if r.k == "path" and "::" not in r["path"]:
        b = binding_before(fn, r["path"], recv)
        if b is not None and b[0] == "closure":
            cl = b[1]
            p = cl.parent
            if p is not None and p.k == "mcall" and p["method"] in ("map", "and_then", "for_each", "filter", "filter_map"):
                return origin(fn, p["recv"]) + ".<elem>"
    return origin(fn, recv)


def ob_input_panics(ctx, res):
    """C13-P1 (input-reachable part): no unwrap/expect on a value derived from parsing the data input"""
    n = 0
    for file in CLI_FILES:
        for fn in ctx.ast.fns_in(file):
            if fn.body is None:
                continue
            for c in walk_no_nested_fn(fn.body):
                if not (c.k == "mcall" and c["method"] in ("unwrap", "expect")):
                    continue
                o = _recv_origin(fn, c["recv"])
                if not INPUT_SOURCES.search(o):
                    continue
                n += 1
                # chrom sizes exception: inside the closure building chrom_map
                st = c
                in_sizes = False
                while st is not None and isinstance(st, Node):
                    if st.k == "let" and "chrom_map" in up(st["pat"]):
                        in_sizes = True
                    st = st.parent
                if in_sizes and (fn.name, "chrom-sizes") in PANIC_EXCEPTIONS:
                    res.note("%s: %s" % (fn.name, PANIC_EXCEPTIONS[(fn.name, "chrom-sizes")]))
                    continue
                if "lines()" in o and in_sizes:
                    continue
                res.fail("inputPanic/%s" % fn.name, c,
                         "`%s` unwraps a value parsed from the data input (origin %s): a malformed line panics instead of being refused with an error" % (up(c)[:60], o[:80]))
    res.count("parse_unwraps_examined", n)
    if not res.violations:
        res.ok(CLI_FILES[0], "%d unwrap/expect sites on input-derived values examined in the two converter CLIs, the sources and the parsers: none on data lines" % n)


def ob_empty_and_tool_refusals(ctx, res):
    """C13-G10: an input that yields no chromosome is refused by the writer itself (whatever the source); the converters never report success for a refusal"""
    W = "bigtools/src/bbi/bbiwrite.rs"
    for name in ("write_vals", "write_vals_no_zoom"):
        fn = ctx.ast.fn(W, name)
        pc = [c for c in walk_no_nested_fn(fn.body) if c.k == "mcall" and c["method"] == "process_to_bbi"]
        gi = [c for c in walk_no_nested_fn(fn.body) if c.k == "mcall" and c["method"] == "get_id"]
        if len(pc) != 1 or len(gi) != 1:
            res.fail("emptyInput/%s/shape" % name, fn, "process_to_bbi / id allocation not found")
            continue
        idmap = up(strip(gi[0]["recv"]))
        gs = [n for n in fn.body["stmts"] if n.k == "expr_stmt" and strip(n["e"]).k == "if" and up(strip(strip(n["e"])["cond"])) == "%s.is_empty()" % idmap
              and re.match(r"\{return Err\(", up(strip(n["e"])["then"]))]
        st = pc[0]
        while st is not None and isinstance(st, Node) and st.parent is not fn.body:
            st = st.parent
        later_ok = [n for n in fn.body["stmts"] if n.k == "let" and "unwrap_or(" in up(n.get("init") or n) and "summary" in up(n["pat"])]
        if len(gs) != 1 or st is None or not (st.order < gs[0].order) or (later_ok and not gs[0].order < later_ok[0].order):
            res.fail("emptyInput/%s" % name, pc[0],
                     "a source that starts no chromosome (an empty index on the parallel path, an empty merge, any other BBIDataSource) makes the write return Ok(()) "
                     "with an empty chromosome list: only the serial text source refuses empty input itself; the writer must refuse once the source is exhausted "
                     "without a single chromosome id")
        else:
            res.ok(gs[0], "%s: no chromosome started -> Err(InvalidInput) right after the source is exhausted" % name)
    ie = ctx.ast.fn("bigtools/src/utils/idmap.rs", "is_empty", required=False)
    if ie is None or not re.fullmatch(r"\{self\.map\.is_empty\(\)\}", up(ie.body)):
        res.fail("emptyInput/idmap", "bigtools/src/utils/idmap.rs", "IdMap::is_empty must be map.is_empty()")
    else:
        res.ok(ie, "IdMap::is_empty == map.is_empty()")
    # the converters: success is reported only by falling off the end
    for file, name in (("bigtools/src/utils/cli/bedgraphtobigwig.rs", "bedgraphtobigwig"), ("bigtools/src/utils/cli/bedtobigbed.rs", "bedtobigbed")):
        fn = ctx.ast.fn(file, name)
        created = [c for c in walk_no_nested_fn(fn.body) if c.k == "call" and up(c["func"]).endswith("::create_file")]
        if len(created) != 1:
            res.fail("toolRefusal/%s/shape" % name, fn, "creation of the output file not found")
            continue
        early = [n for n in walk_no_nested_fn(fn.body) if n.k == "return" and n.get("e") is not None and up(strip(n["e"])) == "Ok(())" and n.order > created[0].order]
        if early:
            res.fail("toolRefusal/%s" % name, early[0],
                     "`return Ok(())` after the output file has been created: the tool prints a refusal (unsorted input under --parallel yes) and exits 0, leaving an empty output file")
        else:
            res.ok(fn, "%s: no `return Ok(())` once the output file exists: a refusal is an error exit" % name)


def _sqz_(t):
    return re.sub(r"[\s()]", "", t)
