"""C14: header-last, who-may-write-the-magic, must-flush, error discipline on the write path."""
from __future__ import annotations
import re
from ..astq import Node, up, strip, strip_cast, walk_no_nested_fn, calls, dominates, cond_ancestors, toplevel_stmt
from ..rules.layout import origin, origin_short, emissions, flat_emits, Emit, Marker
from .wlayout import W, WW, BW, slot_params, recv_is_param0, split_structure

T = "bigtools/src/utils/file/tempfilebuffer.rs"
WRITE_FILES = (W, WW, BW, T)
ENTRY = [(WW, "BigWigWrite", "write"), (WW, "BigWigWrite", "write_multipass"), (BW, "BigBedWrite", "write"), (BW, "BigBedWrite", "write_multipass")]


def ob_magic_owner(ctx, res):
    """C14-H1: a non-zero magic reaches the file only through write_info's magic parameter"""
    sp_ = slot_params(ctx)
    n_uses = 0
    for file in (W, WW, BW):
        for fn in ctx.ast.fns_in(file):
            if fn.body is None:
                continue
            for n in walk_no_nested_fn(fn.body):
                if n.k == "path" and n["path"].split("::")[-1] in ("BIGWIG_MAGIC", "BIGBED_MAGIC"):
                    n_uses += 1
                    p = n.parent
                    while p is not None and p.k in ("ref", "cast"):
                        p = p.parent
                    if not (p is not None and p.k == "call" and up(p["func"]).split("::")[-1] == "write_info" and
                            [i for i, a in enumerate(p["args"]) if strip_cast(a) is n] == [sp_.get("magic")]):
                        res.fail("magic/use", n, "file magic `%s` used outside the magic argument of write_info" % n["path"])
            # emissions of a magic-valued expression outside write_info
            if fn.name != "write_info":
                for e in flat_emits(emissions(fn.body)):
                    if e.arg is not None and re.search(r"BIG(WIG|BED)_MAGIC", origin(fn, e.arg)):
                        res.fail("magic/emit", e.node, "a file magic is emitted outside write_info")
    if n_uses != 4:
        res.fail("magic/count", W, "expected 4 uses of the file magics (one per write entry point), found %d" % n_uses)
        return
    # inside write_info the magic parameter is emitted exactly twice: first field of the header and trailer
    wi = ctx.ast.fn(W, "write_info")
    ems = [e for e in flat_emits(emissions(wi.body, recv_is_param0(wi))) if e.arg is not None and origin(wi, e.arg) == "p%d" % sp_.get("magic", -1)]
    if len(ems) != 2:
        res.fail("magic/write_info", wi, "write_info must emit the magic exactly twice (header, trailer); found %d" % len(ems))
        return
    res.ok(wi, "the file magics reach an emission only as write_info's magic argument (4 call sites); emitted twice there (header, trailer)")


def ob_header_last(ctx, res):
    """C14-H2: write_info post-dominates every other use of the output file in the four write entry points"""
    for file, impl, name in ENTRY:
        fn = ctx.ast.fn(file, name, impl=impl)
        st = fn.body["stmts"]
        wi = list(calls(fn.body, func="write_info"))
        if len(wi) != 1:
            res.fail("headerLast/%s.%s/site" % (impl, name), fn, "expected one write_info call")
            continue
        tl = toplevel_stmt(wi[0])
        if tl is None or cond_ancestors(wi[0]):
            res.fail("headerLast/%s.%s/conditional" % (impl, name), wi[0], "write_info must be an unconditional top-level statement")
            continue
        if wi[0].parent is None or wi[0].parent.k != "try":
            res.fail("headerLast/%s.%s/err" % (impl, name), wi[0], "write_info's result must be propagated with `?`")
            continue
        idx = st.index(tl)
        after = st[idx + 1:]
        ok = True
        for a in after:
            t = up(a)
            if t in ("Ok(())",):
                continue
            if re.fullmatch(r"\w+\.flush\(\)\?;", t):
                continue
            res.fail("headerLast/%s.%s/after" % (impl, name), a, "statement `%s` follows write_info: the header (magic) must be the last thing written" % t[:80])
            ok = False
        if not after or up(after[-1]) != "Ok(())":
            res.fail("headerLast/%s.%s/tail" % (impl, name), fn, "entry point must end with Ok(()) right after write_info")
            ok = False
        # everything else that touches the file precedes
        others = []
        for cn in ("write_pre", "write_vals", "write_vals_no_zoom", "write_mid", "write_zooms", "write_zoom_vals"):
            others += list(calls(fn.body, func=cn))
        late = [o for o in others if o.order > wi[0].order]
        if late:
            res.fail("headerLast/%s.%s/order" % (impl, name), late[0], "`%s` runs after write_info" % up(late[0]["func"]))
            ok = False
        if len(others) < 4:
            res.fail("headerLast/%s.%s/stages" % (impl, name), fn, "expected >= 4 pipeline stages before write_info, found %d" % len(others))
            ok = False
        # early returns before write_info are error returns only (`?` or return Err)
        for n in walk_no_nested_fn(fn.body):
            if n.k == "return" and n.order < wi[0].order and not up(n).startswith("return Err("):
                res.fail("headerLast/%s.%s/early-ok" % (impl, name), n, "success return before the header is written")
                ok = False
        if ok:
            res.ok(wi[0], "%s::%s: %d stages, then write_info(..)?, then Ok(())" % (impl, name, len(others)))


def ob_must_flush(ctx, res):
    """C14-F1: every BufWriter created on the write path is flushed with `?` before success is reported"""
    # site 1: the output BufWriter of the four entry points: flush inside write_info (post-dominating the last emission) or in the caller after it
    wi = ctx.ast.fn(W, "write_info")
    parts = emissions(wi.body, recv_is_param0(wi))
    ems = [p for p in parts if isinstance(p, (Emit,)) or (isinstance(p, Marker) and p.what in ("seek", "flush"))]
    flat = []

    def rec(ps):
        for p in ps:
            if isinstance(p, (Emit, Marker)):
                flat.append(p)
            else:
                rec(p.parts)
    rec(parts)
    last_emit = max([p.node.order for p in flat if isinstance(p, Emit)], default=-1)
    fl = [p for p in flat if isinstance(p, Marker) and p.what == "flush" and p.node.order > last_emit]
    good_inside = False
    for f in fl:
        if not cond_ancestors(f.node) and f.node.parent is not None and f.node.parent.k == "try":
            good_inside = True
    for file, impl, name in ENTRY:
        fn = ctx.ast.fn(file, name, impl=impl)
        bw = [c for c in walk_no_nested_fn(fn.body) if c.k == "call" and up(c["func"]).endswith("BufWriter::new")]
        if len(bw) != 1:
            res.fail("flush/%s.%s/bufwriter" % (impl, name), fn, "expected one BufWriter::new(self.out)")
            continue
        cal = list(calls(fn.body, func="write_info"))
        after = [c for c in calls(fn.body, method="flush") if cal and c.order > cal[0].order and c.parent is not None and c.parent.k == "try" and not cond_ancestors(c)]
        if good_inside or after:
            res.ok(bw[0], "%s::%s: output BufWriter flushed with `?` %s" % (impl, name, "at the end of write_info" if good_inside else "after write_info"))
        else:
            res.fail("flush/%s.%s/missing" % (impl, name), bw[0],
                     "the output BufWriter is never flushed with `?` after the trailing magic: it is flushed only when dropped, which ignores I/O "
                     "errors, so a sink failing the last write makes write() return Ok(())")
    # site 2: future_channel -> write_data
    fc = ctx.ast.fn(W, "future_channel")
    bw = [c for c in walk_no_nested_fn(fc.body) if c.k == "call" and up(c["func"]).endswith("BufWriter::new")]
    wd_call = list(calls(fc.body, func="write_data"))
    from ..astq import binding_before
    b0 = binding_before(fc, up(strip(wd_call[0]["args"][0])), wd_call[0]) if len(wd_call) == 1 else None
    if len(bw) != 1 or len(wd_call) != 1 or b0 is None or b0[0] != "let" or "BufWriter::new(" not in up(b0[1]["init"]):
        res.fail("flush/future_channel/shape", fc, "future_channel must wrap the staging writer in one BufWriter and hand it to write_data")
        return
    wd = ctx.ast.fn(W, "write_data")
    fls = [c for c in calls(wd.body, method="flush") if origin(wd, c["recv"]) == "p0"]
    st = wd.body["stmts"]
    okf = False
    for c in fls:
        tl = toplevel_stmt(c)
        if c.parent is not None and c.parent.k == "try" and not cond_ancestors(c) and tl in st and st.index(tl) >= len(st) - 2:
            okf = True
    rets = [n for n in walk_no_nested_fn(wd.body) if n.k == "return" and "Ok(" in up(n)]
    if not okf or rets:
        res.fail("flush/write_data/missing", wd,
                 "write_data returns Ok without `data_file.flush()?`: its BufWriter<TempFileBufferWriter> is flushed on drop only, so an error writing "
                 "the last buffered sections of a chromosome is swallowed and the file is reported complete")
    else:
        res.ok(fls[0], "write_data: data_file.flush()? immediately before Ok(..)")


RESULT_METHODS = {"write_all", "write", "flush", "seek", "tell", "send", "read_exact", "read_line", "read_until", "read_to_end", "set_len", "sync_all", "sync_data",
                  "expect_closed_write", "write_u8", "write_u16", "write_u32", "write_u64", "write_f32", "write_f64", "write_i32", "write_i64", "try_send",
                  "unbounded_send", "copy", "update"}


def _result_fns(ctx):
    out = set()
    for fn in ctx.ast.fns:
        o = fn.node["sig"].get("output") or ""
        if re.match(r"^(io::|std::io::)?Result<|^Result<", o):
            out.add(fn.name)
    return out


def ob_err_discipline(ctx, res):
    """C14-E1 / C13-E1: on the write path no Result is dropped (`x;`, `let _ = x`, `.ok()`)"""
    rf = _result_fns(ctx)
    n_calls = 0
    n_prop = 0
    files = list(WRITE_FILES) + ["bigtools/src/bbi/beddata.rs"]
    for file in files:
        for fn in ctx.ast.fns_in(file):
            if fn.body is None:
                continue
            for n in walk_no_nested_fn(fn.body):
                name = None
                if n.k == "mcall" and n["method"] in RESULT_METHODS | rf:
                    name = n["method"]
                    # Vec<u8>::write_* / String pushes are infallible in practice but still Results; same rule
                elif n.k == "call" and isinstance(n["func"], Node) and n["func"].k == "path" and n["func"]["path"].split("::")[-1] in rf | {"copy"}:
                    name = n["func"]["path"].split("::")[-1]
                    same = [f for f in ctx.ast.fns_in(fn.file) if f.name == name]
                    if same and "::" not in n["func"]["path"] and not any(re.match(r"^(io::|std::io::)?Result<|^Result<", f.node["sig"].get("output") or "") for f in same):
                        name = None
                        continue
                    if name == "copy" and not n["func"]["path"].endswith("io::copy"):
                        name = None
                if name is None:
                    continue
                if name in ("send", "try_send", "unbounded_send", "write", "update", "new", "create", "flush") and n.k == "mcall":
                    pass
                n_calls += 1
                # how is the value consumed?
                p = n.parent
                child = n
                while p is not None and p.k in ("await",):
                    child = p
                    p = p.parent
                kind = None
                if p is None:
                    kind = "?"
                elif p.k == "try":
                    kind = "prop"
                elif p.k == "mcall" and child.pkey == "recv" and p["method"] in ("unwrap", "expect", "map_err", "map", "and_then", "unwrap_or", "unwrap_or_else", "is_err", "is_ok", "ok_or", "or_else", "unwrap_or_default"):
                    kind = "handled"
                elif p.k == "mcall" and child.pkey == "recv" and p["method"] == "ok":
                    # .ok() is fine only if the Option is used
                    pp = p.parent
                    kind = "dropped-ok" if (pp is not None and pp.k == "expr_stmt") else "handled"
                elif p.k == "expr_stmt":
                    kind = "tail" if not p["semi"] else "dropped"
                elif p.k == "let":
                    pat = up(p["pat"])
                    kind = "dropped-let" if pat == "_" else "bound"
                elif p.k in ("match", "if", "let_expr", "return", "closure", "arm", "call", "mcall", "macro", "tuple", "struct", "assign", "block", "binary", "ref", "field"):
                    kind = "handled"
                else:
                    kind = "handled"
                if kind in ("dropped", "dropped-let", "dropped-ok"):
                    # infallible sinks: writes into a Vec<u8> / String buffer (`bytes.write_*`) are still flagged unless `?`
                    res.fail("err/%s/%s" % (fn.name, name), n, "result of `%s` is discarded (%s): a failure here would be reported as success" % (
                        up(n)[:70], {"dropped": "statement", "dropped-let": "let _ =", "dropped-ok": ".ok();"}[kind]))
                elif kind == "prop":
                    n_prop += 1
    res.count("result_calls", n_calls)
    res.count("propagated", n_prop)
    if n_calls < 150:
        res.fail("err/floor", W, "only %d Result-returning calls found on the write path (expected >= 150)" % n_calls)
        return
    if not res.violations:
        res.ok(W, "%d Result-returning calls on the write path (bbiwrite, bigwigwrite, bigbedwrite, tempfilebuffer, beddata): %d `?`-propagated, none discarded" % (n_calls, n_prop))


def ob_join_results(ctx, res):
    """C14-E2: the Result of every spawned write task is consumed where it is joined"""
    n = 0
    for name in ("write_chroms_with_zooms", "write_chroms_without_zooms", "write_zoom_vals", "write_data", "write_vals", "write_vals_no_zoom"):
        fn = ctx.ast.fn(W, name)
        joins = [x for x in walk_no_nested_fn(fn.body) if (x.k == "await" and re.search(r"(future|handle|section_raw)", up(x["e"]))) or
                 (x.k == "mcall" and x["method"] == "block_on" and re.search(r"(fut|handle)", up(x["args"][0])))]
        for j in joins:
            n += 1
            # accepted: j.unwrap()?  |  let d = j; ... match d.unwrap() {Ok(d) => d, Err(e) => return Err(e)} | d.unwrap()?
            p = j.parent
            if p is not None and p.k == "mcall" and p["method"] in ("unwrap", "expect") and p.parent is not None and p.parent.k == "try":
                res.ok(j, "%s: join result unwrapped (task panic) and inner Result `?`-propagated" % name)
                continue
            if p is not None and p.k == "let":
                nm = up(p["pat"])
                uses = [u for u in walk_no_nested_fn(fn.body) if u.k == "mcall" and u["method"] in ("unwrap", "expect") and up(strip(u["recv"])) == nm]
                good = False
                for u in uses:
                    pp = u.parent
                    if pp is not None and pp.k == "try":
                        good = True
                    if pp is not None and pp.k == "match" and re.search(r"Err\((\w+)\) => \{?return Err\(\1\)", up(pp)):
                        good = True
                if good:
                    res.ok(j, "%s: join result bound, unwrapped and its Err returned" % name)
                    continue
            res.fail("join/%s" % name, j, "result of the joined write task `%s` is not propagated: a failed chromosome write would be reported as success" % up(j)[:60])
    res.count("joins", n)
