"""C15: merge tool clauses, lower-case literal table, merge_into case analysis, gap filling."""
from __future__ import annotations
import re
from ..astq import Node, up, strip, strip_cast, walk_no_nested_fn, walk, calls, binding_before
from ..rules.layout import origin, origin_short
from ..rules.pred import weak_orders, order_str
from ..rules.interp import Interp, NotPure

MG = "bigtools/src/utils/cli/bigwigmerge.rs"
ME = "bigtools/src/utils/merge.rs"
FI = "bigtools/src/utils/fill.rs"


def ob_merge_query(ctx, res):
    """C15-F1"""
    fn = ctx.ast.fn(MG, "get_merged_vals")
    cs = list(calls(fn.body, method="get_interval_move"))
    if len(cs) != 2:
        res.fail("mergeQuery/sites", fn, "expected 2 get_interval_move calls (chunked / direct), found %d" % len(cs))
        return
    for c in cs:
        a = c["args"]
        s = up(strip_cast(a[1]))
        if s != "0":
            res.fail("mergeQuery/start", c, "inputs are queried from base `%s` instead of 0: base 0 of every chromosome is never merged" % s)
            continue
        oe = origin(fn, a[2])
        oc = origin(fn, a[0])
        if "cparam" not in oe and "size" not in up(a[2]):
            res.fail("mergeQuery/end", c, "query end must be the agreed chromosome length")
            continue
        res.ok(c, "input queried over (chrom, 0, agreed chromosome size)")
    # size agreed: mismatch -> Err
    mm = [n for n in walk_no_nested_fn(fn.body) if n.k == "if" and re.fullmatch(r"(\w+) != (\w+)\.length", up(strip(n["cond"]))) and "return Err(" in up(n["then"])]
    if len(mm) != 1:
        res.fail("mergeQuery/size-agreement", fn, "inputs disagreeing on a chromosome's length must be refused")
    else:
        res.ok(mm[0], "chromosome length must agree across inputs (else Err)")


def _lower_sites(ctx):
    """(node, literal node, how) for every comparison against a to_lowercase()/to_ascii_lowercase() value"""
    out = []
    LOW = re.compile(r"\.to_(ascii_)?lowercase\(\)")
    for fn in ctx.ast.fns:
        if fn.body is None or fn.is_test:
            continue
        for n in walk_no_nested_fn(fn.body):
            if n.k == "mcall" and n["method"] in ("ends_with", "starts_with", "contains", "eq", "strip_suffix", "strip_prefix") and len(n["args"]) == 1:
                a = strip(n["args"][0])
                if a.k == "lit" and a["t"] == "str" and LOW.search(up(n["recv"])):
                    out.append((fn, n, a, n["method"]))
            elif n.k == "binary" and n["op"] in ("==", "!="):
                for x, y in ((n["l"], n["r"]), (n["r"], n["l"])):
                    y_ = strip(y)
                    if y_.k == "lit" and y_["t"] == "str" and (LOW.search(up(x)) or LOW.search(_local_origin_text(fn, x))):
                        out.append((fn, n, y_, n["op"]))
            elif n.k == "match":
                sc = up(n["scrut"]) + " " + _local_origin_text(fn, n["scrut"])
                if LOW.search(sc):
                    for arm in n["arms"]:
                        for p in ([arm["pat"]] if arm["pat"].k != "p_or" else arm["pat"]["cases"]):
                            if p.k == "p_lit" and p["lit"]["t"] == "str":
                                out.append((fn, arm, p["lit"], "match"))
    return out


def _local_origin_text(fn, e):
    e = strip(e)
    if isinstance(e, Node) and e.k == "path" and "::" not in e["path"]:
        b = binding_before(fn, e["path"], e)
        if b is not None and b[0] == "let" and b[1].get("init") is not None:
            return up(b[1]["init"])
    return ""


def ob_lowercase(ctx, res):
    """C15-T1 (repo-wide): a literal compared with a lower-cased string must itself be lower case"""
    sites = _lower_sites(ctx)
    n = 0
    for fn, node, litn, how in sites:
        n += 1
        v = litn["v"]
        if v != v.lower():
            res.fail("lowercase/%s" % v, node, "`%s` is compared (%s) with a lower-cased string: the comparison can never be true (the documented spelling `%s` is not accepted)" % (
                up(litn), how, v))
    res.count("comparisons", n)
    if n < 20:
        res.fail("lowercase/floor", MG, "only %d comparisons against lower-cased strings found (expected >= 20: bigwigmerge, autosql field types)" % n)
        return
    if not res.violations:
        res.ok(MG, "%d literals compared with lower-cased strings (bigwigmerge output type, autoSql field types, ..), all lower case" % n)


def ob_output_type(ctx, res):
    """C15-T2"""
    fn = ctx.ast.fn(MG, "bigwigmerge")
    ms = [n for n in walk_no_nested_fn(fn.body) if n.k == "match" and strip(n["scrut"]).k == "tuple" and "output_type" in up(n["scrut"])]
    if len(ms) != 1:
        res.fail("outputType/site", fn, "output type selection match not found")
        return
    got = {}
    fall = None
    for a in ms[0]["arms"]:
        g = a.get("guard")
        if g is None:
            fall = a
            continue
        variant = up(strip(a["body"])).strip("{}").split("::")[-1]
        for lit in [x for x in walk(g) if x.k == "lit" and x["t"] == "str"]:
            kind = "ending" if up(a["pat"]).startswith("(None") else "flag"
            got[(kind, lit["v"].lower())] = variant
    want = {("ending", ".bw"): "BigWig", ("ending", ".bigwig"): "BigWig", ("ending", ".bedgraph"): "BedGraph",
            ("flag", "bigwig"): "BigWig", ("flag", "bedgraph"): "BedGraph"}
    if got != want:
        res.fail("outputType/table", ms[0], "output type table is %s, documented: %s" % (got, want))
        return
    if fall is None or "return" not in up(fall["body"]):
        res.fail("outputType/fallthrough", ms[0], "anything else must be the only error arm")
        return
    res.ok(ms[0], "endings .bw/.bigwig -> bigWig, .bedgraph -> bedGraph; --output-type bigwig|bedgraph; else error")
    # both arms consume the same merged iterator (C15-S1)
    m2 = [n for n in walk_no_nested_fn(fn.body) if n.k == "match" and up(strip(n["scrut"])) == "output_type"]
    if len(m2) != 1:
        res.fail("outputType/use", fn, "dispatch on the output type not found")
        return
    srcs = []
    for a in m2[0]["arms"]:
        t = up(a["body"])
        if "Box::new(iter)" in t or "for v in iter" in t:
            srcs.append("iter")
    b = binding_before(fn, "iter", m2[0])
    if srcs != ["iter", "iter"] or b is None or "get_merged_vals(" not in up(b[1]["init"]):
        res.fail("outputType/same-source", m2[0], "bigWig and bedGraph outputs must both consume the iterator returned by get_merged_vals")
        return
    res.ok(m2[0], "bigWig and bedGraph arms consume the same merged value iterator")
    # bedGraph line format
    wf = [n for n in walk_no_nested_fn(fn.body) if n.k == "macro" and n["path"] == "format_args" and "args" in n]
    if len(wf) != 1 or wf[0]["args"][0]["v"] != "{}\t{}\t{}\t{}\n" or [up(strip(x)) for x in wf[0]["args"][1:]] != ["chrom", "val.start", "val.end", "val.value"]:
        res.fail("outputType/bedgraph-format", fn, "bedGraph output line must be chrom, start, end, value")
    else:
        res.ok(wf[0], "bedGraph line: chrom\\tstart\\tend\\tvalue")


def ob_transform(ctx, res):
    """C15-F2"""
    fn = ctx.ast.fn(MG, "new", impl="MergingValues")
    ms = list(calls(fn.body, func="merge_sections_many"))
    if len(ms) != 1 or origin(fn, ms[0]["args"][0]) != "p0":
        res.fail("transform/source", fn, "MergingValues must transform the output of merge_sections_many(iters)")
        return
    chain = ms[0].parent
    methods = []
    node = ms[0]
    while node.parent is not None and node.parent.k == "mcall" and node.pkey == "recv":
        node = node.parent
        methods.append(node)
    if [m["method"] for m in methods] != ["map", "filter"]:
        res.fail("transform/chain", ms[0], "expected merge_sections_many(..).map(clip, adjust).filter(> threshold); chain is %s" % [m["method"] for m in methods])
        return
    mp, fl = methods
    # the map and filter closures are evaluated on Ok(value) / Err with (threshold, adjust, clip) numeric: clip (min) first, then + adjust; kept iff > threshold
    pn = [p_[0] for p_ in fn.params]
    bad = None
    for clip in (None, 5.0):
        for adj in (None, 2.0):
            for thr in (0.0, 4.0, 6.0, 6.5):
                for item in (("some", {"__type": "Value", "start": 1, "end": 2, "value": 4.0}), ("some", {"__type": "Value", "start": 1, "end": 2, "value": 9.0}), ("err", "E")):
                    env = {pn[0]: "ITERS", pn[1]: thr, pn[2]: None if adj is None else ("some", adj), pn[3]: None if clip is None else ("some", clip)}

                    def binop(op, a_, b_):
                        if isinstance(a_, (int, float)) and isinstance(b_, (int, float)) and op in ("+", "-", "*"):
                            return a_ + b_ if op == "+" else (a_ - b_ if op == "-" else a_ * b_)
                        raise NotPure("arithmetic")

                    def method(m, recv, args):
                        if m == "as_ref" and not args:
                            return recv
                        raise NotPure("method " + m)
                    it = Interp(ctx.ast, MG, extern={"None": None, "binop": binop, "method": method, "floats": True})
                    try:
                        # lets before the chain (e.g. `let adjust = adjust.unwrap_or(0.0)`)
                        pre = [x for x in fn.body["stmts"] if x.k == "let" and x.order < ms[0].order and not any(y is ms[0] for y in walk_no_nested_fn(x))]
                        scope = dict(env)
                        it.run_stmts(pre, scope)
                        cm = it.ev(mp["args"][0], scope, 0)
                        cf_ = it.ev(fl["args"][0], scope, 0)
                        import copy
                        mapped = it.apply_closure(cm, [copy.deepcopy(item)])
                        keep = it.apply_closure(cf_, [mapped])
                    except NotPure as e:
                        bad = ("undecided", str(e))
                        break
                    if item[0] == "err":
                        want_m, want_k = item, True
                    else:
                        v0 = item[1]["value"]
                        v1 = (min(clip, v0) if clip is not None else v0) + (adj or 0.0)
                        want_m, want_k = ("some", dict(item[1], value=v1)), v1 > thr
                    if mapped != want_m:
                        bad = ("map", "for value %s, clip %s, adjust %s the transformed item is %s, required %s (clip with min first, then + adjust)" % (item, clip, adj, mapped, want_m))
                        break
                    if bool(keep) != want_k:
                        bad = ("filter", "for value %s, clip %s, adjust %s, threshold %s the item is %s, required %s (kept iff value > threshold; errors pass through)" % (item, clip, adj, thr, "kept" if keep else "dropped", "kept" if want_k else "dropped"))
                        break
                if bad:
                    break
            if bad:
                break
        if bad:
            break
    if bad and bad[0] == "undecided":
        res.undecided("transform/not-evaluable", mp, "the per-value transform is outside the fragment the rule evaluates (%s)" % bad[1])
    elif bad and bad[0] == "map":
        res.fail("transform/order", mp, "per value: clip (min) first, then + adjust: %s" % bad[1])
        return
    elif bad:
        res.fail("transform/threshold", fl, "values are kept iff value > threshold (errors pass through): %s" % bad[1])
        return
    res.ok(mp, "per merged value: clip (min) -> + adjust -> keep iff > threshold; errors pass through")
    # chunked path: partial merges must use neutral parameters
    g = ctx.ast.fn(MG, "get_merged_vals")
    news = [c for c in walk_no_nested_fn(g.body) if c.k == "call" and up(c["func"]) == "MergingValues::new"]
    if len(news) != 3:
        res.fail("transform/sites", g, "expected 3 MergingValues::new sites (partial chunk, chunked final, direct), found %d" % len(news))
        return
    for c in news:
        lp = c.parent
        in_while = False
        while lp is not None and isinstance(lp, Node):
            if lp.k == "while" and "max_bw_fds" in up(lp["cond"]):
                in_while = True
            lp = lp.parent
        a = [up(strip(x)) for x in c["args"][1:]]
        if in_while:
            neutral = a[1] in ("None",) and a[2] in ("None",) and a[0] in ("f32::NEG_INFINITY", "f32::MIN", "-f32::INFINITY")
            if not neutral:
                res.fail("transform/chunked-double", c,
                         "a partial merge of one chunk of inputs already applies clip/adjust/threshold (%s) and its output is merged again with "
                         "the same transform: with more than %s inputs the transform is applied twice and values below the threshold in a partial sum are lost" % (a, "max_bw_fds (976)"))
            else:
                res.ok(c, "partial chunk merges use the neutral transform")
        else:
            if a != ["threshold", "adjust", "clip"]:
                res.fail("transform/final-args", c, "final merge must apply (threshold, adjust, clip); got %s" % a)
            else:
                res.ok(c, "final merge applies (threshold, adjust, clip)")


def _name_node(fn, name, at):
    n = Node({"k": "path", "path": name, "sp": at["sp"]})
    n.parent = at
    n.pkey = "args"
    n.fn = fn
    n.file = fn.file
    n.order = at.order
    return n


def ob_merge_into_cases(ctx, res):
    """C15-C1: exhaustive case analysis of merge_into over order types x zero flags"""
    fn = ctx.ast.fn(ME, "merge_into")
    rows = 0

    def lin(a, b):
        return ("lin", a, b)
    for ranks in weak_orders(4):
        s1, e1, s2, e2 = ranks
        if not (s1 < e1 and s2 < e2 and e1 > s2 and e2 > s1):
            continue
        for z1 in (False, True):
            for z2 in (False, True):
                rows += 1

                def binop(op, a, b):
                    if op == "+" and isinstance(a, _Val) and isinstance(b, _Val):
                        return a + b
                    raise NotPure("arithmetic %s on %r %r" % (op, a, b))

                class V(tuple):
                    pass

                def eqhook(a, b):
                    return None
                it = Interp(ctx.ast, ME, extern={"None": None, "binop": binop})
                one = {"__type": "Value", "start": s1, "end": e1, "value": _Val(1, 0, z1, z2)}
                two = {"__type": "Value", "start": s2, "end": e2, "value": _Val(0, 1, z1, z2)}
                try:
                    out = it.call(fn, [one, two])
                except NotPure as e:
                    res.fail("mergeInto/not-pure", fn, "merge_into is outside the comparison-only fragment: %s" % e)
                    return
                pieces = []
                if not isinstance(out, tuple) or len(out) != 4:
                    res.fail("mergeInto/shape", fn, "merge_into must return a 4-tuple")
                    return
                for i, p in enumerate(out):
                    if i == 0:
                        pieces.append(p)
                    elif p is not None:
                        pieces.append(p[1] if isinstance(p, tuple) and p[0] == "some" else p)
                desc = "%s; one.value %s 0, two.value %s 0" % (order_str(dict(zip(["one.start", "one.end", "two.start", "two.end"], ranks))),
                                                               "==" if z1 else "!=", "==" if z2 else "!=")
                # pieces tile the union, in order
                lo, hi = min(s1, s2), max(e1, e2)
                cur = lo
                bad = None
                for p in pieces:
                    if p["start"] != cur:
                        bad = "pieces are not contiguous/sorted: a piece starts at rank %s, expected %s" % (p["start"], cur)
                        break
                    if not p["start"] < p["end"]:
                        bad = "empty or inverted piece"
                        break
                    v = p["value"]
                    if not isinstance(v, _Val):
                        if isinstance(v, tuple) and v[0] == "f" and v[1] == 0.0:
                            v = _Val(0, 0, z1, z2)
                        else:
                            bad = "piece value %r not a sum of the inputs" % (v,)
                            break
                    # elementary sub-intervals
                    cuts = sorted(set(r for r in ranks if p["start"] <= r <= p["end"]))
                    for a, b in zip(cuts, cuts[1:]):
                        c1 = 1 if (s1 <= a and b <= e1) else 0
                        c2 = 1 if (s2 <= a and b <= e2) else 0
                        if v.norm() != _Val(c1, c2, z1, z2).norm():
                            bad = "piece [%s,%s) has value %s but bases of rank [%s,%s) are covered by %s" % (
                                p["start"], p["end"], v, a, b, _Val(c1, c2, z1, z2))
                            break
                    if bad:
                        break
                    cur = p["end"]
                if not bad and cur != hi:
                    bad = "pieces end at rank %s, the union ends at %s" % (cur, hi)
                if bad:
                    res.fail("mergeInto/case", fn, "merge_into wrong when %s: %s" % (desc, bad))
                    return
    res.count("cases", rows)
    ctx.extra_coverage["merge_into_cases"] = rows
    res.ok(fn, "merge_into: for all %d (order type x zero-flag) cases with overlapping non-empty inputs the pieces are sorted, contiguous, cover the union, "
               "and each piece's value is the sum of the inputs covering every base of it" % rows)


class _Val(tuple):
    """a*one.value + b*two.value with knowledge which inputs are zero; supports == 0.0 tests and +"""
    def __new__(cls, a, b, z1, z2):
        return tuple.__new__(cls, ("lin", a, b, z1, z2))

    def norm(self):
        _, a, b, z1, z2 = self
        return (0 if z1 else a, 0 if z2 else b)

    def __eq__(self, o):
        if isinstance(o, tuple) and len(o) == 2 and o[0] == "f":
            if o[1] != 0.0:
                raise NotPure("comparison with a non-zero constant")
            n = self.norm()
            if n == (0, 0):
                return True
            # a non-trivial combination of non-zero inputs: only single-input forms are decidable
            if n in ((1, 0), (0, 1)):
                return False
            raise NotPure("zero test of a sum")
        if isinstance(o, _Val):
            return self.norm() == o.norm()
        return NotImplemented

    def __ne__(self, o):
        return not self.__eq__(o)

    def __hash__(self):
        return hash(tuple(self))

    def __add__(self, o):
        if isinstance(o, _Val):
            return _Val(self[1] + o[1], self[2] + o[2], self[3], self[4])
        return NotImplemented

    def __str__(self):
        _, a, b, z1, z2 = self
        return "%d*one.value + %d*two.value" % (a, b)


def _val(start, end, tag):
    return {"__type": "Value", "start": start, "end": end, "value": ("f", tag)}


def _vtxt(v):
    if isinstance(v, dict):
        return "{%s}" % ", ".join("%s: %s" % (k, _vtxt(x)) for k, x in v.items() if not k.startswith("__"))
    if isinstance(v, tuple) and len(v) == 2 and v[0] == "some":
        return "Some(%s)" % _vtxt(v[1])
    if isinstance(v, tuple) and len(v) == 2 and v[0] == "f":
        return repr(v[1])
    return repr(v)


def ob_fill(ctx, res):
    """C15-G1: FillValues::next is comparison-only over (last_end, next.start, next.end, expected_end): it is evaluated on every order type of those
    four positions x every shape of (held value, polled item, expected end) and compared with the filling stated by the property"""
    fn = ctx.ast.fn(FI, "next", impl="FillValues")
    sd = ctx.ast.struct(FI, "FillValues")
    fields = [f["name"] for f in sd["fields"]]
    if sorted(fields) != ["expected_end", "iter", "last_end", "last_val"]:
        res.fail("fill/state", sd, "FillValues is expected to hold (iter, last_val, expected_end, last_end); has %s" % fields)
        return
    rows = 0
    ERR = ("some", ("err", "E"))
    for ranks in weak_orders(4):
        le, ns, ne, ee = ranks
        if not ns < ne:
            continue   # values are non-empty intervals
        for held in (None, ("some", _val(ns, ne, 5.0))):
            for polled in (None, ERR, ("some", ("some", _val(ns, ne, 7.0)))):
                for exp in (None, ("some", ee)):
                    polls = []

                    def method(m, recv, args, polled=polled, polls=polls):
                        if m == "next" and recv == "ITER" and not args:
                            polls.append(1)
                            return polled if len(polls) == 1 else None
                        raise NotPure("method " + m)
                    me = {"__ref": True, "iter": "ITER", "last_val": held, "expected_end": exp, "last_end": le}
                    it = Interp(ctx.ast, FI, extern={"None": None, "method": method})
                    try:
                        got = it.call(fn, [me])
                    except NotPure as e:
                        res.undecided("fill/not-evaluable", fn, "FillValues::next left the comparison-only fragment the rule evaluates (%s): gap filling is not decided" % e)
                        return
                    rows += 1
                    # required by the property: gaps between values (and up to the expected end) are filled with 0.0, values pass unchanged
                    if held is not None:
                        want, wstate, wpolls = ("some", ("some", held[1])), (None, held[1]["end"]), 0
                    elif polled is ERR:
                        want, wstate, wpolls = ERR, (None, le), 1
                    elif polled is not None:
                        v = polled[1][1]
                        if ns > le:
                            want, wstate, wpolls = ("some", ("some", _val(le, ns, 0.0))), (("some", v), None), 1
                        else:
                            want, wstate, wpolls = polled, (None, ne), 1
                    elif exp is not None and le < ee:
                        want, wstate, wpolls = ("some", ("some", _val(le, ee, 0.0))), (None, ee), 1
                    else:
                        want, wstate, wpolls = None, (None, None), 1
                    case = "last_end,next.start,next.end,expected_end ranked %s; held=%s polled=%s expected_end=%s" % (ranks, _vtxt(held), _vtxt(polled), _vtxt(exp))
                    if got != want:
                        res.fail("fill/result", fn, "FillValues::next returns %s, required %s [%s]" % (_vtxt(got), _vtxt(want), case))
                        return
                    if len(polls) != wpolls:
                        res.fail("fill/polls", fn, "the input is polled %d times in one call, required %d [%s]" % (len(polls), wpolls, case))
                        return
                    if me["last_val"] != wstate[0]:
                        res.fail("fill/held", fn, "after the call the held-back value is %s, required %s [%s]" % (_vtxt(me["last_val"]), _vtxt(wstate[0]), case))
                        return
                    # after a gap filler the held value is returned next and sets last_end itself; otherwise last_end must be the end of what was returned
                    if wstate[1] is not None and me["last_end"] != wstate[1]:
                        res.fail("fill/last-end", fn, "after the call last_end has rank %s, required %s [%s]" % (me["last_end"], wstate[1], case))
                        return
                    if want is not None and isinstance(want[1], tuple) and want[1][0] == "some" and wstate[0] is not None and me["last_end"] < ns and False:
                        pass
    res.ok(fn, "FillValues::next evaluated on %d cases (every order type of last_end/next.start/next.end/expected_end x held x polled x expected end): "
               "held value returned unchanged; gap -> {last_end, next.start, 0.0} and the value is held back; no gap -> value unchanged; trailing filler up to expected_end; errors pass through" % rows)
    # constructors: where filling starts and ends
    for cname, want in (("fill", {"last_val": "None", "expected_end": "None", "last_end": "0"}),
                        ("fill_start_to_end", {"last_val": "None", "expected_end": "Some(p2)", "last_end": "p1"})):
        cf = ctx.ast.fn(FI, cname, inline=True)
        sl = [n for n in walk_no_nested_fn(cf.body) if n.k == "struct" and n["path"].endswith("FillValues")]
        if len(sl) != 1:
            res.fail("fill/ctor/%s" % cname, cf, "expected one FillValues literal")
            return
        got = {}
        from ..astq import upn, _mknode
        for x in sl[0]["fields"]:
            e = x.get("e")
            if e is None or x.get("shorthand"):
                b_ = binding_before(cf, x["name"], sl[0])
                e = b_[1]["init"] if b_ is not None and b_[0] == "let" and b_[-1] == () and b_[1].get("init") is not None else None
                if e is None:
                    got[x["name"]] = x["name"]
                    for i, (pn, _) in enumerate(cf.params):
                        if pn == x["name"]:
                            got[x["name"]] = "p%d" % i
                    continue
            t_ = upn(cf, e)
            for i, (pn, _) in enumerate(cf.params):
                t_ = re.sub(r"\b%s\b" % re.escape(pn), "p%d" % i, t_) if pn else t_
            got[x["name"]] = t_
        bad = {k: (got.get(k), v) for k, v in want.items() if got.get(k) != v}
        if bad:
            res.fail("fill/ctor/%s" % cname, sl[0], "%s must start with %s; differs in %s" % (cname, want, bad))
            return
    res.ok(fn, "fill() starts at 0 with no expected end; fill_start_to_end(iter,start,end) starts at `start` and pads to `end`; nothing held back initially")


def _direct_stmt_of(fn, n):
    x = n.parent
    while x is not None and isinstance(x, Node) and x.k not in ("expr_stmt", "let"):
        x = x.parent
    return x is not None and isinstance(x, Node) and x.parent is fn.body


def _inside_node(n, root):
    x = n
    while x is not None and isinstance(x, Node):
        if x is root:
            return True
        x = x.parent
    return False


def ob_window(ctx, res):
    """C15-W1: clauses of the 50,000-base window accumulator (ValueIter::next).  Index expressions and hold-back conditions are decided as functions of
    (window start, value start, value end, window size) by R-EQUIV; the re-encoding loop's arithmetic is NOT decided"""
    from ..rules import equiv as EQ
    from ..astq import upn, walk_with_callees, private_callees
    fn = ctx.ast.fn(ME, "next", impl="ValueIter")
    acc = [n for n in walk_no_nested_fn(fn.body) if n.k == "for" and strip(n["iter"]).k == "index" and strip(strip(n["iter"])["index"]).k == "range"]
    if len(acc) != 1:
        res.undecided("window/accumulate", fn, "no single `for i in &mut data[a..b]` accumulation loop: the window accumulator's shape is not recognised, its clauses are not decided")
        return
    lp = acc[0]
    rng = strip(strip(lp["iter"])["index"])
    if rng.get("from") is None or rng.get("to") is None:
        res.undecided("window/accumulate", lp, "accumulation range is open-ended")
        return
    body = strip(lp["body"])
    st_ = body["stmts"] if body.k == "block" else []
    e0 = strip(st_[0]["e"]) if len(st_) == 1 and st_[0].k == "expr_stmt" else None
    if e0 is None or e0.k != "binary" or e0["op"] != "+=" or not re.fullmatch(r"\*?\w+", up(strip(e0["l"]))) or not re.fullmatch(r"(\w+\.value|\w+)( as f64)?", upn(fn, e0["r"])):
        res.fail("window/accumulate-form", lp, "each base of the window must receive `+= value`; loop body is `%s`" % up(body)[:80])
        return
    if not re.search(r"as f64$|^f64::from\(", upn(fn, e0["r"])):
        res.fail("window/precision", lp, "per-base sums must be accumulated in f64 (`+= value as f64`) and rounded to f32 once on output: f32 partial sums lose small contributions "
                                         "and depend on the order of the inputs; accumulated term is `%s`" % up(e0["r"]))
        return
    # names by role
    cs = [n for n in walk_no_nested_fn(fn.body) if n.k == "let" and n.get("init") is not None and up(strip(n["init"])) == "self.next_start" and n["pat"].k == "p_ident"]
    if len(cs) != 1:
        res.undecided("window/start", fn, "the window start is expected to be read once from self.next_start into a local")
        return
    csn = cs[0]["pat"]["name"]
    roles = {"cs": re.escape(csn), "vs": r"\w+\.start", "ve": r"\w+\.end", "DS": r"DATA_SIZE"}
    pre = lambda e: e["DS"] >= 1 and e["vs"] < e["ve"] and e["ve"] > e["cs"]
    dom = range(0, 5)
    # 2. index computation (from the property: each value is added to the bases it covers, cut to the window)
    r1 = EQ.require(res, "window/indices", lp, fn, rng["from"], roles, lambda e: max(e["cs"], e["vs"]) - e["cs"], "first window slot of a value must be max(window start, v.start) - window start", domain=dom, pre=pre)
    r2 = EQ.require(res, "window/indices", lp, fn, rng["to"], roles, lambda e: min(e["DS"], e["ve"] - e["cs"]), "end slot of a value must be min(window size, v.end - window start)", domain=dom, pre=pre)
    if r1 is False or r2 is False:
        return
    if r1 and r2:
        res.ok(lp, "window indices: [max(window start, v.start), min(window end, v.end)) relative to the window start (R-EQUIV over %s)" % sorted(roles))
    # 1. must-follow: the window's used length is extended to the end slot before the iteration can be left
    blk = lp.parent
    while blk is not None and blk.k != "block":
        blk = blk.parent
    st = blk["stmts"]
    i0 = [i for i, s_ in enumerate(st) if any(x is lp for x in walk_no_nested_fn(s_))][0]
    ext = None
    xname = None
    for j in range(i0 + 1, len(st)):
        e = strip(st[j]["e"]) if st[j].k == "expr_stmt" else None
        if e is not None and e.k == "assign" and re.fullmatch(r"\w+", up(strip(e["l"]))):
            xn = up(strip(e["l"]))
            rr = dict(roles)
            rr["x"] = re.escape(xn)
            q = EQ.equiv(fn, e["r"], rr, lambda v: max(v["x"], min(v["DS"], v["ve"] - v["cs"])), domain=range(0, 4), pre=pre)
            if q[0] == "equal":
                ext, xname = j, xn
                break
        if any(x.k in ("break", "continue", "return") for x in walk_no_nested_fn(st[j])):
            res.fail("window/extent-after-exit", st[j],
                     "after a value's bases were added to the window, the iteration can be left (`%s`) before the window's used length is extended to the value's end slot: "
                     "everything a value that reaches the window end contributed is cut off when the window is re-encoded" % up(st[j])[:50])
            return
    if ext is None:
        res.fail("window/extent", blk, "the window's used length is never extended to the value's end slot (max(len, end slot)) after accumulating")
        return
    res.ok(st[ext], "accumulate, then extend the used length `%s` to the end slot before any exit of the iteration" % xname)
    # 3. hold-back sites
    holds = [n for n in walk_no_nested_fn(fn.body) if n.k == "if" and any(x.k == "break" for x in walk_no_nested_fn(n["then"]))
             and any(x.k == "assign" and up(strip(x["r"])).startswith("Some(") for x in walk_no_nested_fn(n["then"])) and _inside_node(n, blk)]
    kinds = {}
    for h in holds:
        for nm, ref in (("start-beyond", lambda e: max(e["cs"], e["vs"]) - e["cs"] >= e["DS"]), ("reaches-end", lambda e: e["ve"] - e["cs"] >= e["DS"])):
            q = EQ.equiv(fn, h["cond"], roles, ref, domain=dom, pre=pre)
            if q[0] == "equal":
                kinds.setdefault(nm, h)
            elif q[0] == "unknown":
                kinds.setdefault("?", (h, q[1]))
    if "start-beyond" not in kinds or "reaches-end" not in kinds:
        if "?" in kinds:
            res.undecided("window/hold-back", kinds["?"][0], "hold-back condition not decided (%s)" % kinds["?"][1])
        else:
            res.fail("window/hold-back", fn, "a value beyond the window (start slot >= window size) or reaching its end (v.end - window start >= window size) must be held back "
                                             "for the next window; conditions found: %s" % sorted(up(strip(h["cond"])) for h in holds))
            return
    else:
        res.ok(holds[0], "values starting beyond or reaching the end of the window are held back (`*last = Some(v); break`) and re-examined in the next window")
    # 4. window advance
    adv = [n for n in walk_no_nested_fn(fn.body) if n.k == "assign" and up(strip(n["l"])) == "self.next_start"]
    if len(adv) != 1 or not precedes_in_block(cs[0], adv[0]):
        res.undecided("window/advance", fn, "expected `let start = self.next_start;` followed by one assignment of self.next_start")
    else:
        q = EQ.equiv(fn, adv[0]["r"], {"cs": re.escape(csn) + r"|self\.next_start", "DS": "DATA_SIZE"}, lambda e: e["cs"] + e["DS"], domain=range(0, 6))
        if q[0] == "differs":
            res.fail("window/advance", adv[0], "windows must tile the chromosome: next_start advances by exactly the window size per window; `%s` gives %s for %s" % (up(adv[0]["r"]), q[2], q[1]))
            return
        if q[0] == "unknown":
            res.undecided("window/advance", adv[0], "window advance not decided (%s)" % q[1])
        else:
            plain = [x for x in walk_no_nested_fn(adv[0]["r"]) if x.k == "binary" and x["op"] == "+"]
            if plain:
                res.fail("window/advance-overflow", adv[0],
                         "`%s` is a plain u32 addition: after a window within 50,000 bases of u32::MAX it overflows (panic with overflow checks); "
                         "no value can start at or after such a window, so the start must saturate" % up(adv[0]["r"]))
                return
            res.ok(adv[0], "windows tile the coordinate space: start = next_start; next_start = start (+sat) window size")
    # the scanned length belongs to one window: declared inside the window loop (a stale length re-scans zero slots of a later, empty
    # window and computes their positions, which overflows near u32::MAX)
    wl = [n for n in walk_no_nested_fn(fn.body) if n.k == "loop" and n.parent is not None and _direct_stmt_of(fn, n)]
    mdl = [n for n in walk_no_nested_fn(fn.body) if n.k == "let" and n["pat"].k == "p_ident" and n["pat"]["name"] == xname]
    if len(mdl) != 1 or not wl:
        res.undecided("window/scan-length", fn, "the used-length local `%s` / the window loop were not found in the expected shape" % xname)
    elif not _inside_node(mdl[0], wl[0]["body"]):
        res.fail("window/scan-length", mdl[0], "`%s` must be reset for every window (declared inside the window loop)" % xname)
        return
    # 5. zero runs are not emitted: every re-encoded run is pushed under `sum != 0.0`
    helpers = private_callees(ctx.ast, fn, 1)
    sites, bad = 0, []
    for g in [fn] + helpers:
        for p_ in walk_no_nested_fn(g.body):
            if not (p_.k == "mcall" and p_["method"] == "push" and len(p_["args"]) == 1 and strip(p_["args"][0]).k == "struct" and strip(p_["args"][0])["path"].endswith("Value")):
                continue
            if g is fn and _inside_closure(p_):
                continue
            lit = strip(p_["args"][0])
            val = [f for f in lit["fields"] if f["name"] == "value"]
            vt = upn(g, strip_cast(val[0]["e"])) if val and val[0].get("e") is not None else "value"
            iff = p_.parent
            guarded = False
            while iff is not None and isinstance(iff, Node):
                if iff.k == "if" and upn(g, iff["cond"]) in ("0.0 != %s" % vt, "%s != 0.0" % vt) and _inside_node(p_, iff["then"]):
                    guarded = True
                    break
                iff = iff.parent
            if not guarded:
                bad.append(p_)
            if g is fn:
                sites += 1
            else:
                sites += len([c for c in walk_no_nested_fn(fn.body) if (c.k == "call" and up(c["func"]).split("::")[-1] == g.name) or (c.k == "mcall" and c["method"] == g.name)])
    if bad:
        res.fail("window/zero-runs", bad[0], "a re-encoded run is emitted without the `sum != 0.0` test: zero-sum stretches of the window would be written as values")
        return
    if sites < 2:
        res.fail("window/zero-runs", fn, "runs must be emitted at two places (value change, end of window); found %d" % sites)
        return
    res.ok(fn, "runs are re-encoded at value changes and at the end of the window (%d sites), zero-sum runs are dropped" % sites)


def _inside_closure(n):
    x = n.parent
    while x is not None and isinstance(x, Node):
        if x.k == "closure":
            return True
        x = x.parent
    return False


def precedes_in_block(a, b):
    return a.order < b.order


# ---------------------------------------------------------------------------------------------------------------------
# C15-W2: the hand-off between two windows.  The last run of the previous window is held back in `self.last_val` and put in front of the runs of
# the next window; that step (with the local `insert_into_queue` closure and `merge_into`) is run on small run lists and must leave the value of
# every base as it was.

_HANDOFF_CASES = [
    ((80, 90, 2.0), [(100, 110, 2.0), (110, 120, 3.0)]),     # a gap before the window, same value on both sides
    ((90, 100, 2.0), [(100, 110, 2.0)]),                     # adjacent, same value (may be joined or not)
    ((90, 100, 1.0), [(100, 110, 2.0)]),                     # adjacent, different value
    (None, [(100, 110, 2.0)]),
    ((90, 100, 2.0), []),
    ((50, 60, 3.0), [(105, 106, 3.0), (106, 130, 1.0)]),
    ((10, 20, 2.0), [(100, 101, 2.0)]),                      # equal runs several windows apart
]


def _fresh_window_buffer(ctx, res, fn):
    """window/fresh-buffer: the per-base accumulator of a window starts from zero in every window: it is allocated inside the window loop, or re-zeroed there"""
    lps = [n for n in walk_no_nested_fn(fn.body) if n.k == "loop"]
    if not lps:
        res.undecided("window/fresh-buffer", fn, "window loop not found")
        return
    lp = lps[0]
    accs = set()
    for x in walk_no_nested_fn(lp["body"]):
        if x.k == "for" and strip(x["iter"]).k in ("ref", "index") or (x.k == "for" and "&mut " in up(x["iter"])):
            mm_ = re.match(r"&mut ([a-z_]\w*)\[", up(x["iter"]))
            if mm_ and any(y.k == "binary" and y["op"] == "+=" for y in walk_no_nested_fn(x["body"])):
                accs.add(mm_.group(1))
    if len(accs) != 1:
        res.undecided("window/fresh-buffer", lp, "the per-base accumulator of the window was not identified (%s)" % sorted(accs))
        return
    acc = accs.pop()
    inside = [x for x in walk_no_nested_fn(lp["body"]) if x.k == "let" and up(x["pat"]).replace("mut ", "") == acc]
    zeroed = [x for x in walk_no_nested_fn(lp["body"]) if x.k == "mcall" and x["method"] == "fill" and up(strip(x["recv"])) == acc and len(x["args"]) == 1
              and up(strip(x["args"][0])) in ("0.0", "0f64", "0.0f64", "0.")]
    if inside:
        init = up(strip(inside[0]["init"])) if inside[0].get("init") is not None else ""
        if re.match(r"vec!\[0(\.0)?(f64)?;", init.replace(" ", "")) or "zeroed" in init or "vec![0" in init.replace(" ", ""):
            res.ok(inside[0], "window accumulator `%s` is allocated zeroed inside the window loop: every window starts from zero" % acc)
        else:
            res.undecided("window/fresh-buffer", inside[0], "initial contents of the window accumulator `%s` not recognised (`%s`)" % (acc, init[:50]))
    elif zeroed and zeroed[0].order < min([x.order for x in walk_no_nested_fn(lp["body"]) if x.k == "for"] or [10 ** 9]):
        res.ok(zeroed[0], "window accumulator `%s` is re-zeroed at the start of every window" % acc)
    else:
        res.fail("window/fresh-buffer", lp, "the per-base accumulator `%s` is allocated outside the window loop and not re-zeroed inside it: when one call walks more than one window "
                                            "(a window yielding a single run, or an empty one) the sums of the previous window are added into the next" % acc)


def ob_window_handoff(ctx, res):
    """C15-W2"""
    from ..rules.interp import Interp, NotPure, _Return
    fn = ctx.ast.fn(ME, "next", impl="ValueIter")
    _fresh_window_buffer(ctx, res, fn)
    lps = [n for n in walk_no_nested_fn(fn.body) if n.k == "loop"]
    st = lps[0]["body"]["stmts"] if lps and lps[0]["body"].k == "block" else []
    i1 = [i for i, x in enumerate(st) if re.search(r"self\.last_val = Some\(", up(x))]
    i0 = [i for i, x in enumerate(st) if "self.last_val.take()" in up(x) or "self.last_val" in up(x)]
    cl = [i for i, x in enumerate(st) if x.k == "let" and x.get("init") is not None and strip(x["init"]).k == "closure"]
    if not i1 or not i0:
        res.undecided("handoff/site", fn, "the statements that put the held-back run in front of the next window's runs were not located")
        return
    lo = min([i for i in cl if i < i1[0]] + [i0[0]])
    block = st[lo:i1[0]]
    names = set(re.findall(r"\b[a-z_]\w*\b", " ".join(up(x) for x in block)))
    qname = "next_sections" if "next_sections" in names else None
    if qname is None:
        res.undecided("handoff/site", fn, "the run list of the next window (`next_sections`) is not named in the hand-off statements")
        return

    def rec(s, e, v):
        return {"__ref": True, "__type": "Value", "start": s, "end": e, "value": v}
    n_ok = 0
    for last, secs in _HANDOFF_CASES:
        def method(m, recv, args):
            if isinstance(recv, list):
                if m == "is_empty" and not args:
                    return not recv
                if m == "len" and not args:
                    return len(recv)
                if m in ("last", "last_mut") and not args:
                    return ("some", recv[-1]) if recv else None
                if m in ("first", "first_mut") and not args:
                    return ("some", recv[0]) if recv else None
                if m == "push" and len(args) == 1:
                    recv.append(args[0])
                    return None
                if m == "insert" and len(args) == 2 and isinstance(args[0], int) and 0 <= args[0] <= len(recv):
                    recv.insert(args[0], args[1])
                    return None
                if m == "remove" and len(args) == 1 and isinstance(args[0], int) and 0 <= args[0] < len(recv):
                    return recv.pop(args[0])
                if m == "pop" and not args:
                    return ("some", recv.pop()) if recv else None
                if m in ("iter_mut", "iter", "into_iter") and not args:
                    return recv
                if m == "enumerate" and not args:
                    return [(i, x) for i, x in enumerate(recv)]
                if m in ("get", "get_mut") and len(args) == 1 and isinstance(args[0], int):
                    return ("some", recv[args[0]]) if 0 <= args[0] < len(recv) else None
            raise NotPure("method %s on %s" % (m, type(recv).__name__))

        def call(p_, args):
            if p_.split("::")[-2:] == ["mem", "replace"] and len(args) == 2 and isinstance(args[0], dict) and isinstance(args[1], dict):
                old = dict(args[0])
                args[0].clear()
                args[0].update(args[1])
                args[0]["__ref"] = True
                old["__ref"] = True
                return old
            return NotImplemented

        def binop(op, a, b):
            if isinstance(a, (int, float)) and isinstance(b, (int, float)):
                if op == "+":
                    return a + b
                if op == "-":
                    return a - b
                if op == "*":
                    return a * b
            raise NotPure("arithmetic")

        def macro(n_, args):
            raise NotPure("macro " + n_["path"])
        it = Interp(ctx.ast, ME, extern={"None": None, "method": method, "call": call, "binop": binop, "floats": True, "macro": macro})
        env = {"self": {"__ref": True, "last_val": None if last is None else ("some", rec(*last))}, qname: [rec(*x) for x in secs], "current_start": 100,
               "all_none": False, "max_sections": len(secs)}
        try:
            it.run_stmts(block, env, 0)
        except (NotPure, _Return) as e:
            res.undecided("handoff/eval", block[0], "hand-off statements outside the evaluated fragment (%s)" % str(e)[:80])
            return
        except Exception as e:
            res.undecided("handoff/eval", block[0], "hand-off statements not evaluated (%s: %s)" % (type(e).__name__, str(e)[:60]))
            return
        after = [(r["start"], r["end"], r["value"]) for r in env[qname]]
        lv = env["self"].get("last_val")
        if isinstance(lv, tuple) and lv and lv[0] == "some" and isinstance(lv[1], dict):
            after.append((lv[1]["start"], lv[1]["end"], lv[1]["value"]))
        want = {}
        for s_, e_, v_ in ([last] if last else []) + list(secs):
            for p_ in range(s_, e_):
                want[p_] = want.get(p_, 0.0) + v_
        got = {}
        for s_, e_, v_ in after:
            for p_ in range(s_, e_):
                if p_ in got:
                    res.fail("handoff/overlap", block[0], "held-back run %s in front of %s: the resulting runs %s overlap at base %d" % (last, secs, after, p_))
                    return
                got[p_] = v_
        if got != want:
            d = sorted(set(got.items()) ^ set(want.items()))[:3]
            res.fail("handoff/values", block[0], "held-back run %s put in front of the next window's runs %s gives %s: the value of some base changed (%s) - a run must not be "
                                                 "stretched over bases no input covers, nor dropped" % (last, secs, after, d))
            return
        if sorted(after) != after and not (isinstance(lv, tuple) and lv):
            res.fail("handoff/order", block[0], "held-back run %s in front of %s: the resulting runs %s are not in position order" % (last, secs, after))
            return
        n_ok += 1
    res.ok(block[0], "window hand-off evaluated on %d run lists (gap before the window, adjacent equal / different values, nothing held, empty window, windows apart): "
                     "the held-back run is placed in front and the value of every base is unchanged" % n_ok)
