"""Reader-side layout obligations (R-LAYOUT + arm parity), both byte orders, against the format table."""
from __future__ import annotations
import re
from ..astq import Node, up, strip, strip_cast, walk_no_nested_fn, calls, loc, stmt_of, dominates, binding_before, precedes_toplevel
from ..rules.layout import consumptions, from_bytes_reads, origin, int_value, yielded_name
from ..spec import bbi_format as F

R = "bigtools/src/bbi/bbiread.rs"
RW = "bigtools/src/bbi/bigwigread.rs"
RB = "bigtools/src/bbi/bigbedread.rs"
READER_FILES = (R, RW, RB)


def endian_matches(root):
    """match nodes whose arms are Endianness::Big / Endianness::Little -> list of (match, big_arm, little_arm)"""
    out = []
    for n in walk_no_nested_fn(root):
        if n.k == "match":
            pats = [up(a["pat"]) for a in n["arms"]]
            if len(pats) == 2 and all(p.endswith("Endianness::Big") or p.endswith("Endianness::Little") for p in pats):
                big = [a for a in n["arms"] if up(a["pat"]).endswith("Big")]
                lit = [a for a in n["arms"] if up(a["pat"]).endswith("Little")]
                if len(big) == 1 and len(lit) == 1:
                    out.append((n, big[0], lit[0]))
    return out


def _unblock(b):
    b = strip(b)
    while isinstance(b, Node) and b.k == "block" and len(b["stmts"]) == 1 and b["stmts"][0].k == "expr_stmt" and not b["stmts"][0]["semi"] and not b.get("label"):
        b = strip(b["stmts"][0]["e"])
    return b


def norm_le(s):
    s = re.sub(r"\b(get_[uif]\d+)_le\(", r"\1(", s)
    s = s.replace("from_le_bytes", "from_be_bytes").replace("LittleEndian", "BigEndian")
    return s


def ob_arm_parity(ctx, res):
    """every Endianness::Big arm equals its Little sibling modulo _le / from_le_bytes, Big arms use no LE call and
    Little arms no BE multi-byte call; the scrutinee derives from the file header's endianness."""
    n_m = 0
    for file in READER_FILES:
        for fn in ctx.ast.fns_in(file):
            if fn.body is None:
                continue
            for m, big, lit in endian_matches(fn.body):
                n_m += 1
                sb, sl = up(_unblock(big["body"])), up(_unblock(lit["body"]))
                if norm_le(sl) != sb:
                    # find first differing position for the report
                    a, b = sb, norm_le(sl)
                    i = 0
                    while i < min(len(a), len(b)) and a[i] == b[i]:
                        i += 1
                    res.fail("parity", m, "Big and Little arms differ beyond byte order near `%s` vs `%s`" % (a[max(0, i - 30):i + 40], b[max(0, i - 30):i + 40]))
                    continue
                bad = None
                for t in consumptions(big["body"]):
                    if t.endian in ("le", "ne") or t.endian == "LittleEndian":
                        bad = ("Big arm uses little-endian read", t.node)
                for t in consumptions(lit["body"]):
                    if t.endian == "be" or t.endian == "BigEndian":
                        bad = ("Little arm uses big-endian read", t.node)
                for r_ in from_bytes_reads(big["body"]):
                    if r_["endian"] != "be":
                        bad = ("Big arm uses from_%s_bytes" % r_["endian"], r_["node"])
                for r_ in from_bytes_reads(lit["body"]):
                    if r_["endian"] != "le":
                        bad = ("Little arm uses from_%s_bytes" % r_["endian"], r_["node"])
                if bad:
                    res.fail("arm-order", bad[1], bad[0])
                    continue
                sc = origin(fn, m["scrut"])
                if re.fullmatch(r"p\d+", sc) and "Endianness" in fn.params[int(sc[1:])][1]:
                    sc = "parameter `%s: Endianness` (call sites checked by C10-R2)" % fn.params[int(sc[1:])][0]
                if "endianness" not in sc and "endian" not in sc.lower():
                    res.fail("scrutinee", m, "byte-order match is not on the file's endianness (origin %s)" % sc)
                    continue
                res.ok(m, "Big/Little arms identical modulo byte order; scrutinee %s" % sc[:60])
    res.count("endian_matches", n_m)


def _arm_reads_ok(res, what, arm, spec, endian):
    """consumption sequence of one arm against spec; returns list of Take or None"""
    takes = [t for t in consumptions(arm["body"]) if t.kind in ("u", "f")]
    if len(takes) != len(spec):
        res.fail(what + "/count", arm, "%s: %d reads, format has %d fields" % (what, len(takes), len(spec)))
        return None
    ok = True
    for t, (fname, w, kind) in zip(takes, spec):
        if t.width != w:
            res.fail("%s/%s/width" % (what, fname), t.node, "%s.%s read as %d bytes, format says %d" % (what, fname, t.width, w))
            ok = False
        elif kind in ("u", "f") and t.kind != kind:
            res.fail("%s/%s/kind" % (what, fname), t.node, "%s.%s read as %s, format says %s" % (what, fname, t.kind, kind))
            ok = False
        elif w > 1 and t.endian != endian:
            res.fail("%s/%s/endian" % (what, fname), t.node, "%s.%s read %s in the %s arm" % (what, fname, t.endian, endian))
            ok = False
    return takes if ok else None


def _buffer_size(fn, name_hint=None):
    """BytesMut::zeroed(N) / vec![0u8; N] allocations in fn: list of (node, size_node)"""
    out = []
    for n in walk_no_nested_fn(fn.body):
        if n.k == "call" and isinstance(n["func"], Node) and n["func"].k == "path" and n["func"]["path"].endswith("BytesMut::zeroed") and len(n["args"]) == 1:
            out.append((n, n["args"][0]))
        if n.k == "macro" and n["path"] == "vec" and "repeat" in n:
            out.append((n, n["repeat"]["len"]))
    return out


HEADER_FIELD = {"version": "version", "zoomLevels": "zoom_levels", "chromosomeTreeOffset": "chromosome_tree_offset",
                "fullDataOffset": "full_data_offset", "fullIndexOffset": "full_index_offset", "fieldCount": "field_count",
                "definedFieldCount": "defined_field_count", "autoSqlOffset": "auto_sql_offset",
                "totalSummaryOffset": "total_summary_offset", "uncompressBufSize": "uncompress_buf_size"}


def _rebound(fn, lit, st, names):
    """a decoded name (bound by the tuple `let` st) that is bound AGAIN before the struct literal `lit` uses it, other than as a plain alias or cast of
    itself: (field, name, text of the re-binding) or None.  A rule that compares names must not take the later binding for the decoded value."""
    if st is None or lit is None:
        return None
    for x in lit["fields"]:
        e = strip(x["e"]) if x.get("e") is not None else None
        if e is None or e.k != "path" or e["path"] not in names:
            continue
        b = binding_before(fn, e["path"], e)
        if b is None or b[0] != "let" or b[1] is st:
            continue
        init = b[1].get("init")
        t = up(strip_cast(strip(init))) if init is not None else "?"
        if t == e["path"] and binding_before(fn, e["path"], init) is not None and binding_before(fn, e["path"], init)[1] is st:
            continue            # `let x = x;` / `let x = x as u32;`
        return (x["name"], e["path"], up(b[1])[:90])
    return None


def _arm_tail_expr(arm):
    b = arm["body"]
    if b.k == "block":
        if b["stmts"] and b["stmts"][-1].k == "expr_stmt" and not b["stmts"][-1]["semi"]:
            return strip(b["stmts"][-1]["e"])
        return None
    return strip(b)


def _arm_tail_tuple(arm):
    """names of what the arm yields (variables, or the synthetic names of reads yielded in place)"""
    t = _arm_tail_expr(arm)
    if t is None:
        return None
    if t.k == "tuple":
        return [yielded_name(e) for e in t["elems"]]
    if arm["body"].k == "block":
        return [yielded_name(t)]
    return None


def _arm_tail_struct(arm, struct_name):
    """{field: yielded name} when the arm yields a `struct_name` literal directly"""
    t = _arm_tail_expr(arm)
    if t is None or t.k != "struct" or not t["path"].endswith(struct_name):
        return None
    return {x["name"]: yielded_name(x["e"]) for x in t["fields"]}


def ob_read_info(ctx, res):
    fn = ctx.ast.fn(R, "read_info")
    ms = endian_matches(fn.body)
    if len(ms) != 2:
        res.fail("readInfo/shape", fn, "expected 2 byte-order matches (common header, chromosome tree header), found %d" % len(ms))
        return
    bufs = _buffer_size(fn)
    sizes = [int_value(s) for _, s in bufs]
    if sizes[:2] != [F.SIZES["COMMON_HEADER"], F.SIZES["CHROM_TREE_HEADER"]]:
        res.fail("readInfo/bufsize", fn, "header buffers are %s bytes, format says 64 and 32" % sizes)
    else:
        res.ok(fn, "common header buffer 64 B, chromosome tree header buffer 32 B")
    # magic: big-endian get_u32 first, then the 4-arm table
    hm, big, lit = ms[0]
    magic_reads = [t for t in consumptions(fn.body) if t.bound == "magic" and t.node.order < hm.order]
    if len(magic_reads) != 1 or magic_reads[0].width != 4 or magic_reads[0].endian != "be":
        res.fail("readInfo/magic-read", fn, "the magic must be read once as a big-endian u32 before byte-order detection")
    else:
        _magic_table(ctx, res, fn, magic_reads[0])
    # common header arms
    spec = F.COMMON_HEADER[1:]
    for arm, en in ((big, "be"), (lit, "le")):
        takes = _arm_reads_ok(res, "commonHeader[%s]" % en, arm, spec, en)
        if takes is None:
            continue
        tail = _arm_tail_tuple(arm)
        if tail is None:
            res.fail("commonHeader[%s]/tail" % en, arm, "arm does not end in a tuple of the decoded fields")
            continue
        # outer let pattern names
        st = stmt_of(hm)
        if st is None or st.k != "let" or st["pat"].k != "p_tuple":
            res.fail("commonHeader/bind", hm, "decoded header must be bound by a tuple pattern")
            return
        outer = [up(e) for e in st["pat"]["elems"]]
        if len(outer) != len(tail):
            res.fail("commonHeader[%s]/arity" % en, arm, "arm yields %d values, pattern has %d" % (len(tail), len(outer)))
            continue
        # struct literal BBIHeader
        lits = [n for n in walk_no_nested_fn(fn.body) if n.k == "struct" and n["path"].endswith("BBIHeader")]
        if len(lits) != 1:
            res.fail("commonHeader/struct", fn, "expected one BBIHeader literal")
            return
        fld = {x["name"]: up(strip(x["e"])) for x in lits[0]["fields"]}
        ok = True
        for t, (fname, w, kind) in zip(takes, spec):
            if fname == "reserved":
                continue
            if t.bound not in tail:
                res.fail("commonHeader[%s]/%s/flow" % (en, fname), t.node, "value read for %s (`%s`) is not returned by the arm" % (fname, t.bound))
                ok = False
                continue
            name = outer[tail.index(t.bound)]
            hf = HEADER_FIELD[fname]
            if fld.get(hf) != name:
                res.fail("commonHeader[%s]/%s/field" % (en, fname), t.node,
                         "slot %s (read #%d) ends up in BBIHeader.%s = `%s`, expected it in BBIHeader.%s" % (
                             fname, takes.index(t), [k for k, v in fld.items() if v == name], name, hf))
                ok = False
        if ok:
            res.ok(arm, "common header (%s arm): 11 reads after the magic in published order, each bound to the like-named BBIHeader field" % en)
    _header_values_unchanged(ctx, res, fn, hm)
    # chrom tree header
    cm, cbig, clit = ms[1]
    seeks = [c for c in calls(fn.body, method="seek") if c.order < cm.order and "chromosome_tree_offset" in up(c)]
    if not seeks:
        res.fail("chromTreeHeader/seek", cm, "chromosome tree header must be read at header.chromosome_tree_offset")
    for arm, en in ((cbig, "be"), (clit, "le")):
        takes = _arm_reads_ok(res, "chromTreeHeader[%s]" % en, arm, F.CHROM_TREE_HEADER, en)
        if takes is None:
            continue
        tail = _arm_tail_tuple(arm)
        want = [takes[2].bound, takes[3].bound, takes[4].bound]
        if tail != want:
            res.fail("chromTreeHeader[%s]/tail" % en, arm, "arm must yield (keySize, valSize, itemCount) = %s, yields %s" % (want, tail))
            continue
        if "CHROM_TREE_MAGIC" not in up(arm["body"]) or takes[0].bound is None:
            res.fail("chromTreeHeader[%s]/magic" % en, arm, "tree magic is not compared with CHROM_TREE_MAGIC")
            continue
        res.ok(arm, "chromosome tree header (%s arm): magic check, blockSize, keySize, valSize, itemCount, reserved" % en)
    st = stmt_of(cm)
    if st is not None and st.k == "let" and st["pat"].k == "p_tuple":
        key_name = up(st["pat"]["elems"][0])
        cs = list(calls(fn.body, func="read_chrom_tree_block"))
        if len(cs) != 1 or up(strip(cs[0]["args"][-1])) != key_name:
            res.fail("chromTreeHeader/keysize-flow", fn, "keySize read from the tree header must be passed to read_chrom_tree_block")
        else:
            res.ok(cs[0], "keySize flows into the block reader")


# first file version in which a header slot carries a value (before that the slot is reserved space a reader need not trust)
HEADER_SINCE = {"total_summary_offset": 2, "uncompress_buf_size": 3}


def _header_values_unchanged(ctx, res, fn, hm):
    """commonHeader/value: what ends up in each BBIHeader field is the decoded value itself for every file version that defines the slot.
    The statements between the decoding `let` and the BBIHeader literal are evaluated for versions 1..4 with distinct stand-in values."""
    from ..rules.interp import Interp, NotPure, _Return
    st = stmt_of(hm)
    lits = [n for n in walk_no_nested_fn(fn.body) if n.k == "struct" and n["path"].endswith("BBIHeader")]
    if st is None or st.k != "let" or st["pat"].k != "p_tuple" or len(lits) != 1:
        return      # reported by the flow clause
    lst = lits[0]
    while lst.parent is not None and lst.parent is not fn.body:
        lst = lst.parent
    top = fn.body["stmts"]
    if not any(x is st for x in top) or not any(x is lst for x in top):
        res.undecided("commonHeader/value", lits[0], "decoding `let` and BBIHeader literal are not both statements of read_info's body")
        return
    i0 = [i for i, x in enumerate(top) if x is st][0]
    i1 = [i for i, x in enumerate(top) if x is lst][0]
    between = top[i0 + 1:i1]
    outer = [up(e) for e in st["pat"]["elems"]]
    if "version" not in outer:
        res.undecided("commonHeader/value", st, "no `version` among the decoded names")
        return
    flds = {x["name"]: x["e"] for x in lits[0]["fields"]}
    for v in (1, 2, 3, 4):
        env = {nm: 1000 + i for i, nm in enumerate(outer)}
        env["version"] = v
        want = dict(env)
        it = Interp(ctx.ast, R, extern={"None": None})
        try:
            it.run_stmts(between, env, 0)
            got = {}
            for hf in HEADER_FIELD.values():
                if hf in flds:
                    got[hf] = it.ev(flds[hf], env, 0)
        except (NotPure, _Return) as e:
            if between:
                res.undecided("commonHeader/value", between[0], "statements between header decode and BBIHeader literal are outside the evaluated fragment (%s)" % e)
            else:
                res.undecided("commonHeader/value", lits[0], "BBIHeader field initialisers are outside the evaluated fragment (%s)" % e)
            return
        for hf, g in got.items():
            if v >= HEADER_SINCE.get(hf, 1) and g != want.get(hf):
                res.fail("commonHeader/%s/value" % hf, flds[hf], "for a version-%d file BBIHeader.%s does not receive the decoded value (stand-in %s, got %s): "
                         "the slot is defined from version %d on" % (v, hf, want.get(hf), g, HEADER_SINCE.get(hf, 1)))
                return
    res.ok(lits[0], "BBIHeader fields receive the decoded values unchanged for versions 1-4 (%d statements in between evaluated)" % len(between))


def _magic_table(ctx, res, fn, magic_read):
    """C10-T1: {(BIGWIG,to_le)->(BigWig,Big),(BIGWIG,to_be)->(BigWig,Little),(BIGBED,to_le)->(BigBed,Big),(BIGBED,to_be)->(BigBed,Little)}; anything else an error.
    The dispatch (a guarded match, an if-chain, ..) is evaluated for the four magics in both byte orders, an unknown value and zero."""
    from ..rules.interp import Interp, NotPure, _Return
    site = [n for n in walk_no_nested_fn(fn.body) if n.k == "let" and n["pat"].k == "p_tuple" and len(n["pat"]["elems"]) == 2 and n.get("init") is not None
            and "magic" in up(n["init"]) and "MAGIC" in up(n["init"])]
    if len(site) != 1:
        res.undecided("magic/table", fn, "the `let (filetype, endianness) = <dispatch on magic>` was not located")
        return
    want = {("BIGWIG_MAGIC", "to_le"): ("BigWig", "Big"), ("BIGWIG_MAGIC", "to_be"): ("BigWig", "Little"),
            ("BIGBED_MAGIC", "to_le"): ("BigBed", "Big"), ("BIGBED_MAGIC", "to_be"): ("BigBed", "Little")}

    def method(m, recv, args):
        if m in ("to_le", "to_be", "swap_bytes") and isinstance(recv, tuple) and recv and recv[0] == "const" and not args:
            return ("magic", recv[1], m)
        raise NotPure("method " + m)

    def path(p_):
        if p_.split("::")[-1].endswith("_MAGIC"):
            return ("const", p_.split("::")[-1])
        if "::" in p_ and p_.split("::")[-1][:1].isupper():
            return ("variant", p_.split("::")[-1], [])
        raise NotPure("free name " + p_)
    got = {}
    cases = [("magic", c, o) for (c, o) in want] + ["OTHER", 0]
    for mv in cases:
        it = Interp(ctx.ast, R, extern={"None": None, "method": method, "path": path})
        try:
            v = it.ev(site[0]["init"], {"magic": mv}, 0)
        except _Return as r:
            v = ("ret", r.v)
        except NotPure as e:
            res.undecided("magic/table", site[0], "magic dispatch is outside the fragment the rule evaluates (%s)" % e)
            return
        got[mv if not isinstance(mv, tuple) else (mv[1], mv[2])] = v
    for k, (ft, en) in want.items():
        v = got[k]
        if not (isinstance(v, tuple) and len(v) == 2 and all(isinstance(x, tuple) and x[0] == "variant" for x in v) and (v[0][1], v[1][1]) == (ft, en)):
            res.fail("magic/table", site[0], "magic %s.%s() must select (%s, %s byte order); the dispatch yields %s (the magic is read big-endian: a value equal to the little-endian "
                                             "encoding of the constant means the file is big-endian)" % (k[0], k[1], ft, en, v))
            return
    for k in ("OTHER", 0):
        v = got[k]
        if not (isinstance(v, tuple) and v[0] == "ret" and isinstance(v[1], tuple) and v[1][0] == "err"):
            res.fail("magic/unknown", site[0], "an unknown magic (%s) must be an error; the dispatch yields %s" % ("zero - an unfinished file" if k == 0 else "any other value", v))
            return
    res.ok(site[0], "magic table evaluated: 4 magics (bigWig/bigBed x byte order) select file type and byte order, anything else (also 0) -> UnknownMagic")


def ob_read_zoom_headers(ctx, res):
    """C10-L1z: zoom_levels x 24 bytes read once; per level and per byte order the reads are u32 level, u32 reserved, u64 data offset, u64 index offset, and
    the ZoomHeader fields are fed from the first, third and fourth of them.  The per-level loop may sit inside or outside the byte-order match."""
    from ..rules import equiv as EQ
    from ..astq import iter_loops, upn
    fn = ctx.ast.fn(R, "read_zoom_headers")
    ms = endian_matches(fn.body)
    if len(ms) != 1:
        res.undecided("zoomHeaders/shape", fn, "expected one byte-order match, found %d" % len(ms))
        return
    bufs = _buffer_size(fn)
    ok = False
    for node, sz in bufs:
        q = EQ.equiv(fn, sz, {"Z": r"\w+\.zoom_levels"}, lambda e: e["Z"] * F.SIZES["ZOOM_HEADER"], domain=range(0, 4), any_literals=True)
        if q[0] == "equal":
            ok = True
    if not ok:
        res.fail("zoomHeaders/bufsize", fn, "zoom directory buffer must be zoom_levels * 24 bytes")
    m, big, lit = ms[0]
    loops = [l for l in iter_loops(fn.body) if any(x.k == "mcall" and x["method"].startswith("get_") for x in walk_no_nested_fn(l["body"]))]
    outer = [l for l in loops if any(x is m for x in walk_no_nested_fn(l["body"]))]
    for arm, en in ((big, "be"), (lit, "le")):
        inner = [l for l in loops if any(x is l.node or x is getattr(l, "node", None) for x in walk_no_nested_fn(arm["body"]))]
        mine = inner or outer
        if len(mine) != 1:
            res.undecided("zoomHeaders[%s]/loop" % en, arm, "expected one per-level loop (a `for` or an iterator closure) around or inside the byte-order arm, found %d" % len(mine))
            continue
        if "zoom_levels" not in upn(fn, mine[0]["iter"]):
            res.fail("zoomHeaders[%s]/loop" % en, arm, "the directory must be read zoom_levels times; the loop runs over `%s`" % upn(fn, mine[0]["iter"])[:60])
            continue
        takes = _arm_reads_ok(res, "zoomHeader[%s]" % en, arm, F.ZOOM_HEADER, en)
        if takes is None:
            continue
        scope = arm["body"] if inner else mine[0]["body"]
        lits = [n for n in walk_no_nested_fn(scope) if n.k == "struct" and n["path"].endswith("ZoomHeader")]
        if len(lits) != 1:
            res.undecided("zoomHeaders[%s]/struct" % en, arm, "expected one ZoomHeader literal per level, found %d" % len(lits))
            continue
        fld = {x["name"]: (yielded_name(x["e"]) if x.get("e") is not None and not x.get("shorthand") else x["name"]) for x in lits[0]["fields"]}
        bound = [t.bound for t in takes]
        if any(b_ is None or b_.startswith("@") for b_ in (bound[0], bound[2], bound[3])) and not all(
                fld.get(k_) == b_ for k_, b_ in (("reduction_level", bound[0]), ("data_offset", bound[2]), ("index_offset", bound[3]))):
            # the arm yields the four reads as a tuple that is destructured outside: names by position
            tl = m.parent
            while tl is not None and isinstance(tl, Node) and tl.k != "let":
                tl = tl.parent
            tup = _tail(arm["body"])
            if tl is not None and tl["pat"].k == "p_tuple" and len(tl["pat"]["elems"]) == 4 and tup is not None and tup.k == "tuple" and len(tup["elems"]) == 4 \
                    and all(any(t.node is x for x in walk_no_nested_fn(e)) for t, e in zip(takes, tup["elems"])):
                bound = [up(e).replace("mut ", "") for e in tl["pat"]["elems"]]
            else:
                res.undecided("zoomHeaders[%s]/flow" % en, arm, "how the four reads reach the ZoomHeader fields was not recognised")
                continue
        want = {"reduction_level": bound[0], "data_offset": bound[2], "index_offset": bound[3]}
        bad = [k for k, v in want.items() if fld.get(k) != v]
        if bad:
            res.fail("zoomHeaders[%s]/flow" % en, lits[0], "ZoomHeader fields %s are not fed from the reads in directory order (level, reserved, data, index)" % bad)
            continue
        res.ok(arm, "zoom directory (%s arm): u32 level,u32 reserved,u64 data,u64 index -> ZoomHeader fields, pushed in file order" % en)


def _tail(b):
    b = strip(b)
    while isinstance(b, Node) and b.k == "block":
        st = b["stmts"]
        if not st or st[-1].k != "expr_stmt" or st[-1].get("semi"):
            return None
        b = strip(st[-1]["e"])
    return b


def ob_read_chrom_tree_block(ctx, res):
    fn = ctx.ast.fn(R, "read_chrom_tree_block")
    body = fn.body
    # header: 4 bytes; u8 isleaf, u8 reserved, u16 count by endianness
    bufs = _buffer_size(fn)
    if not bufs or int_value(bufs[0][1]) != F.SIZES["NODE_HEADER"]:
        res.fail("chromBlock/header-size", fn, "node header buffer must be 4 bytes")
        return
    ifs = [n for n in body["stmts"] if n.k == "expr_stmt" and strip(n["e"]).k == "if"]
    if len(ifs) != 1:
        res.fail("chromBlock/shape", fn, "expected one leaf / non-leaf `if`")
        return
    iff = strip(ifs[0]["e"])
    head_takes = [t for t in consumptions(body) if t.node.order < iff.order]
    if [(t.width, t.kind) for t in head_takes] != [(1, "u"), (1, "u"), (2, "u"), (2, "u")]:
        res.fail("chromBlock/header", fn, "node header reads must be u8 isLeaf, u8 reserved, u16 count (one per byte order); got %s" % head_takes)
        return
    isleaf = head_takes[0].bound
    count = None
    for m, b, l in endian_matches(body):
        if m.order < iff.order:
            st = stmt_of(m)
            count = up(st["pat"]) if st is not None and st.k == "let" else None
    c = up(strip(iff["cond"]))
    if c not in ("%s == 1" % isleaf, "1 == %s" % isleaf):
        res.fail("chromBlock/isleaf", iff, "leaf arm must be selected by isLeaf == 1; condition is `%s`" % c)
        return
    res.ok(fn, "node header: u8 isLeaf, u8 reserved, u16 count (byte order from header)")
    key_p = "p%d" % (len(fn.params) - 1)

    def buf_ok(block, what):
        # the buffer allocated in the arm, or one allocation hoisted in front of the leaf / non-leaf test (after the node header)
        cand = [(node, sz) for node, sz in bufs if node.order > block.order and _inside(node, block)]
        if not cand:
            cand = [(node, sz) for node, sz in bufs if head_takes[-1].node.order < node.order < iff.order]
        for node, sz in cand:
            if True:
                s = up(strip(sz)).replace(" ", "")
                o = origin(fn, sz)
                if re.fullmatch(r"\(\(%s\+lit:8\)\*%s\)" % (re.escape(key_p), ".*"), o) or re.fullmatch(r"\(.*\*\(%s\+lit:8\)\)" % re.escape(key_p), o):
                    if count is not None and count in s:
                        return True
                res.fail(what + "/bufsize", node, "block buffer must be (keySize + 8) * count bytes; got `%s`" % up(sz))
                return False
        res.fail(what + "/bufsize", block, "block buffer allocation not found")
        return False
    # leaf arm
    th = iff["then"]
    if buf_ok(th, "chromLeaf"):
        loops = [n for n in walk_no_nested_fn(th) if n.k == "for"]
        if len(loops) == 1 and count is not None and count in up(loops[0]["iter"]):
            ms = endian_matches(loops[0]["body"])
            adv = [t for t in consumptions(loops[0]["body"]) if t.kind == "skip"]
            key_slices = [n for n in walk_no_nested_fn(loops[0]["body"]) if n.k == "index" and strip(n["index"]).k == "range"]
            ok = True
            if len(adv) != 1 or origin(fn, adv[0].width) != key_p:
                res.fail("chromLeaf/advance", loops[0], "the key must be skipped by exactly keySize bytes")
                ok = False
            if not key_slices or origin(fn, strip(key_slices[0]["index"])["to"]) != key_p or up(strip_cast(strip(key_slices[0]["index"])["from"])) != "0":
                res.fail("chromLeaf/key", loops[0], "the key must be bytes [0, keySize) of the item")
                ok = False
            elif not dominates(key_slices[0], adv[0].node):
                res.fail("chromLeaf/key-order", loops[0], "the key must be taken before the cursor is advanced")
                ok = False
            trims = list(calls(loops[0]["body"], method=("trim_matches", "trim_end_matches")))
            if not trims or "0" not in up(trims[0]["args"][0]):
                res.fail("chromLeaf/trim", loops[0], "NUL padding must be trimmed from the key")
                ok = False
            if len(ms) != 1:
                res.fail("chromLeaf/endian", loops[0], "id/size must be read per byte order")
                ok = False
            else:
                m, b, l = ms[0]
                for arm, en in ((b, "be"), (l, "le")):
                    tk = consumptions(arm["body"])
                    if [(t.width, t.kind, t.endian) for t in tk] != [(4, "u", en), (4, "u", en)]:
                        res.fail("chromLeaf[%s]/reads" % en, arm, "leaf value must be u32 id, u32 size")
                        ok = False
                st = stmt_of(m)
                lits = [n for n in walk_no_nested_fn(loops[0]["body"]) if n.k == "struct" and n["path"].endswith("ChromInfo")]
                if st is None or st.k != "let" or st["pat"].k != "p_tuple" or len(lits) != 1:
                    res.fail("chromLeaf/bind", loops[0], "(id, size) binding / ChromInfo literal not recognised")
                    ok = False
                else:
                    names = [up(e) for e in st["pat"]["elems"]]
                    fld = {x["name"]: up(strip(x["e"])) for x in lits[0]["fields"]}
                    if fld.get("id") != names[0] or fld.get("length") != names[1]:
                        res.fail("chromLeaf/flow", lits[0], "ChromInfo.id must be the first u32 and ChromInfo.length the second (got id=%s, length=%s from %s)" % (fld.get("id"), fld.get("length"), names))
                        ok = False
                    rb = _rebound(fn, lits[0], st, names)
                    if rb:
                        res.fail("chromLeaf/rebound", lits[0], "ChromInfo.%s takes `%s`, which is bound again after decoding (`%s`): the decoded value must reach the field unchanged" % rb)
                        ok = False
                    if adv and not dominates(adv[0].node, m):
                        res.fail("chromLeaf/order", m, "id/size must be read after the key")
                        ok = False
            if ok:
                res.ok(th, "leaf item: key[0..keySize) NUL-trimmed, then u32 id -> ChromInfo.id, u32 size -> ChromInfo.length; stride keySize+8")
        else:
            res.fail("chromLeaf/loop", th, "expected one loop over 0..count")
    el = iff.get("else")
    if el is not None and buf_ok(el, "chromNonLeaf"):
        loops = [n for n in walk_no_nested_fn(el) if n.k == "for"]
        ok = len(loops) == 2
        if ok:
            adv = [t for t in consumptions(loops[0]["body"]) if t.kind == "skip"]
            ms = endian_matches(loops[0]["body"])
            if len(adv) != 1 or origin(fn, adv[0].width) != key_p or len(ms) != 1:
                ok = False
            else:
                m, b, l = ms[0]
                for arm, en in ((b, "be"), (l, "le")):
                    tk = consumptions(arm["body"])
                    if [(t.width, t.kind, t.endian) for t in tk] != [(8, "u", en)]:
                        ok = False
                if not dominates(adv[0].node, m):
                    ok = False
            sk = list(calls(loops[1]["body"], method="seek"))
            rec = list(calls(loops[1]["body"], func="read_chrom_tree_block"))
            if len(sk) != 1 or len(rec) != 1 or "Start" not in up(sk[0]["args"][0]) or not dominates(sk[0], rec[0]):
                ok = False
            elif up(strip(rec[0]["args"][-1])) != fn.params[-1][0]:
                ok = False
        if ok:
            res.ok(el, "non-leaf item: key skipped (keySize), u64 child offset; each child visited by seek(Start(offset)) + recursion, in stored order")
        else:
            res.fail("chromNonLeaf/shape", el, "non-leaf arm not recognised: key skip of keySize, u64 child offset per byte order, then seek+recurse per child")


def _inside(n, anc):
    p = n
    while p is not None and isinstance(p, Node):
        if p is anc:
            return True
        p = p.parent
    return False


def ob_cir_header_r(ctx, res):
    fn = ctx.ast.fn(R, "read_cir_tree_header")
    bufs = _buffer_size(fn)
    if not bufs or int_value(bufs[0][1]) != F.SIZES["CIR_TREE_HEADER"]:
        res.fail("cirHeaderR/bufsize", fn, "index header buffer must be 48 bytes")
    ms = endian_matches(fn.body)
    if not ms:
        res.fail("cirHeaderR/shape", fn, "expected a byte-order match")
        return
    # the only effect of this function is: consume 48 bytes, compare the magic in the file's byte order. What it decodes (per byte order, over all byte-order
    # matches in program order) must be a prefix of the published header - decoding the unused fields is optional, decoding them wrongly is not.
    for en, ix in (("be", 1), ("le", 2)):
        takes = []
        for mm_ in ms:
            takes += [t for t in consumptions(mm_[ix]["body"]) if t.kind in ("u", "f")]
        arm = ms[0][ix]
        spec = F.CIR_TREE_HEADER
        if not takes or len(takes) > len(spec):
            res.fail("cirHeaderR[%s]/count" % en, arm, "cirHeaderR[%s]: %d reads, format has %d fields (at least the magic must be decoded)" % (en, len(takes), len(spec)))
            continue
        bad = False
        for t, (fname, w, kind) in zip(takes, spec):
            if t.width != w or (w > 1 and t.endian != en):
                res.fail("cirHeaderR[%s]/%s" % (en, fname), t.node, "cirTree header field %s: read as %d bytes (%s) in the %s arm, format says %d bytes" % (fname, t.width, t.endian, en, w))
                bad = True
                break
        if bad:
            continue
        if "CIR_TREE_MAGIC" not in up(fn.body) or "Err" not in up(fn.body):
            res.fail("cirHeaderR[%s]/magic" % en, arm, "index magic must be compared with CIR_TREE_MAGIC and a mismatch must be an error")
            continue
        cmpn = [n for n in walk_no_nested_fn(fn.body) if n.k == "binary" and n["op"] in ("!=", "==") and "CIR_TREE_MAGIC" in up(n)]
        if not cmpn:
            res.undecided("cirHeaderR[%s]/magic" % en, arm, "how the index magic is compared with CIR_TREE_MAGIC was not recognised")
            continue
        res.ok(arm, "cirTree header (%s arm): %d of 10 fields decoded in published order (48 bytes consumed), magic checked" % (en, len(takes)))
    # + 48 in the two memoising accessors
    for name in ("full_data_cir_tree", "zoom_cir_tree"):
        f2 = ctx.ast.fn(R, name)
        adds = [n for n in walk_no_nested_fn(f2.body) if n.k == "binary" and n["op"] == "+" and int_value(n["r"]) is not None and "index_offset" in up(n["l"])]
        if len(adds) != 2:
            res.fail("cirRoot/%s/sites" % name, f2, "expected the root-node offset `index_offset + 48` at 2 places (memo and result), found %d" % len(adds))
            continue
        vals = set(int_value(n["r"]) for n in adds)
        lhs = set(up(strip(n["l"])) for n in adds)
        if vals != {F.SIZES["CIR_TREE_HEADER"]}:
            res.fail("cirRoot/%s/value" % name, adds[0], "root node offset must be index_offset + 48 (header size); found + %s" % sorted(vals))
        elif len(lhs) != 1:
            res.fail("cirRoot/%s/base" % name, adds[0], "memoised and returned root offsets use different bases: %s" % lhs)
        else:
            # memo written only after a successful header check
            hdr = list(calls(f2.body, func="read_cir_tree_header"))
            memo = [n for n in walk_no_nested_fn(f2.body) if n.k == "assign" and "tree_offset" in up(n["l"])]
            if len(hdr) != 1 or len(memo) != 1 or not dominates(hdr[0], memo[0]):
                res.fail("cirRoot/%s/memo" % name, f2, "the memo must be stored only after read_cir_tree_header succeeded")
            else:
                res.ok(f2, "root node at index_offset + 48 on memoised and fresh paths; memo stored after the header check")


def _items_iter(ctx, res, iter_ty, alloc_fn, spec, struct_name, fieldmap, what):
    size = F.size(spec)
    nxt = ctx.ast.fn(R, "next", impl=iter_ty)
    body = nxt.body
    # stride: istart = i * SIZE ; slice [istart..istart+SIZE] ; &[u8; SIZE]
    lits = {}
    for n in walk_no_nested_fn(body):
        if n.k == "let" and n["pat"].k == "p_ident" and n.get("init") is not None:
            init = strip(n["init"])
            if init.k == "binary" and init["op"] == "*" and (int_value(init["r"], ctx.ast, R) is not None) != (int_value(init["l"], ctx.ast, R) is not None):
                lits["stride"] = (n, int_value(init["r"], ctx.ast, R) if int_value(init["r"], ctx.ast, R) is not None else int_value(init["l"], ctx.ast, R))
                lits["stride_name"] = n["pat"]["name"]
    if "stride" not in lits:
        res.fail(what + "/stride", nxt, "item offset `i * %d` not found" % size)
        return
    if lits["stride"][1] != size:
        res.fail(what + "/stride", lits["stride"][0], "item stride is %d, the format's item size is %d" % (lits["stride"][1], size))
        return
    rng = [n for n in walk_no_nested_fn(body) if n.k == "index" and strip(n["index"]).k == "range"]
    okr = False
    for r_ in rng:
        g = strip(r_["index"])
        if g["from"] is not None and g["to"] is not None and up(strip(g["from"])) == lits["stride_name"]:
            to = strip(g["to"])
            if to.k == "binary" and to["op"] == "+" and up(strip(to["l"])) == lits["stride_name"] and int_value(to["r"], ctx.ast, R) == size:
                okr = True
            else:
                res.fail(what + "/slice", r_, "item slice must be [off, off + %d); got `%s`" % (size, up(g)))
                return
    if not okr:
        res.fail(what + "/slice", nxt, "item slice [off..off+%d] not found" % size)
        return
    ms = endian_matches(body)
    if len(ms) != 1:
        res.fail(what + "/endian", nxt, "one byte-order match expected")
        return
    m, big, lit = ms[0]
    okall = True
    ndirect = 0
    for arm, en in ((big, "be"), (lit, "le")):
        reads = from_bytes_reads(arm["body"])
        if len(reads) != len(spec):
            res.fail("%s[%s]/count" % (what, en), arm, "%d fields decoded, format has %d" % (len(reads), len(spec)))
            okall = False
            continue
        pos = 0
        for r_, (fname, w, kind) in zip(reads, spec):
            if r_["idx"] is None or r_["idx"] != list(range(pos, pos + w)):
                res.fail("%s[%s]/%s/bytes" % (what, en, fname), r_["node"], "%s must be decoded from bytes [%d,%d) in ascending order; got %s" % (fname, pos, pos + w, r_["idx"]))
                okall = False
            if r_["endian"] != en:
                res.fail("%s[%s]/%s/endian" % (what, en, fname), r_["node"], "from_%s_bytes in the %s arm" % (r_["endian"], en))
                okall = False
            want_ty = ("u%d" % (w * 8)) if kind == "u" else ("f%d" % (w * 8))
            if r_["ty"] != want_ty:
                res.fail("%s[%s]/%s/type" % (what, en, fname), r_["node"], "%s decoded as %s, format says %s" % (fname, r_["ty"], want_ty))
                okall = False
            pos += w
        direct = _arm_tail_struct(arm, struct_name)
        if direct is not None:
            ndirect += 1
            for r_, (fname, w, kind) in zip(reads, spec):
                if direct.get(fieldmap[fname]) != r_["bound"]:
                    res.fail("%s/%s/flow" % (what, fname), arm, "%s.%s must receive slot %s" % (struct_name, fieldmap[fname], fname))
                    okall = False
            continue
        tail = _arm_tail_tuple(arm)
        if tail != [r_["bound"] for r_ in reads]:
            res.fail("%s[%s]/tail" % (what, en), arm, "arm must yield the decoded fields in order")
            okall = False
    if not okall:
        return
    if ndirect == 2:
        res.ok(nxt, "%s: stride %d, fields at ascending byte ranges, both byte orders, -> %s fields (literal built in each arm)" % (what, size, struct_name))
        _items_alloc(ctx, res, alloc_fn, size, what)
        return
    st = stmt_of(m)
    names = [up(e) for e in st["pat"]["elems"]] if st is not None and st.k == "let" and st["pat"].k == "p_tuple" else None
    sl = [n for n in walk_no_nested_fn(body) if n.k == "struct" and n["path"].endswith(struct_name)]
    if names is None or len(sl) != 1:
        res.fail(what + "/bind", nxt, "decoded tuple binding / %s literal not recognised" % struct_name)
        return
    fld = {x["name"]: up(strip(x["e"])) for x in sl[0]["fields"]}
    for (fname, w, kind), nm in zip(spec, names):
        if fld.get(fieldmap[fname]) != nm:
            res.fail("%s/%s/flow" % (what, fname), sl[0], "%s.%s must receive slot %s" % (struct_name, fieldmap[fname], fname))
            return
    rb = _rebound(nxt, sl[0], st, names)
    if rb:
        res.fail("%s/rebound" % what, sl[0], "%s.%s takes `%s`, which is bound again after decoding (`%s`): the decoded value must reach the field unchanged" % ((struct_name,) + rb))
        return
    res.ok(nxt, "%s: stride %d, fields at ascending byte ranges, both byte orders, -> %s fields" % (what, size, struct_name))
    _items_alloc(ctx, res, alloc_fn, size, what)


def _items_alloc(ctx, res, alloc_fn, size, what):
    # allocation factor
    af = ctx.ast.fn(R, alloc_fn)
    ok = False
    for node, sz in _buffer_size(af):
        s = strip_cast(sz)
        if s.k == "binary" and s["op"] == "*":
            vals = [v for v in (int_value(s["l"], ctx.ast, R), int_value(s["r"], ctx.ast, R)) if v is not None]
            if len(vals) == 1:
                if vals[0] == size:
                    ok = True
                    res.ok(node, "%s reads count * %d bytes" % (alloc_fn, size))
                else:
                    res.fail("%s/alloc" % what, node,
                             "%s allocates and reads count * %d bytes but the items are %d bytes each: a node within %d*count bytes of the "
                             "end of the file fails with UnexpectedEof although it is well-formed" % (alloc_fn, vals[0], size, abs(vals[0] - size)))
                    return
    if not ok:
        res.fail("%s/alloc" % what, af, "allocation `count * %d` not found" % size)


def ob_cir_leaf_items_r(ctx, res):
    fm = {"startChromIx": "start_chrom_ix", "startBase": "start_base", "endChromIx": "end_chrom_ix", "endBase": "end_base",
          "dataOffset": "data_offset", "dataSize": "data_size"}
    _items_iter(ctx, res, "CirTreeLeafItemIterator", "cir_tree_leaf_items", F.CIR_LEAF_ITEM, "CirTreeNodeLeaf", fm, "cirLeafItem")


def ob_cir_nonleaf_items_r(ctx, res):
    fm = {"startChromIx": "start_chrom_ix", "startBase": "start_base", "endChromIx": "end_chrom_ix", "endBase": "end_base",
          "dataOffset": "node_offset"}
    _items_iter(ctx, res, "CirTreeNonLeafItemsIterator", "cir_tree_non_leaf_items", F.CIR_NONLEAF_ITEM, "CirTreeNodeNonLeaf", fm, "cirNonLeafItem")


def ob_read_node(ctx, res):
    fn = ctx.ast.fn(R, "read_node")
    sk = list(calls(fn.body, method="seek"))
    if len(sk) != 1 or origin(fn, strip(sk[0]["args"][0])) != "Start(p1)":
        res.fail("readNode/seek", fn, "node must be read at SeekFrom::Start(node_offset)")
        return
    bufs = _buffer_size(fn)
    if not bufs or int_value(bufs[0][1]) != F.SIZES["NODE_HEADER"]:
        res.fail("readNode/header-size", fn, "node header must be 4 bytes")
        return
    tk = consumptions(fn.body)
    if [(t.width, t.kind) for t in tk] != [(1, "u"), (1, "u"), (2, "u"), (2, "u")]:
        res.fail("readNode/header", fn, "node header must be u8 isLeaf, u8 reserved, u16 count")
        return
    ifs = [n for n in walk_no_nested_fn(fn.body) if n.k == "if" and "==" in up(n["cond"])]
    good = False
    for i in ifs:
        c = up(strip(i["cond"]))
        if c == "%s == 1" % tk[0].bound:
            th, el = up(i["then"]), up(i["else"]) if i.get("else") is not None else ""
            if "cir_tree_leaf_items" in th and "cir_tree_non_leaf_items" in el and "Leaf(" in th and "NonLeaf(" in el:
                good = True
    if not good:
        res.fail("readNode/dispatch", fn, "isLeaf == 1 must select the leaf item reader, otherwise the non-leaf reader")
        return
    res.ok(fn, "read_node: seek(Start(offset)); u8 isLeaf,u8 reserved,u16 count; leaf -> 32-byte items, else 24-byte items")


def ob_wig_block_r(ctx, res):
    fn = ctx.ast.fn(RW, "get_block_values")
    body = fn.body
    sp = [t for t in consumptions(body) if t.kind == "split"]
    if len(sp) != 1 or int_value(sp[0].width) != F.SIZES["WIG_SECTION_HEADER"]:
        res.fail("wigBlock/header-size", fn, "section header must be split off as 24 bytes")
        return
    ms = endian_matches(body)
    tm = [n for n in walk_no_nested_fn(body) if n.k == "match" and not up(n["arms"][0]["pat"]).startswith("Endianness")
          and all(a["pat"].k in ("p_lit", "p_wild") for a in n["arms"])]
    if len(tm) != 1:
        res.fail("wigBlock/type-match", fn, "section type dispatch not found")
        return
    tm = tm[0]
    hdr = [x for x in ms if x[0].order < tm.order]
    if len(hdr) != 1:
        res.fail("wigBlock/header-match", fn, "one byte-order match for the section header expected")
        return
    hm, big, lit = hdr[0]
    st = stmt_of(hm)
    outer = [up(e) for e in st["pat"]["elems"]] if st is not None and st.k == "let" and st["pat"].k == "p_tuple" else None
    hnames = {}
    for arm, en in ((big, "be"), (lit, "le")):
        takes = _arm_reads_ok(res, "wigHeader[%s]" % en, arm, F.WIG_SECTION_HEADER, en)
        if takes is None:
            return
        tail = _arm_tail_tuple(arm)
        slots = {}
        for t, (fname, w, k) in zip(takes, F.WIG_SECTION_HEADER):
            if t.bound in (tail or []) and outer and len(outer) == len(tail):
                slots[fname] = outer[tail.index(t.bound)]
        hnames[en] = slots
        need = {"chromId", "chromStart", "itemStep", "itemSpan", "type", "itemCount"}
        if not need <= set(slots):
            res.fail("wigHeader[%s]/flow" % en, arm, "header fields %s are not delivered out of the arm" % sorted(need - set(slots)))
            return
    if hnames["be"] != hnames["le"]:
        res.fail("wigHeader/parity", hm, "Big and Little arms deliver fields at different positions")
        return
    H = hnames["be"]
    res.ok(hm, "section header 24 B: chromId,start,end,step,span,type,reserved,count -> %s" % H)
    if up(strip(tm["scrut"])) != H["type"]:
        res.fail("wigBlock/type-scrut", tm, "dispatch must be on the header's type byte")
        return
    arms = {up(a["pat"]): a for a in tm["arms"]}
    if not {"1", "2", "3", "_"} <= set(arms):
        res.fail("wigBlock/types", tm, "dispatch must handle types 1 (bedGraph), 2 (variable step), 3 (fixed step) and reject others; arms: %s" % sorted(arms))
        return
    if "Err" not in up(arms["_"]["body"]):
        res.fail("wigBlock/unknown", arms["_"], "an unknown section type must be an error")
    # chrom filter
    # type 1
    a1 = arms["1"]
    loops = [n for n in walk_no_nested_fn(a1["body"]) if n.k == "for"]
    ok1 = len(loops) == 1 and H["itemCount"] in up(loops[0]["iter"])
    stride = None
    for n in walk_no_nested_fn(a1["body"]):
        if n.k == "let" and n.get("init") is not None:
            i = strip(n["init"])
            if i.k == "binary" and i["op"] == "*" and int_value(i["r"]) is not None:
                stride = (n, int_value(i["r"]), up(n["pat"]))
    # `bytes[..n * 12].chunks_exact(12)` / `.chunks(12)`: the library does the striding
    chunked = [c_ for c_ in walk_no_nested_fn(a1["body"]) if c_.k == "mcall" and c_["method"] in ("chunks_exact", "chunks") and len(c_["args"]) == 1]
    if len(chunked) == 1 and not any(n.k == "index" and strip(n["index"]).k == "range" and strip(n["index"])["from"] is not None and strip(n["index"])["to"] is not None
                                     for n in walk_no_nested_fn(a1["body"])):
        cv = int_value(chunked[0]["args"][0], ctx.ast, RW)
        if cv == F.SIZES["WIG_BEDGRAPH_ITEM"]:
            from ..astq import iter_loops as _il
            loops = [n for n in _il(a1["body"])]
            ok1 = len(loops) >= 1
        else:
            res.fail("wigItem1/stride", chunked[0], "bedGraph items are %d bytes; the block is cut into chunks of %s" % (F.SIZES["WIG_BEDGRAPH_ITEM"], cv))
            ok1 = False
    elif stride is None:
        res.undecided("wigItem1/stride", a1, "how the bedGraph items are addressed (`i * 12`, chunks) was not recognised")
        ok1 = False
    elif stride[1] != F.SIZES["WIG_BEDGRAPH_ITEM"]:
        res.fail("wigItem1/stride", a1, "bedGraph item stride must be i * 12; found %s" % (stride[1] if stride else None))
        ok1 = False
    else:
        rng = [strip(n["index"]) for n in walk_no_nested_fn(a1["body"]) if n.k == "index" and strip(n["index"]).k == "range"]
        good = any(g["from"] is not None and g["to"] is not None and up(strip(g["from"])) == stride[2] and strip(g["to"]).k == "binary" and int_value(strip(g["to"])["r"]) == 12 for g in rng)
        if not good:
            res.fail("wigItem1/slice", a1, "bedGraph item slice must be [off, off+12)")
            ok1 = False
    m1 = endian_matches(a1["body"])
    vnames1 = None
    if len(m1) != 1:
        ok1 = False
        res.fail("wigItem1/endian", a1, "one byte-order match expected in the bedGraph arm")
    else:
        for arm, en in ((m1[0][1], "be"), (m1[0][2], "le")):
            reads = from_bytes_reads(arm["body"])
            exp = [("u32", [0, 1, 2, 3]), ("u32", [4, 5, 6, 7]), ("f32", [8, 9, 10, 11])]
            if [(r_["ty"], r_["idx"]) for r_ in reads] != exp or any(r_["endian"] != en for r_ in reads):
                res.fail("wigItem1[%s]/fields" % en, arm, "bedGraph item must decode u32 start [0,4), u32 end [4,8), f32 value [8,12) in %s order; got %s" % (
                    en, [(r_["ty"], r_["idx"], r_["endian"]) for r_ in reads]))
                ok1 = False
            elif _arm_tail_tuple(arm) != [r_["bound"] for r_ in reads]:
                res.fail("wigItem1[%s]/tail" % en, arm, "arm must yield (start, end, value) in that order")
                ok1 = False
        st1 = stmt_of(m1[0][0])
        vnames1 = [up(e) for e in st1["pat"]["elems"]] if st1 is not None and st1.k == "let" and st1["pat"].k == "p_tuple" else None
    if ok1 and vnames1:
        v = _value_literal(a1["body"])
        vl1 = [n for n in walk_no_nested_fn(a1["body"]) if n.k == "struct" and n["path"].split("::")[-1] == "Value"]
        rb = _rebound(fn, vl1[0], st1, vnames1) if len(vl1) == 1 else None
        if v is None or [v.get("start"), v.get("end"), v.get("value")] != vnames1:
            res.fail("wigItem1/value", a1, "Value{start,end,value} must be built from the decoded (start,end,value)")
        elif rb:
            res.fail("wigItem1/rebound", vl1[0], "Value.%s takes `%s`, which is bound again after decoding (`%s`): the decoded value must reach the field unchanged" % rb)
        else:
            res.ok(a1, "type 1 (bedGraph): stride 12; u32 start,u32 end,f32 value; both byte orders")
    # type 2
    a2 = arms["2"]
    m2 = endian_matches(a2["body"])
    ok2 = len(m2) == 1
    if ok2:
        for arm, en in ((m2[0][1], "be"), (m2[0][2], "le")):
            tk = consumptions(arm["body"])
            if [(t.width, t.kind, t.endian) for t in tk] != [(4, "u", en), (4, "f", en)]:
                res.fail("wigItem2[%s]/fields" % en, arm, "variable-step item must be u32 start, f32 value")
                ok2 = False
            elif _arm_tail_tuple(arm) != [t.bound for t in tk]:
                ok2 = False
                res.fail("wigItem2[%s]/tail" % en, arm, "arm must yield (start, value)")
        st2 = stmt_of(m2[0][0])
        n2 = [up(e) for e in st2["pat"]["elems"]] if st2 is not None and st2.k == "let" and st2["pat"].k == "p_tuple" else None
        v = _value_literal(a2["body"])
        fn_ = fn
        if ok2 and n2 and v:
            end_o = _local_init(a2["body"], v.get("end"))
            if v.get("start") != n2[0] or v.get("value") != n2[1] or end_o not in ("%s + %s" % (n2[0], H["itemSpan"]), "%s + %s" % (H["itemSpan"], n2[0])):
                res.fail("wigItem2/value", a2, "variable-step value must be {start, end = start + itemSpan, value}; end is `%s`" % end_o)
            else:
                lp = [n for n in walk_no_nested_fn(a2["body"]) if n.k == "for"]
                if len(lp) != 1 or H["itemCount"] not in up(lp[0]["iter"]):
                    res.fail("wigItem2/loop", a2, "must loop over itemCount items")
                else:
                    res.ok(a2, "type 2 (variable step): u32 start,f32 value; end = start + itemSpan")
    else:
        res.fail("wigItem2/endian", a2, "one byte-order match expected in the variable-step arm")
    # type 3
    a3 = arms["3"]
    m3 = endian_matches(a3["body"])
    if len(m3) != 1:
        res.fail("wigItem3/endian", a3, "one byte-order match expected in the fixed-step arm")
    else:
        ok3 = True
        for arm, en in ((m3[0][1], "be"), (m3[0][2], "le")):
            tk = consumptions(arm["body"])
            if [(t.width, t.kind, t.endian) for t in tk] != [(4, "f", en)]:
                res.fail("wigItem3[%s]/fields" % en, arm, "fixed-step item must be one f32 value")
                ok3 = False
        v = _value_literal(a3["body"])
        lp = [n for n in walk_no_nested_fn(a3["body"]) if n.k == "for"]
        if ok3 and v and len(lp) == 1 and H["itemCount"] in up(lp[0]["iter"]):
            # cursor: let mut c = chromStart (before loop); in loop: start = c; c += itemStep; end = start + itemSpan
            cur = None
            for n in a3["body"]["stmts"] if a3["body"].k == "block" else []:
                if n.k == "let" and n["pat"].k == "p_ident" and n["pat"]["mut"] and n.get("init") is not None and up(strip(n["init"])) == H["chromStart"]:
                    cur = n["pat"]["name"]
            start_o = _local_init(lp[0]["body"], v.get("start"))
            end_o = _local_init(lp[0]["body"], v.get("end"))
            incs = [n for n in walk_no_nested_fn(lp[0]["body"]) if n.k == "binary" and n["op"] == "+=" and cur and up(strip(n["l"])) == cur]
            # `cursor = cursor.saturating_add(step)` is the same advance (the value after the last item is never used)
            sat = [n for n in walk_no_nested_fn(lp[0]["body"]) if n.k == "assign" and cur and up(strip(n["l"])) == cur and strip(n["r"]).k == "mcall"
                   and strip(n["r"])["method"] in ("saturating_add", "wrapping_add") and up(strip(strip(n["r"])["recv"])) == cur]
            if not incs and len(sat) == 1:
                incs = [Node({"k": "binary", "op": "+=", "l": sat[0]["l"], "r": strip(sat[0]["r"])["args"][0], "sp": sat[0]["sp"]})]
                incs[0].order = sat[0].order
                incs[0].parent = sat[0].parent
            # end = start + itemSpan, decided on the expression (the literal's `end` may be a local or written in place)
            from ..rules import equiv as EQ
            from ..astq import tnorm_keeping
            vlit = [n for n in walk_no_nested_fn(a3["body"]) if n.k == "struct" and n["path"].split("::")[-1] == "Value"][0]
            fe = [x for x in vlit["fields"] if x["name"] == "end"]
            end_ok = False
            if fe and fe[0].get("e") is not None and v.get("start"):
                q_ = EQ.equiv(None, tnorm_keeping(fn, strip(fe[0]["e"]), (v.get("start"), cur or "")), {"S": re.escape(v.get("start")), "SP": re.escape(H["itemSpan"])},
                              lambda e: e["S"] + e["SP"], domain=range(0, 4))
                end_ok = q_[0] == "equal"
            if cur is None or start_o != cur or len(incs) != 1 or up(strip(incs[0]["r"])) != H["itemStep"] or not end_ok:
                res.fail("wigItem3/value", a3, "fixed-step value i must be {start = chromStart + i*itemStep, end = start + itemSpan}; "
                         "cursor=%s start=%s end=%s step=%s" % (cur, start_o, end_o, [up(i) for i in incs]))
            else:
                sl = _let_of(lp[0]["body"], v.get("start"))
                if sl is not None and not (sl.order < incs[0].order):
                    res.fail("wigItem3/order", a3, "the item start must be taken before the cursor is advanced")
                else:
                    res.ok(a3, "type 3 (fixed step): f32 value; start = cursor (init chromStart), cursor += itemStep, end = start + itemSpan")
        elif ok3:
            res.fail("wigItem3/shape", a3, "fixed-step arm not recognised")
    # chrom filter: `if chrom_id != chrom { return Ok(None) }`
    cf = [n for n in walk_no_nested_fn(body) if n.k == "if" and up(strip(n["cond"])) in ("%s != %s" % (H["chromId"], fn.params[3][0]), "%s != %s" % (fn.params[3][0], H["chromId"]))]
    if len(cf) != 1 or "None" not in up(cf[0]["then"]):
        res.fail("wigBlock/chrom-filter", fn, "a block of another chromosome must yield no values")
    else:
        res.ok(cf[0], "blocks whose chromId differs from the queried chromosome yield nothing")


def _value_literal(root):
    lits = [n for n in walk_no_nested_fn(root) if n.k == "struct" and n["path"].split("::")[-1] == "Value"]
    if len(lits) != 1:
        return None
    return {x["name"]: up(strip(x["e"])) for x in lits[0]["fields"]}


def _local_init(root, name):
    n = _let_of(root, name)
    return up(strip(n["init"])) if n is not None and n.get("init") is not None else None


def _let_of(root, name):
    for n in walk_no_nested_fn(root):
        if n.k == "let" and n["pat"].k == "p_ident" and n["pat"]["name"] == name:
            return n
    return None


def ob_bed_block_r(ctx, res):
    fn = ctx.ast.fn(RB, "get_block_entries")
    ms = endian_matches(fn.body)
    if len(ms) != 1:
        res.fail("bedBlock/endian", fn, "one byte-order match expected")
        return
    m, big, lit = ms[0]
    ok = True
    for arm, en in ((big, "be"), (lit, "le")):
        tk = consumptions(arm["body"])
        if [(t.width, t.kind, t.endian) for t in tk] != [(4, "u", en)] * 3:
            res.fail("bedRecordR[%s]/fields" % en, arm, "record fixed part must be u32 chromId,u32 start,u32 end")
            ok = False
    st = stmt_of(m)
    names = [up(e) for e in st["pat"]["elems"]] if st is not None and st.k == "let" and st["pat"].k == "p_tuple" else None
    lits = [n for n in walk_no_nested_fn(fn.body) if n.k == "struct" and n["path"].endswith("BedEntry")]
    if not ok or names is None or len(names) != 3 or len(lits) != 1:
        if ok:
            res.fail("bedRecordR/bind", fn, "(chromId,start,end) binding / BedEntry literal not recognised")
        return
    fld = {x["name"]: up(strip(x["e"])) for x in lits[0]["fields"]}
    if fld.get("start") != names[1] or fld.get("end") != names[2]:
        res.fail("bedRecordR/flow", lits[0], "BedEntry.start/end must be the 2nd/3rd u32 of the record")
        return
    rb = _rebound(fn, lits[0], st, names)
    if rb:
        res.fail("bedRecordR/rebound", lits[0], "BedEntry.%s takes `%s`, which is bound again after decoding (`%s`): the decoded value must reach the field unchanged" % rb)
        return
    # minimum length guard 12
    g = []
    for n in walk_no_nested_fn(fn.body):
        c_ = strip(n["cond"]) if n.k == "if" else None
        if c_ is None or c_.k != "binary" or c_["op"] not in ("<", ">", "<=", ">="):
            continue
        l_, r_, op_ = c_["l"], c_["r"], c_["op"]
        if op_ in (">", ">="):
            l_, r_, op_ = r_, l_, {">": "<", ">=": "<="}[op_]
        iv = int_value(r_, ctx.ast, RB)
        if re.fullmatch(r"\w+\.(len|remaining)\(\)", up(strip(l_))) and iv is not None:
            g.append(iv if op_ == "<" else iv + 1)
    if not g:
        res.undecided("bedRecordR/minlen", fn, "end-of-block test (`remaining < 12`) not located")
        return
    if g != [12]:
        res.fail("bedRecordR/minlen", fn, "end-of-block test must be `remaining < 12` (the fixed part of a record)")
        return
    # rest: up to first NUL, NUL consumed
    fp = list(calls(fn.body, method=("find_position", "position")))
    spl = [t for t in consumptions(fn.body) if t.kind == "split"]
    g8 = [t for t in consumptions(fn.body) if t.width == 1 and t.kind == "u"]
    if len(fp) != 1 or "b0" not in up(fp[0]) or len(spl) != 1 or len(g8) != 1 or not dominates(spl[0].node, g8[0].node):
        res.fail("bedRecordR/rest", fn, "rest must be the bytes up to the first NUL, with the NUL consumed afterwards")
        return
    res.ok(fn, "bigBed record: u32 chromId,u32 start,u32 end (both byte orders), rest = bytes to first NUL, NUL consumed; stop when < 12 bytes remain")


ZR_FIELDS = {"chromId": "chrom", "chromStart": "start", "chromEnd": "end", "validCount": "summary.bases_covered",
             "minVal": "summary.min_val", "maxVal": "summary.max_val", "sumData": "summary.sum", "sumSquares": "summary.sum_squares"}


def ob_zoom_block_r(ctx, res):
    fn = ctx.ast.fn(R, "get_zoom_block_values")
    ms = endian_matches(fn.body)
    if len(ms) != 1:
        res.fail("zoomBlockR/endian", fn, "one byte-order match expected")
        return
    # item count = len / 32
    divs = [n for n in walk_no_nested_fn(fn.body) if n.k == "binary" and n["op"] in ("/", "%") and int_value(n["r"], ctx.ast) is not None]
    vals = set(int_value(n["r"], ctx.ast) for n in divs)
    if not divs or vals != {F.SIZES["ZOOM_RECORD"]}:
        res.fail("zoomBlockR/itemsize", fn, "record count must be block length / 32; divisors found: %s" % sorted(vals))
        return
    m, big, lit = ms[0]
    for arm, en in ((big, "be"), (lit, "le")):
        takes = _arm_reads_ok(res, "zoomRecordR[%s]" % en, arm, F.ZOOM_RECORD, en)
        if takes is None:
            return
        lits = [n for n in walk_no_nested_fn(arm["body"]) if n.k == "struct" and n["path"].endswith("ZoomRecord")]
        if len(lits) != 1:
            res.fail("zoomRecordR[%s]/struct" % en, arm, "one ZoomRecord literal expected")
            return
        fld = {}
        for x in lits[0]["fields"]:
            e = strip(x["e"])
            if e.k == "struct":
                for y in e["fields"]:
                    fld[x["name"] + "." + y["name"]] = yielded_name(y["e"])
            else:
                fld[x["name"]] = yielded_name(x["e"])
        for t, (fname, w, k) in zip(takes, F.ZOOM_RECORD):
            if fld.get(ZR_FIELDS[fname]) != t.bound:
                res.fail("zoomRecordR[%s]/%s/flow" % (en, fname), lits[0], "ZoomRecord.%s must receive slot %s (read `%s`), has `%s`" % (
                    ZR_FIELDS[fname], fname, t.bound, fld.get(ZR_FIELDS[fname])))
                return
        res.ok(arm, "zoom record (%s arm): u32 x4, f32 x4 -> like-named ZoomRecord/Summary fields" % en)


class _IfView(dict):
    """an `if` seen with its branches in (data present, no data) order whatever the test's polarity"""
    def __init__(self, node, then, els):
        super().__init__(node)
        self["then"], self["else"] = then, els
        self.node = node


def ob_summary_r(ctx, res):
    texts = []
    for file, impl in ((RW, "BigWigRead"), (RB, "BigBedRead")):
        fn = ctx.ast.fn(file, "get_summary", impl=impl)
        tk = consumptions(fn.body)
        seq = [(t.width, t.kind) for t in tk if t.kind in ("u", "f")]
        if seq != [(8, "u"), (8, "f"), (8, "f"), (8, "f"), (8, "f"), (8, "u")]:
            res.fail("summaryR/%s/fields" % impl, fn, "summary must be read as u64,f64,f64,f64,f64 then the u64 data count; got %s" % seq)
            continue
        bo = list(calls(fn.body, func="ByteOrdered::runtime"))
        if len(bo) != 1 or "endianness" not in origin(fn, bo[0]["args"][1]):
            res.fail("summaryR/%s/endian" % impl, fn, "reads must use the file's byte order (ByteOrdered::runtime(reader, header.endianness))")
            continue
        sk = list(calls(fn.body, method="seek"))
        so = [origin(fn, s["args"][0]) for s in sk]
        if len(sk) != 2 or "total_summary_offset" not in so[0] or "full_data_offset" not in so[1]:
            res.fail("summaryR/%s/seeks" % impl, fn, "summary must be read at total_summary_offset and the count at full_data_offset; seeks: %s" % so)
            continue
        from ..astq import upn
        ifs = []
        for n in walk_no_nested_fn(fn.body):
            if n.k != "if" or n.get("else") is None or strip(n["cond"]).k != "binary":
                continue
            c = strip(n["cond"])
            sides = [strip_cast(c["l"]), strip_cast(c["r"])]
            zero = [x for x in sides if up(x) == "0"]
            other = [x for x in sides if up(x) != "0"]
            if c["op"] in ("!=", "==", ">") and len(zero) == 1 and len(other) == 1 and "total_summary_offset" in origin(fn, other[0]):
                if c["op"] == ">" and sides[0] is not other[0]:
                    continue
                ifs.append((n, n["then"], n["else"]) if c["op"] in ("!=", ">") else (n, n["else"], n["then"]))
        # `match offset { 0 => zeros, other => read }`
        for n in walk_no_nested_fn(fn.body):
            if n.k != "match" or len(n["arms"]) != 2 or "total_summary_offset" not in origin(fn, n["scrut"]):
                continue
            za = [a for a in n["arms"] if a["pat"].k == "p_lit" and up(a["pat"]) in ("0", "0u64") and a.get("guard") is None]
            oa = [a for a in n["arms"] if a["pat"].k in ("p_ident", "p_wild") and a.get("guard") is None]
            if len(za) == 1 and len(oa) == 1:
                ifs.append((n, oa[0]["body"], za[0]["body"]))
        if len(ifs) != 1:
            if not any("total_summary_offset" in up(n["cond"]) or "total_summary_offset" in origin(fn, strip(n["cond"])) for n in walk_no_nested_fn(fn.body) if n.k in ("if", "match") and n.get("cond") is not None):
                res.fail("summaryR/%s/v1" % impl, fn, "a zero summary offset (version 1 files) must yield zeros instead of reading at offset 0")
            else:
                res.undecided("summaryR/%s/v1" % impl, fn, "the test of the summary offset against 0 was not recognised")
            continue
        ifn, read_arm, zero_arm = ifs[0]
        lits = [n for n in walk_no_nested_fn(fn.body) if n.k == "struct" and n["path"].endswith("Summary")]
        st = stmt_of(ifn)
        names = [up(e) for e in st["pat"]["elems"]] if st is not None and st.k == "let" and st["pat"].k == "p_tuple" else None
        if len(lits) != 1 or names is None or len(names) != 5:
            res.undecided("summaryR/%s/bind" % impl, fn, "the five statistics are not bound by one `let (a, b, c, d, e) = if offset != 0 { read } else { zeros }`")
            continue
        want = ["bases_covered", "min_val", "max_val", "sum", "sum_squares"]
        fields = {x["name"]: x for x in lits[0]["fields"]}
        bad = None
        for i, fname in enumerate(want):
            x = fields.get(fname)
            src = fname if x is None or x.get("shorthand") or x.get("e") is None else up(strip(x["e"]))
            if src != names[i]:
                bad = (fname, src, names[i])
        if bad:
            res.fail("summaryR/%s/struct" % impl, lits[0], "Summary.%s is fed from `%s`; the value read in that position of the file is `%s`" % bad)
            continue
        ifs = [ifn]
        ifs[0] = _IfView(ifn, read_arm, zero_arm)
        # zeros for version-1 files: every element of the else tuple is a zero literal
        el = strip(ifs[0]["else"])
        while el.k == "block" and len(el["stmts"]) == 1:
            el = strip(el["stmts"][0]["e"]) if el["stmts"][0].k == "expr_stmt" else el
            if el.k == "block":
                continue
            break
        if el.k != "tuple" or [up(strip(e)) for e in el["elems"]] not in (["0", "0.0", "0.0", "0.0", "0.0"], ["0u64", "0.0", "0.0", "0.0", "0.0"], ["0", "0f64", "0f64", "0f64", "0f64"]):
            res.fail("summaryR/%s/v1-zeros" % impl, ifs[0].node, "with no summary in the file every statistic must be zero; got `%s`" % up(el))
            continue
        # total_items: the u64 read after the seek to full_data_offset
        ti = [x for x in lits[0]["fields"] if x["name"] == "total_items"]
        tio = origin(fn, strip(ti[0]["e"])) if ti and not ti[0].get("shorthand") else None
        if ti and ti[0].get("shorthand"):
            b = binding_before(fn, "total_items", lits[0])
            tio = up(strip(b[1]["init"])) if b is not None else ""
            if b is None or not precedes_toplevel(sk[1], b[1]):
                tio = ""
        if not tio or "read_u64" not in tio:
            res.fail("summaryR/%s/count" % impl, lits[0], "total_items must be the u64 read after seeking to full_data_offset")
            continue
        res.ok(fn, "%s::get_summary: u64 bases,f64 min,max,sum,sumsq at totalSummaryOffset (zeros if 0), u64 count at fullDataOffset, file byte order" % impl)
        texts.append(1)
    if len(texts) == 2:
        res.ok(RB, "bigWig and bigBed get_summary satisfy the same rule")


def ob_item_count_autosql_r(ctx, res):
    fn = ctx.ast.fn(RB, "item_count")
    ms = endian_matches(fn.body)
    sk = list(calls(fn.body, method="seek"))
    if len(ms) != 1 or len(sk) != 1 or "full_data_offset" not in origin(fn, sk[0]["args"][0]):
        res.fail("itemCountR/shape", fn, "item count must be read at full_data_offset in the file's byte order")
    else:
        m, big, lit = ms[0]
        ok = True
        for arm, en in ((big, "BigEndian"), (lit, "LittleEndian")):
            tk = consumptions(arm["body"])
            if [(t.width, t.endian) for t in tk] != [(8, en)]:
                res.fail("itemCountR/%s" % en, arm, "item count must be a u64 read as %s" % en)
                ok = False
        if ok:
            res.ok(fn, "item_count: u64 at fullDataOffset, byte order from header")
    fn = ctx.ast.fn(RB, "autosql")
    sk = list(calls(fn.body, method="seek"))
    ru = list(calls(fn.body, method="read_until"))
    pp = list(calls(fn.body, method="pop"))
    zero = [n for n in walk_no_nested_fn(fn.body) if n.k == "if" and "== 0" in up(n["cond"]) and "None" in up(n["then"])]
    if len(sk) != 1 or "auto_sql_offset" not in origin(fn, sk[0]["args"][0]) or len(ru) != 1 or "b0" not in up(ru[0]["args"][0]) or len(pp) != 1 or not dominates(ru[0], pp[0]) or len(zero) != 1:
        res.fail("autosqlR/shape", fn, "autoSql must be read at auto_sql_offset up to and excluding the NUL; offset 0 -> None")
    else:
        res.ok(fn, "autosql: offset 0 -> None; else bytes at autoSqlOffset up to the first NUL (NUL dropped)")


def ob_reader_endianness_discipline(ctx, res):
    """C10-R1: after the magic, no fixed/native-order multi-byte read on the reader side."""
    n = 0
    for file in READER_FILES:
        for fn in ctx.ast.fns_in(file):
            if fn.body is None:
                continue
            covered = set()
            for m, big, lit in endian_matches(fn.body):
                for arm in (big, lit):
                    for x in walk_no_nested_fn(arm["body"]):
                        covered.add(id(x))
            for t in consumptions(fn.body):
                if t.kind not in ("u", "f") or t.width == 1:
                    continue
                n += 1
                if id(t.node) in covered:
                    continue
                if t.endian == "rt":
                    # ByteOrdered runtime reader: checked in ob_summary_r
                    continue
                if fn.name == "read_info" and t.bound == "magic":
                    continue
                res.fail("fixed-order", t.node, "multi-byte read `%s` outside a byte-order match: its order does not depend on the file's endianness" % up(t.node))
            for r_ in from_bytes_reads(fn.body):
                n += 1
                if id(r_["node"]) not in covered:
                    res.fail("fixed-order", r_["node"], "from_%s_bytes outside a byte-order match" % r_["endian"])
            if "NativeEndian" in up(fn.body):
                res.fail("native", fn, "reader uses NativeEndian")
    res.count("multi_byte_reads", n)
    if not res.violations:
        res.ok(R, "%d multi-byte reads in the reader modules, each inside an Endianness::Big/Little arm or through the runtime-ordered reader" % n)


def ob_endianness_args(ctx, res):
    """C10-R2: every function with an `Endianness` parameter is called with a value derived from the header's
    endianness (or from the caller's own Endianness parameter / field)."""
    targets = {}
    for file in READER_FILES:
        for fn in ctx.ast.fns_in(file):
            for i, (nm, ty) in enumerate(fn.params):
                if ty.replace(" ", "") in ("Endianness", "byteordered::Endianness"):
                    targets.setdefault(fn.name, []).append((fn, i))
    n = 0
    for file in READER_FILES:
        for fn in ctx.ast.fns_in(file):
            if fn.body is None:
                continue
            for c in walk_no_nested_fn(fn.body):
                name = None
                args = None
                if c.k == "call" and isinstance(c["func"], Node) and c["func"].k == "path":
                    name = c["func"]["path"].split("::")[-1]
                    args = c["args"]
                    off = 0
                elif c.k == "mcall":
                    name = c["method"]
                    args = c["args"]
                    off = 1
                if name not in targets:
                    continue
                for tfn, idx in targets[name]:
                    has_self = tfn.params and tfn.params[0][0] == "self"
                    ai = idx - (1 if (c.k == "mcall" and has_self) else 0)
                    if c.k == "call" and has_self:
                        ai = idx
                    if ai < 0 or ai >= len(args):
                        continue
                    o = origin(fn, args[ai])
                    good = "endianness" in o
                    if re.fullmatch(r"p\d+", o) and "Endianness" in fn.params[int(o[1:])][1]:
                        good = True
                    if "Endianness::" in o and ("match(" in o or "if(" in o):
                        good = True       # the byte order detected from the file's magic (C10-T1 decides that dispatch)
                    n += 1
                    if good:
                        res.ok(c, "%s(.., %s, ..) byte order from %s" % (name, up(args[ai]), o[:50]))
                    else:
                        res.fail("endian-arg/%s" % name, c, "call passes `%s` (origin %s) as byte order; must derive from the file header's endianness" % (up(args[ai]), o))
                    break
