"""R-PRED obligations: selection / pruning / guard / flush predicates decided over all order types."""
from __future__ import annotations
import re
from itertools import product
from ..astq import Node, up, strip, strip_cast, walk_no_nested_fn, calls, dominates, binding_before, precedes_toplevel
from ..rules.pred import Pred, check_table, weak_orders, order_str, NotComparisonOnly
from ..rules.interp import Interp, NotPure
from ..astq import _tnorm
from ..rules.layout import origin

R = "bigtools/src/bbi/bbiread.rs"
RW = "bigtools/src/bbi/bigwigread.rs"
RB = "bigtools/src/bbi/bigbedread.rs"
WW = "bigtools/src/bbi/bigwigwrite.rs"
BW = "bigtools/src/bbi/bigbedwrite.rs"


def _push_ifs(fn, recv_name_pred=None):
    """`if` nodes whose then-branch contains `X.push(..)`"""
    out = []
    for n in walk_no_nested_fn(fn.body):
        if n.k == "if":
            ps = [c for c in calls(n["then"], method="push")]
            if ps and (n.get("else") is None):
                out.append((n, ps[0]))
    return out


def _struct_local(fn, name, at):
    """if local `name` (as visible at `at`) is bound to a struct literal return its path (type name)"""
    s = binding_before(fn, name, at)
    if s is not None and s[0] == "let" and s[1].get("init") is not None:
        i = strip(s[1]["init"])
        if i.k == "struct":
            return i["path"].split("::")[-1]
    return None


def _role_value_query(fn, pstart, pend):
    """roles for `value.end > start && ...`: fields start/end of a local struct -> vs/ve; params -> s/e"""
    def role(term, node):
        n = strip_cast(node)
        if n.k == "field" and n["member"] in ("start", "end"):
            b = strip(n["base"])
            if b.k == "path" and "::" not in b["path"]:
                s = binding_before(fn, b["path"], n)
                if s is not None and s[0] != "param":
                    return "vs" if n["member"] == "start" else "ve"
        o = origin(fn, n)
        if o == "p%d" % pstart:
            return "s"
        if o == "p%d" % pend:
            return "e"
        return None
    return role


def _param_index(fn, name):
    for i, (nm, ty) in enumerate(fn.params):
        if nm == name:
            return i
    return None


def _query_params(ctx, fn):
    """(start_idx, end_idx) of the query range parameters = the last two u32 parameters; call sites must pass
    (.start/.end | start/end) there"""
    idx = [i for i, (nm, ty) in enumerate(fn.params) if ty == "u32"]
    if len(idx) < 2:
        return None
    return idx[-2], idx[-1]


def _decide_bool_fn(fn, ref, res, role_key):
    """evaluate a boolean helper fn(value, start, end) built from if/else and comparisons over value.start/value.end/start/end on every order type"""
    names = [nm for nm, _ in fn.params]
    if len(names) != 3:
        res.fail(role_key + "/helper-sig", fn, "unexpected signature")
        return (False, 0)
    V, S, E = names
    rl = {"%s.start" % V: "vs", "%s.end" % V: "ve", S: "s", E: "e"}

    class _Ret(Exception):
        def __init__(self, val):
            self.val = val

    def ev(n, v):
        """value of a boolean expression / block; `return x` anywhere raises _Ret"""
        n = strip(n)
        if n.k == "block":
            st = n["stmts"]
            if not st:
                raise NotComparisonOnly("empty block")
            for x in st[:-1]:
                if x.k != "expr_stmt":
                    raise NotComparisonOnly("statement " + up(x)[:40])
                e = strip(x["e"])
                if e.k == "if" and e.get("else") is None:
                    if ev(e["cond"], v):
                        ev(e["then"], v)      # must return
                        raise NotComparisonOnly("`if` without else falls through: " + up(e)[:40])
                elif e.k == "return":
                    raise _Ret(ev(e["e"], v))
                else:
                    raise NotComparisonOnly("statement " + up(x)[:40])
            x = st[-1]
            if x.k == "expr_stmt":
                return ev(x["e"], v)
            raise NotComparisonOnly("statement " + up(x)[:40])
        if n.k == "if":
            if n.get("else") is None:
                raise NotComparisonOnly("`if` without else as a value")
            return ev(n["then"], v) if ev(n["cond"], v) else ev(n["else"], v)
        if n.k == "lit" and n["t"] == "bool":
            return str(n["v"]).lower() == "true"
        if n.k == "return":
            raise _Ret(ev(n["e"], v))
        p = Pred(n)
        if p.atoms or any(t not in rl for t in p.terms):
            raise NotComparisonOnly("terms %s" % sorted(set(p.terms) - set(rl)))
        return p.eval({t: v[rl[t]] for t in p.terms}, {})

    itp_ast = [None]

    def run(v):
        # general evaluation first (lets, early returns, match, helper calls); the hand-written evaluator below is the fallback
        if itp_ast[0] is not None:
            try:
                got = Interp(itp_ast[0], fn.file).call(fn, [{"__ref": True, "start": v["vs"], "end": v["ve"], "value": ("f", 1.0)}, v["s"], v["e"]])
                if isinstance(got, bool):
                    return got
            except NotPure:
                pass
        try:
            return ev(fn.body, v)
        except _Ret as r:
            return r.val
    from ..astq import CURRENT_AST as _cur
    import btverif.astq as _aq
    itp_ast[0] = _aq.CURRENT_AST
    rows = 0
    try:
        for ranks in weak_orders(4):
            v = dict(zip(["vs", "ve", "s", "e"], ranks))
            if not (v["vs"] <= v["ve"] and v["s"] <= v["e"]):
                continue
            rows += 1
            got, want = run(v), ref(v)
            if got != want:
                res.fail(role_key, fn, "%s differs from the reference (empty range: nothing; value with bases: shares a base with [s,e); value without bases: lies within [s,e]) "
                                       "when %s: code=%s, required=%s" % (fn.name, order_str(v), got, want))
                return (False, rows)
    except NotComparisonOnly as e:
        res.fail(role_key + "/helper-idiom", fn, "helper is not a comparison-only if/else: %s" % e)
        return (False, rows)
    res.ok(fn, "%s decided on %d order types of (value.start <= value.end, start <= end): nothing for an empty range; a value with bases iff it shares a base; a value without bases iff within the range" % (fn.name, rows))
    return (True, rows)


def ob_wig_keep(ctx, res):
    """C03-P1..3 + clip (R-BOUND): the three section-type arms of get_block_values"""
    fn = ctx.ast.fn(RW, "get_block_values", inline=True, keep=("value_in_range",))
    qp = _query_params(ctx, fn)
    if qp is None:
        res.fail("wigKeep/sig", fn, "query range parameters not found")
        return
    ifs = _push_ifs(fn)
    if len(ifs) != 3:
        res.fail("wigKeep/sites", fn, "expected 3 keep-conditions (section types 1,2,3), found %d" % len(ifs))
    role = _role_value_query(fn, *qp)
    rows_total = 0
    texts = []
    # reference (C03 + C01): an empty range has no answer; a value with bases is kept iff it shares a base with [s,e); a value
    # without bases (accepted by the writer, must come back from a full-span read even at position 0 / the chromosome end) iff it lies within [s,e]
    def ref(v):
        if not v["s"] < v["e"]:
            return False
        if v["vs"] < v["ve"]:
            return max(v["vs"], v["s"]) < min(v["ve"], v["e"])
        return v["s"] <= v["vs"] and v["ve"] <= v["e"]
    helper = ctx.ast.fn(RW, "value_in_range", required=False)
    helper_ok = None
    for n, push in ifs:
        cond = strip(n["cond"])
        if cond.k == "call" and up(cond["func"]) == "value_in_range":
            # the keep-condition is the shared helper: arguments must be the decoded value and the query range, the helper is decided once
            a = [up(strip(x)).lstrip("&") for x in cond["args"]]
            pushed = up(strip(push["args"][0])) if push.get("args") else ""
            if helper is None or len(a) != 3 or a[0] != pushed or role(a[1], cond["args"][1]) != "s" or role(a[2], cond["args"][2]) != "e":
                res.fail("wigKeep/helper-args", n, "value_in_range must be asked about the value being pushed and the query range; got %s" % a)
                continue
            if helper_ok is None:
                helper_ok = _decide_bool_fn(helper, ref, res, "wigKeep/table")
                rows_total += helper_ok[1]
            if not helper_ok[0]:
                continue
        else:
            try:
                p = Pred(_tnorm(fn, n["cond"]))
            except NotComparisonOnly as e:
                res.fail("wigKeep/not-cmp", n, str(e))
                continue
            rows, cex, err = check_table(
                p, role, ["vs", "ve", "s", "e"],
                side=lambda v: v["vs"] <= v["ve"] and v["s"] <= v["e"],
                ref=ref,
                relation="equiv")
            rows_total += rows
            if err:
                res.fail("wigKeep/idiom", n, err)
                continue
            if cex:
                res.fail("wigKeep/table", n, "keep-condition `%s` differs from the reference (empty range: nothing; value with bases: shares a base with [s,e); value without bases: lies "
                                             "within [s,e]) on the order type %s: code=%s, required=%s" % (up(n["cond"]), cex[0], cex[1], cex[2]))
                continue
        # clip: value.start = max(vs, s); value.end = min(ve, e) before the push; pushed value is that local
        assigns = [a for a in walk_no_nested_fn(n["then"]) if a.k == "assign"]
        got = {}
        for a in assigns:
            l = strip(a["l"])
            if l.k == "field" and l["member"] in ("start", "end"):
                got[l["member"]] = a
        okc = True
        for member, fnref, what in (("start", lambda v: max(v["vs"], v["s"]), "max(value.start, start)"),
                                    ("end", lambda v: min(v["ve"], v["e"]), "min(value.end, end)")):
            a = got.get(member)
            if a is None or not dominates(a, push):
                res.fail("wigClip/%s/missing" % member, n, "kept value is not clipped: `value.%s = %s` must precede the push" % (member, what))
                okc = False
                continue
            # evaluate RHS on every order type
            fake = Pred(_eq_node(a["r"]))
            bad = None
            for ranks in weak_orders(4):
                v = dict(zip(["vs", "ve", "s", "e"], ranks))
                if not (v["vs"] <= v["ve"] and v["s"] <= v["e"] and ref(v)):
                    continue
                env = {}
                for t, tn in fake.terms.items():
                    r_ = role(t, tn)
                    if r_ is None:
                        bad = "term `%s` not recognised" % t
                        break
                    env[t] = v[r_]
                if bad:
                    break
                val = fake._val(a["r"], env)
                if val != fnref(v):
                    bad = "on %s it yields rank %s, required %s" % (order_str(v), val, fnref(v))
                    break
            if bad:
                res.fail("wigClip/%s/value" % member, a, "clip `%s` is not %s: %s" % (up(a), what, bad))
                okc = False
        if okc:
            # start clip must not use the already clipped end and vice versa (order independence is implied by roles)
            res.ok(n, "kept per the reference; every kept value clipped to [max(vs,s), min(ve,e)) before the push (%d order types in all)" % rows_total)
            texts.append(up(n))
    if len(texts) == 3 and len(set(texts)) != 1:
        res.fail("wigKeep/siblings", fn, "filter+clip statements differ between the section-type arms")
    elif len(texts) == 3:
        res.ok(fn, "filter + clip identical in the bedGraph, variable-step and fixed-step arms")
    res.count("truth_table_rows", rows_total)
    ctx.extra_coverage.setdefault("truth_table_rows", 0)
    ctx.extra_coverage["truth_table_rows"] += rows_total


def _eq_node(expr):
    """wrap an arithmetic-free numeric expression into `expr == expr` so Pred collects its terms"""
    n = Node({"k": "binary", "op": "==", "l": expr, "r": expr, "sp": expr["sp"]})
    n.parent = None
    n.pkey = None
    n.fn = getattr(expr, "fn", None)
    n.file = getattr(expr, "file", None)
    n.order = getattr(expr, "order", 0)
    return n


def _inside(n, anc):
    x = n
    while x is not None and isinstance(x, Node):
        if x is anc:
            return True
        x = x.parent
    return False


def ob_query_args(ctx, res):
    """call sites of the block decoders pass the query (chrom, start, end) unchanged in the last three positions"""
    sites = [(RW, "get_block_values"), (RB, "get_block_entries"), (R, "get_zoom_block_values")]
    for file, name in sites:
        target = ctx.ast.fn(file, name)
        n = 0
        for f2 in ctx.ast.fns_in(file) + ([] if file == R else ctx.ast.fns_in(R)):
            if f2.body is None:
                continue
            for c in calls(f2.body, func=name):
                n += 1
                a = c["args"]
                o = [origin(f2, x) for x in a[-3:]]
                good = (o[1].endswith("start") or o[1].startswith("p")) and (o[2].endswith("end") or o[2].startswith("p")) and \
                       ("chrom" in o[0] or o[0].startswith("p"))
                # `start`/`end` params by name when positional
                names = [up(strip(x)) for x in a[-3:]]
                if o[1].startswith("p"):
                    good = good and names[1].endswith("start")
                if o[2].startswith("p"):
                    good = good and names[2].endswith("end")
                if good:
                    res.ok(c, "%s(.., %s) receives the query range unchanged" % (name, ", ".join(names)))
                else:
                    res.fail("queryArgs/%s" % name, c, "%s must receive (chrom, start, end) of the query in its last three arguments; got %s" % (name, names))
        if n == 0:
            res.fail("queryArgs/%s/none" % name, target, "no call site of %s found" % name)


def ob_bed_keep(ctx, res):
    """C04-P1"""
    fn = ctx.ast.fn(RB, "get_block_entries")
    qp = _query_params(ctx, fn)
    ifs = _push_ifs(fn)
    if len(ifs) != 1 or qp is None:
        res.fail("bedKeep/sites", fn, "expected one keep-condition, found %d" % len(ifs))
        return
    n, push = ifs[0]

    def role(term, node):
        nn = strip_cast(node)
        if nn.k == "field" and nn["member"] in ("start", "end"):
            b = strip(nn["base"])
            if b.k == "path" and binding_before(fn, b["path"], nn) is not None and binding_before(fn, b["path"], nn)[0] != "param":
                return "es" if nn["member"] == "start" else "ee"
        o = origin(fn, nn)
        return {"p%d" % qp[0]: "s", "p%d" % qp[1]: "e"}.get(o)
    try:
        p = Pred(_tnorm(fn, n["cond"]))
    except NotComparisonOnly as e:
        res.fail("bedKeep/not-cmp", n, str(e))
        return
    side = lambda v: v["es"] <= v["ee"] and v["s"] < v["e"]
    rows1, cex, err = check_table(p, role, ["es", "ee", "s", "e"], side, lambda v: v["es"] < v["e"] and v["s"] < v["ee"], "implied_by")
    if err:
        res.fail("bedKeep/idiom", n, err)
        return
    if cex:
        res.fail("bedKeep/miss", n, "keep-condition `%s` drops an overlapping entry on the order type %s" % (up(n["cond"]), cex[0]))
        return
    rows2, cex, err = check_table(p, role, ["es", "ee", "s", "e"], side, lambda v: not (v["ee"] < v["s"] or v["es"] > v["e"]), "implies")
    if cex:
        res.fail("bedKeep/extra", n, "keep-condition `%s` returns an entry wholly outside [s,e] on the order type %s" % (up(n["cond"]), cex[0]))
        return
    # the pushed value is the decoded entry, unmodified
    res.ok(n, "keep-condition keeps every entry sharing a base with [s,e) and nothing wholly outside [s,e] (%d+%d order types)" % (rows1, rows2))
    ctx.extra_coverage["truth_table_rows"] = ctx.extra_coverage.get("truth_table_rows", 0) + rows1 + rows2


def ob_zoom_keep(ctx, res):
    """C07-P1: both byte-order arms"""
    fn = ctx.ast.fn(R, "get_zoom_block_values")
    ifs = _push_ifs(fn)
    if len(ifs) != 2:
        res.fail("zoomKeep/sites", fn, "expected 2 keep-conditions (one per byte order), found %d" % len(ifs))
    idx = [i for i, (nm, ty) in enumerate(fn.params) if ty == "u32"]
    if len(idx) != 3:
        res.fail("zoomKeep/sig", fn, "expected (chrom, start, end) u32 parameters")
        return
    pc, ps, pe = idx

    for n, push in ifs:
        # roles: locals bound from reads: 1st read -> cid, 2nd -> rs, 3rd -> re ; params
        from ..rules.layout import consumptions
        arm = n
        while arm is not None and arm.k != "arm":
            arm = arm.parent
        takes = [t for t in consumptions(arm["body"]) if t.kind in ("u", "f")] if arm is not None else []
        names = {}
        if len(takes) >= 3:
            names = {takes[0].bound: "cid", takes[1].bound: "rs", takes[2].bound: "re"}

        def role(term, node, names=names):
            nn = strip_cast(node)
            if nn.k == "path" and nn["path"] in names:
                return names[nn["path"]]
            o = origin(fn, nn)
            return {"p%d" % pc: "c", "p%d" % ps: "s", "p%d" % pe: "e"}.get(o)
        try:
            p = Pred(_tnorm(fn, n["cond"]))     # private one-expression helpers and pure temporaries inlined
        except NotComparisonOnly as e:
            res.fail("zoomKeep/not-cmp", n, str(e))
            continue
        roles = ["cid", "c", "rs", "re", "s", "e"]
        side = lambda v: v["rs"] <= v["re"] and v["s"] <= v["e"]
        rows1, cex, err = check_table(p, role, roles, side, lambda v: v["cid"] == v["c"] and v["rs"] < v["e"] and v["s"] < v["re"], "implied_by")
        if err:
            res.fail("zoomKeep/idiom", n, err)
            continue
        if cex:
            res.fail("zoomKeep/miss", n, "zoom keep-condition `%s` drops a record intersecting the range on %s" % (up(n["cond"]), cex[0]))
            continue
        rows2, cex, err = check_table(p, role, roles, side, lambda v: v["cid"] == v["c"] and not (v["re"] < v["s"] or v["rs"] > v["e"]), "implies")
        if cex:
            res.fail("zoomKeep/extra", n, "zoom keep-condition `%s` returns a record of another chromosome or wholly outside the range on %s" % (up(n["cond"]), cex[0]))
            continue
        res.ok(n, "zoom record kept iff same chromosome and (at least) intersecting the range (%d+%d order types)" % (rows1, rows2))
        ctx.extra_coverage["truth_table_rows"] = ctx.extra_coverage.get("truth_table_rows", 0) + rows1 + rows2


def _in_unused_closure(fn, n):
    """n sits in the body of a local closure that was inlined at its call sites (the definition itself is then dead for the rule)"""
    x = n.parent
    while x is not None and isinstance(x, Node):
        if x.k == "closure" and x.parent is not None and x.parent.k == "let" and x.parent["pat"].k == "p_ident" and \
                ("closure " + x.parent["pat"]["name"]) in getattr(fn, "inlined", []):
            return True
        x = x.parent
    return False


def ob_overlaps(ctx, res):
    """C03-P4 / C04-P2 / C05-P1: overlaps o compare_position, inlined, both sorts enumerated"""
    fn = ctx.ast.fn(R, "overlaps")
    cp = ctx.ast.fn(R, "compare_position")
    if len(fn.params) != 7 or len(cp.params) != 4:
        res.fail("overlaps/sig", fn, "signature changed: overlaps/%d compare_position/%d parameters" % (len(fn.params), len(cp.params)))
        return
    # compare_position = lexicographic three-way comparison
    it = Interp(ctx.ast, R)
    rows = 0
    try:
        for cr in weak_orders(2):
            for br in weak_orders(2):
                rows += 1
                got = it.call(cp, [cr[0], br[0], cr[1], br[1]])
                a, b = (cr[0], br[0]), (cr[1], br[1])
                want = -1 if a < b else (1 if a > b else 0)
                if got is None or (got > 0) - (got < 0) != want:
                    res.fail("comparePosition/table", cp, "compare_position is not the lexicographic comparison: chroms %s, bases %s -> %s, required sign %d" % (cr, br, got, want))
                    return
    except NotPure as e:
        res.fail("comparePosition/not-pure", cp, "compare_position is not comparison-only: %s" % e)
        return
    res.ok(cp, "compare_position is the lexicographic three-way comparison (%d order types)" % rows)
    # overlaps: args (q, qs, qe, c1, b1s, c2, b2e)
    # call sites pass (chrom_ix, start, end, child.start_chrom_ix, child.start_base, child.end_chrom_ix, child.end_base)
    no = ctx.ast.fn(R, "nodes_overlapping", inline=True, keep=("overlaps", "compare_position"))
    cs = [c_ for c_ in calls(no.body, func="overlaps") if not _in_unused_closure(no, c_)]
    if len(cs) != 2:
        res.fail("overlaps/sites", no, "expected 2 call sites of overlaps (leaf / non-leaf), found %d" % len(cs))
        return
    for c in cs:
        o = [origin(no, a) for a in c["args"]]
        tail = [x.rsplit(".", 1)[-1] for x in o[3:]]
        if not (o[0] == "p1" and o[1] == "p2" and o[2] == "p3" and tail == ["start_chrom_ix", "start_base", "end_chrom_ix", "end_base"]
                and len(set(x.rsplit(".", 1)[0] for x in o[3:])) == 1):
            res.fail("overlaps/args", c, "overlaps must be called with (chrom, start, end, child.start_chrom_ix, child.start_base, child.end_chrom_ix, child.end_base); got %s" % [up(a) for a in c["args"]])
            return
        # the child is kept iff overlaps(..): either `for child in .. { if overlaps(..) { push } }` or `.filter(|child| overlaps(..))` ... `.collect()`
        st = c.parent
        while st is not None and isinstance(st, Node) and st.k not in ("let", "closure", "if"):
            st = st.parent
        nm = up(st["pat"]) if st is not None and st.k == "let" else None
        parent_for = c
        while parent_for is not None and isinstance(parent_for, Node) and parent_for.k != "for":
            parent_for = parent_for.parent
        cl = c.parent
        while cl is not None and isinstance(cl, Node) and cl.k != "closure":
            cl = cl.parent
        if cl is not None and cl.parent is not None and cl.parent.k == "mcall" and cl.parent["method"] == "filter" and (parent_for is None or not _inside(cl, parent_for)):
            body = strip(cl["body"])
            while body.k == "block" and len(body["stmts"]) == 1 and body["stmts"][0].k == "expr_stmt":
                body = strip(body["stmts"][0]["e"])
            chain = cl.parent
            meths = []
            x = chain
            while x is not None and isinstance(x, Node) and x.k == "mcall":
                meths.append(x["method"])
                x = x.parent if (x.parent is not None and isinstance(x.parent, Node) and x.parent.k == "mcall" and strip(x.parent["recv"]) is x) else None
            bad = [m_ for m_ in meths if m_ in ("take_while", "skip_while", "take", "skip", "find", "position", "step_by", "rev", "last", "nth", "next")]
            if bad:
                res.fail("overlaps/early-exit", c, "the scan over a node's children is cut short by `.%s(..)`: children are ordered by START only, so every child has to be tested" % bad[0])
                return
            if body is not c or "collect" not in meths:
                res.undecided("overlaps/use", c, "children are selected by an iterator chain (%s) whose effect the rule does not recognise" % ".".join(meths))
            continue
        if parent_for is None:
            res.undecided("overlaps/use", c, "the scan over the children is neither a `for` loop nor a filter chain")
            continue
        ifs = [n for n in walk_no_nested_fn(parent_for["body"]) if n.k == "if"]
        exits = [x for x in walk_no_nested_fn(parent_for["body"]) if x.k in ("break", "return", "continue")]
        if exits:
            res.fail("overlaps/early-exit", exits[0], "the scan over a node's children stops early (`%s`): children are ordered by START only, so a later child can still reach "
                     "back into the query (a bigBed block holding a long entry) and would be missed" % up(exits[0]))
            return
        cond_ok = len(ifs) == 1 and (up(strip(ifs[0]["cond"])) == nm or strip(ifs[0]["cond"]) is c)
        if not cond_ok or not list(calls(ifs[0]["then"], method="push")) or ifs[0].get("else") is not None:
            res.fail("overlaps/use", c, "every child must be tested and pushed iff overlaps(..) holds (no other branch)")
            return
    res.ok(no, "both call sites pass (query, child span) positionally and push the child iff overlaps")
    rows = 0
    miss = extra = miss_empty = None
    try:
        for cr in weak_orders(3):  # q, c1, c2
            q, c1, c2 = cr
            for br in weak_orders(4):  # qs, qe, b1s, b2e
                qs, qe, b1s, b2e = br
                if not (qs <= qe and (c1, b1s) <= (c2, b2e)):
                    continue
                rows += 1
                got = bool(it.call(fn, [q, qs, qe, c1, b1s, c2, b2e]))
                # strict: exists x: qs<=x<qe and (c1,b1s) <= (q,x) < (c2,b2e)
                lo, lo_strict = qs, False
                if q < c1 or q > c2:
                    share = False
                else:
                    # lower bound on x
                    conds = [qs < qe]
                    lower = [qs]
                    upper = [qe]
                    if q == c1:
                        lower.append(b1s)
                    if q == c2:
                        upper.append(b2e)
                    share = (qs < qe) and max(lower) < min(upper)
                touch = (q, qs) <= (c2, b2e) and (q, qe) >= (c1, b1s)
                if share and not got and miss is None:
                    miss = "chroms q,c1,c2 ranks %s; bases qs,qe,b1s,b2e ranks %s" % (cr, br)
                if q == c1 == c2 and b1s == b2e and qs < qe and qs <= b1s <= qe and not got and miss_empty is None:
                    miss_empty = "bases qs,qe,p ranks %s" % ((qs, qe, b1s),)
                if got and not touch and extra is None:
                    extra = "chroms q,c1,c2 ranks %s; bases qs,qe,b1s,b2e ranks %s" % (cr, br)
    except NotPure as e:
        res.fail("overlaps/not-pure", fn, "overlaps is not comparison-only: %s" % e)
        return
    if miss:
        res.fail("overlaps/prunes", fn, "overlaps() is false although the child span and the query share a base (%s): an intersecting block would be pruned" % miss)
    if extra:
        res.fail("overlaps/overincludes", fn, "overlaps() is true although the child span does not even touch the query (%s): the search no longer finds exactly the intersecting blocks" % extra)
    if miss_empty and not miss:
        res.fail("overlaps/prunes-empty", fn, "overlaps() is false for a block whose span is the single position p with query start <= p <= query end (%s): a section holding only "
                                              "values without bases (start == end, e.g. at position 0 or at the chromosome end) is kept by the value filters for that query but "
                                              "would never be visited" % miss_empty)
    if not miss and not extra and not miss_empty:
        res.ok(fn, "overlaps is implied by `span and query share a base` and implies `span touches the query` on all %d order types (chromosome x base); a single-position span within the closed query range is visited" % rows)
        ctx.extra_coverage["truth_table_rows"] = ctx.extra_coverage.get("truth_table_rows", 0) + rows


# ---------------------------------------------------------------- writer guards and flush
def _guard_ifs(fn):
    """top-level (unconditional) `if cond { return Err(..) }` statements, also inside `match next_val { Some(n) => {..} }`"""
    out = []
    for n in walk_no_nested_fn(fn.body):
        if n.k == "if" and n.get("else") is None:
            t = up(n["then"])
            if t.startswith("{return Err("):
                out.append(n)
    return out


def _guards(ctx, res, fn, specs, first_effects):
    """specs: list of (id, roles-fn, roles, side, ref, description)"""
    ifs = _guard_ifs(fn)
    used = set()
    for gid, role, roles, side, ref, desc in specs:
        found = None
        last_err = None
        for n in ifs:
            if id(n) in used:
                continue
            try:
                p = Pred(_tnorm(fn, n["cond"]))
            except NotComparisonOnly:
                continue
            rows, cex, err = check_table(p, role, roles, side, ref, "equiv")
            if err is None and cex is None:
                found = (n, rows)
                break
            if err is None and cex is not None:
                # same terms but different table: candidate for the report
                if set(role(t, p.terms[t]) for t in p.terms) == set(r for r in roles if not r.startswith("?")):
                    last_err = (n, cex)
        if found is None:
            if last_err:
                n, cex = last_err
                res.fail("guard/%s/table" % gid, n, "guard `%s` is not equivalent to `%s`: differs on %s (code=%s, required=%s)" % (up(n["cond"]), desc, cex[0], cex[1], cex[2]))
            else:
                res.fail("guard/%s/missing" % gid, fn, "no `if %s { return Err(..) }` guard found" % desc)
            continue
        n, rows = found
        used.add(id(n))
        bad = [e for e in first_effects if not precedes_toplevel(n, e)]
        if bad:
            res.fail("guard/%s/order" % gid, n, "guard `%s` does not precede `%s`: invalid input would already be recorded/emitted" % (up(n["cond"]), up(bad[0])[:60]))
            continue
        res.ok(n, "refuses `%s` with Err before any state is updated (%d order types)" % (desc, rows))


def _first_effects(fn, kinds=("summary", "push", "spawn")):
    eff = []
    for n in walk_no_nested_fn(fn.body):
        if n.k == "binary" and n["op"] in ("+=", "-=") and up(n["l"]).startswith("summary."):
            eff.append(n)
        elif n.k == "assign" and up(n["l"]).startswith("summary."):
            eff.append(n)
        elif n.k == "mcall" and n["method"] == "push" and up(strip(n["recv"])) == "items":
            eff.append(n)
        elif n.k == "mcall" and n["method"] == "spawn":
            eff.append(n)
        elif n.k == "call" and up(n["func"]) == "add_interval_to_summary":
            eff.append(n)
    return eff


def ob_wig_guards(ctx, res):
    fn = ctx.ast.fn(WW, "process_val", inline=True, keep=("encode_section",))
    cur, nxt, clen = fn.params[0][0], fn.params[1][0], fn.params[2][0]

    def role(term, node):
        o = origin(fn, strip_cast(node))
        m = {"p0.start": "cs", "p0.end": "ce", "p2": "L"}
        if o in m:
            return m[o]
        if o.endswith(".start") and ("p1" in o):
            return "ns"
        if o.endswith(".end") and ("p1" in o):
            return "ne"
        return None
    eff = _first_effects(fn)
    if len(eff) < 7:
        res.fail("wigGuards/effects", fn, "expected >= 7 state updates (summary x6, items.push, spawn) after the guards, found %d" % len(eff))
        return
    specs = [
        ("G1", role, ["cs", "ce"], lambda v: True, lambda v: v["cs"] > v["ce"], "start > end"),
        ("G2", role, ["ce", "L"], lambda v: True, lambda v: v["ce"] > v["L"], "end > chromosome length"),
        ("G3", role, ["ce", "ns"], lambda v: True, lambda v: v["ce"] > v["ns"], "current end > next start (overlap / out of order)"),
    ]
    _guards(ctx, res, fn, specs, eff)
    # G3 applies whenever a next value exists: its `if` is inside the Some arm of `match next_val`
    g3 = [n for n in _guard_ifs(fn) if "p1" in origin(fn, strip(n["cond"])["r"]) or "p1" in origin(fn, strip(n["cond"])["l"])]
    for n in g3:
        arm = n.parent
        while arm is not None and arm.k not in ("arm", "if"):
            arm = arm.parent
        if arm is None or not (arm.k == "arm" and up(arm["pat"]).startswith("Some(")) and not (arm.k == "if" and "let Some(" in up(arm["cond"])):
            res.fail("guard/G3/scope", n, "overlap guard must apply whenever a next value exists")


def ob_bed_guards(ctx, res):
    fn = ctx.ast.fn(BW, "process_val", inline=True, keep=("encode_section",))

    def role(term, node):
        o = origin(fn, strip_cast(node))
        m = {"p0.start": "cs", "p0.end": "ce", "p2": "L"}
        if o in m:
            return m[o]
        if o.endswith(".start") and ("p1" in o):
            return "ns"
        return None
    eff = _first_effects(fn)
    if len(eff) < 3:
        res.fail("bedGuards/effects", fn, "expected >= 3 state updates (summary sweep, items.push, spawn) after the guards, found %d" % len(eff))
        return
    specs = [
        ("G4", role, ["cs", "ce"], lambda v: True, lambda v: v["cs"] > v["ce"], "start > end"),
        ("G5", role, ["cs", "L"], lambda v: True, lambda v: v["cs"] >= v["L"], "start >= chromosome length"),
        ("G6", role, ["cs", "ns"], lambda v: True, lambda v: v["cs"] > v["ns"], "current start > next start (unsorted)"),
    ]
    _guards(ctx, res, fn, specs, eff)


def _flush(ctx, res, fn, what):
    """C01-P1 / C02-P1"""
    ifs = [n for n in walk_no_nested_fn(fn.body) if n.k == "if" and list(calls(n["then"], method="spawn")) and list(calls(n["then"], func="encode_section"))]
    if len(ifs) != 1:
        res.fail(what + "/site", fn, "expected one flush `if` spawning encode_section, found %d" % len(ifs))
        return
    n = ifs[0]

    def role(term, node):
        nn = strip_cast(node)
        t = up(nn)
        o = origin(fn, nn)
        if term.endswith(".is_some()") and nn.k == "mcall" and origin(fn, strip(nn["recv"])) == "p1":
            return "?next"
        if t == "items.len()" or o.endswith(".len()"):
            return "len"
        if o.endswith(".items_per_slot"):
            return "ips"
        return None
    try:
        p = Pred(_tnorm(fn, n["cond"]))
    except NotComparisonOnly as e:
        res.fail(what + "/not-cmp", n, str(e))
        return
    # invariant len <= ips holds inductively (push adds one, flush at len >= ips resets to 0; ips >= 1)
    rows, cex, err = check_table(p, role, ["len", "ips", "?next"], lambda v: v["len"] <= v["ips"],
                                 lambda v: (not v["?next"]) or v["len"] >= v["ips"], "equiv")
    if err:
        res.fail(what + "/idiom", n, err)
        return
    if cex:
        res.fail(what + "/table", n, "flush condition `%s` is not `no next value || items.len() >= items_per_slot` on %s (code=%s, required=%s): a section could exceed items_per_slot or the last items stay unflushed" % (
            up(n["cond"]), cex[0], cex[1], cex[2]))
        return
    # body: takes the whole `items`, spawns encode_section with it, sends the handle
    body = n["then"]
    rep = [c for c in walk_no_nested_fn(body) if c.k == "call" and up(c["func"]) in ("std::mem::replace", "mem::replace", "std::mem::take", "mem::take")]
    sp = list(calls(body, method="spawn"))
    enc = list(calls(body, func="encode_section"))
    snd = list(calls(body, method="send"))
    if len(rep) != 1 or "items" not in up(rep[0]["args"][0]):
        res.fail(what + "/take", n, "the flush must take the whole `items` buffer (mem::replace/take)")
        return
    st = rep[0].parent
    while st is not None and st.k != "let":
        st = st.parent
    taken = up(st["pat"]) if st is not None else None
    if len(enc) != 1 or taken is None or up(strip(enc[0]["args"][1])) != taken:
        res.fail(what + "/encode", n, "encode_section must receive the taken items")
        return
    if origin(fn, enc[0]["args"][0]).split(".")[-1] != "compress":
        res.fail(what + "/compress", enc[0], "encode_section must receive options.compress")
        return
    if len(snd) != 1 or len(sp) != 1 or not dominates(sp[0], snd[0]):
        res.fail(what + "/send", n, "the spawned handle must be sent on the section channel")
        return
    hs = sp[0].parent
    while hs is not None and hs.k != "let":
        hs = hs.parent
    if hs is None or up(strip(snd[0]["args"][0])) != up(hs["pat"]).split(":")[0].strip():
        res.fail(what + "/send-handle", n, "the handle sent must be the one just spawned")
        return
    # push precedes the flush test
    pushes = [c for c in calls(fn.body, method="push") if up(strip(c["recv"])) == "items"]
    if len(pushes) != 1 or not dominates(pushes[0], n):
        res.fail(what + "/push-order", n, "the current item must be pushed before the flush test")
        return
    res.ok(n, "flush iff last item of the chromosome or items.len() >= items_per_slot (len <= ips invariant; %d cells); whole buffer -> encode_section(compress, items, chrom) -> handle sent" % rows)


def ob_wig_flush(ctx, res):
    _flush(ctx, res, ctx.ast.fn(WW, "process_val", inline=True, keep=("encode_section",)), "wigFlush")


def ob_bed_flush(ctx, res):
    _flush(ctx, res, ctx.ast.fn(BW, "process_val", inline=True, keep=("encode_section",)), "bedFlush")


def ob_reader_writer_contradiction(ctx, res):
    """C02-X1: no record the writer accepts may be refused by the reader (contradiction rule over order types of
    (start, end, 0, chromosome length))"""
    rd = ctx.ast.fn(RB, "get_block_entries")
    refusals = []
    for n in walk_no_nested_fn(rd.body):
        if n.k == "if" and n.get("else") is None and re.search(r"return Err\(BBIReadError::InvalidFile", up(n["then"])):
            refusals.append(n)
    if len(refusals) != 1:
        res.fail("contradiction/refusals", rd, "expected one record-level refusal in the block decoder, found %d" % len(refusals))
        return
    n = refusals[0]
    # names bound from the three u32 reads: (chrom_id, start, end)
    from ..rules.layout import consumptions
    st = None
    for m, big, lit in __import__("btverif.obs.rlayout", fromlist=["endian_matches"]).endian_matches(rd.body):
        from ..astq import stmt_of
        st = stmt_of(m)
    names = [up(e) for e in st["pat"]["elems"]] if st is not None and st.k == "let" and st["pat"].k == "p_tuple" else None
    if not names or len(names) != 3:
        res.fail("contradiction/bind", rd, "record fields binding not recognised")
        return

    def role(term, node):
        t = up(strip_cast(node))
        if t == names[1]:
            return "es"
        if t == names[2]:
            return "ee"
        if term == "#0":
            return "zero"
        return None
    try:
        p = Pred(_tnorm(rd, n["cond"]))
    except NotComparisonOnly as e:
        res.fail("contradiction/not-cmp", n, str(e))
        return
    # writer accepts: start <= end, start < L, and all values >= 0 (u32)
    wr = ctx.ast.fn(BW, "process_val", inline=True, keep=("encode_section",))
    roles = ["es", "ee", "zero", "L"]
    side = lambda v: v["zero"] <= v["es"] <= v["ee"] and v["es"] < v["L"] and v["zero"] <= v["L"]
    rows, cex, err = check_table(p, role, roles, side, lambda v: False, "implies")
    if err:
        res.fail("contradiction/idiom", n, err)
        return
    if cex:
        res.fail("reject-accepted", n,
                 "the reader refuses (`%s` -> InvalidFile) a record the writer accepts: order type %s satisfies the writer's guards (start <= end, "
                 "start < chromosome length), i.e. the zero-length entry (0,0) is written and the whole block then fails to read" % (up(n["cond"]), cex[0]))
        return
    res.ok(n, "the reader's record refusal is disjoint from what the writer accepts (%d order types)" % rows)
