"""C13-Q1: a bounded channel that is fed with `try_send(..).unwrap()` (a panic when the channel is full) must be able to hold every message it can be sent.

In the two-pass zoom writer one message per finished chromosome is pushed into each zoom level's channel without waiting; the channel is therefore created with
room for one message per chromosome.  The rule locates every unwrapped `try_send` on the write path, follows its receiver back to the container it is taken
from, from there to the `channel(CAP)` call whose sender was put into that container, and requires CAP to be the length of the chromosome table."""
from __future__ import annotations
import re
from ..astq import Node, up, strip, walk_no_nested_fn, binding_before, upn
from ..rules.layout import origin

W = "bigtools/src/bbi/bbiwrite.rs"
FUNCS = ("write_zoom_vals", "write_vals", "write_vals_no_zoom", "write_zooms", "write_chroms_with_zooms", "write_chroms_without_zooms")


def _unwrapped(c):
    p = c.parent
    return p is not None and isinstance(p, Node) and p.k == "mcall" and p["method"] in ("unwrap", "expect") and strip(p["recv"]) is c


def ob_try_send_capacity(ctx, res):
    """C13-Q1"""
    n = 0
    for name in FUNCS:
        fn = ctx.ast.fn(W, name, required=False)
        if fn is None or fn.body is None:
            continue
        # (also inside the closures of the function: the per-chromosome `advance` step is one)
        sites = [c for c in _walk_all(fn.body) if c.k == "mcall" and c["method"] == "try_send" and _unwrapped(c)]
        for c in sites:
            n += 1
            recv = strip(c["recv"])
            cont = None
            # the receiver: a local bound from `CONTAINER.get_mut(..).unwrap()` / `CONTAINER[..]` / an element of an iteration over CONTAINER
            txt = up(recv)
            if recv.k == "path":
                b = _binding(fn, recv)
                if b is not None and b.get("init") is not None:
                    txt = up(strip(b["init"]))
            m = re.match(r"([a-z_]\w*)\.(get_mut|get|iter_mut|values_mut|entry)\(", txt) or re.match(r"([a-z_]\w*)\[", txt)
            if m:
                cont = m.group(1)
            if cont is None:
                res.undecided("trySend/%s/receiver" % name, c, "where the sender `%s` of this unwrapped try_send comes from was not recognised" % up(recv)[:60])
                continue
            # the channel whose sender is put into that container
            caps = []
            for x in _walk_all(fn.body):
                if x.k == "let" and x["pat"].k == "p_tuple" and len(x["pat"]["elems"]) == 2 and x.get("init") is not None:
                    init = strip(x["init"])
                    if init.k == "call" and isinstance(init["func"], Node) and init["func"].k == "path" and init["func"]["path"].split("::")[-1] in ("channel", "bounded", "sync_channel") \
                            and len(init["args"]) == 1:
                        tx = up(x["pat"]["elems"][0]).replace("mut ", "")
                        ins = [y for y in _walk_all(fn.body) if y.k == "mcall" and y["method"] in ("insert", "push") and up(strip(y["recv"])) == cont
                               and any(up(strip(a)) == tx for a in y["args"])]
                        if ins:
                            caps.append((x, init["args"][0]))
            if len(caps) != 1:
                res.undecided("trySend/%s/channel" % name, c, "the channel whose sender is kept in `%s` was not located (%d candidates)" % (cont, len(caps)))
                continue
            let, cap = caps[0]
            o = origin(fn, cap)
            t = upn(fn, cap)
            if re.fullmatch(r"p\d+\.len\(\)", o) and "chrom" in t:
                res.ok(c, "%s: `%s.try_send(..).unwrap()` once per chromosome; the channel is created with capacity `%s` (one slot per chromosome)" % (name, up(recv)[:40], t))
            else:
                res.fail("trySend/%s/capacity" % name, let, "the channel fed by `try_send(..).unwrap()` (one message per finished chromosome, a panic when the channel is full) is created "
                                                            "with capacity `%s`: it must hold one message per chromosome (`chrom_ids.len()`), otherwise an input with more chromosomes "
                                                            "than that makes the write call panic (`TrySendError { kind: Full }`)" % t)
    res.count("unwrapped_try_send_sites", n)
    if n < 1:
        res.undecided("trySend/sites", W, "no unwrapped try_send on the write path any more: nothing to decide")


def _walk_all(root):
    """every node under root, closures included (nested fn items excluded by walk_no_nested_fn already descending into closures)"""
    return walk_no_nested_fn(root)


def _binding(fn, path_node):
    try:
        b = binding_before(fn, path_node["path"], path_node)
    except Exception:
        return None
    if b is not None and b[0] == "let" and b[2] == ():
        return b[1]
    return None
