"""C12 (and the C11/C13 clauses that use it): protocol shape of TempFileBuffer / TempFileBufferWriter."""
from __future__ import annotations
import re
from ..astq import Node, up, strip, strip_cast, walk_no_nested_fn, calls, dominates, cond_ancestors, stmt_of

T = "bigtools/src/utils/file/tempfilebuffer.rs"


def _fns(ctx):
    return [f for f in ctx.ast.fns_in(T)]


def ob_mailbox(ctx, res):
    """C12-D1: only `switch` stores Some into the mailbox, and it panics if one was already there"""
    n_none = 0
    some_sites = []
    for fn in _fns(ctx):
        if fn.body is None:
            continue
        for c in calls(fn.body, method="swap"):
            if not up(strip(c["recv"])).endswith("real_file"):
                continue
            a = up(strip(c["args"][0]))
            if a == "None":
                n_none += 1
            elif a.startswith("Some("):
                some_sites.append((fn, c))
            else:
                res.fail("mailbox/arg", c, "mailbox swap argument `%s` is neither None nor Some(_)" % a)
        for c in calls(fn.body, method=("store", "take", "into_inner", "replace")):
            if up(strip(c["recv"])).endswith("real_file"):
                res.fail("mailbox/other-access", c, "mailbox accessed through `%s` (only swap(None)/swap(Some) are part of the protocol)" % c["method"])
    if len(some_sites) != 1 or some_sites[0][0].name != "switch":
        for fn, c in some_sites:
            if fn.name != "switch":
                res.fail("mailbox/second-producer", c, "a destination is stored into the mailbox outside `switch`")
        if not some_sites:
            res.fail("mailbox/switch", ctx.ast.fn(T, "switch"), "`switch` does not store the destination into the mailbox")
        return
    fn, c = some_sites[0]
    # panics if the previous content was Some
    iff = c.parent
    while iff is not None and iff.k != "if":
        iff = iff.parent
    okonce = iff is not None and up(strip(iff["cond"])).endswith(".is_some()") and "panic" in up(iff["then"])
    if not okonce:
        mac = c.parent
        while mac is not None and isinstance(mac, Node) and mac.k != "macro":
            mac = mac.parent
        if mac is not None and mac["path"] in ("assert", "assert_eq") and "args" in mac and mac["args"]:
            a0 = up(strip(mac["args"][0])).replace(" ", "")
            okonce = a0.endswith(".is_none()") or (mac["path"] == "assert_eq" and "None" in up(mac))
    if not okonce:
        res.fail("mailbox/switch-once", c, "`switch` must panic when a destination was already stored (a second switch would lose a file)")
        return
    if fn.params[1][1] not in ("R",):
        res.fail("mailbox/switch-by-value", fn, "`switch` must take the destination by value")
        return
    if n_none < 5:
        res.fail("mailbox/polls", T, "expected >= 5 swap(None) polls (update x3, await_real_file, expect_closed_write), found %d" % n_none)
        return
    res.ok(c, "mailbox: one swap(Some(dest)) (in switch, panics on a second switch), %d swap(None) polls, no other access" % n_none)


def _copy_kind(block_text):
    t = block_text.replace(" ", "")
    if re.search(r"\.write_all\(&\w+\)", t):
        return "mem"
    if "seek(io::SeekFrom::Start(0))" in t and "io::copy(" in t and t.index("seek(io::SeekFrom::Start(0))") < t.index("io::copy("):
        return "temp"
    return None


class _Mock:
    """effects of the staging writer's collaborators over opaque atoms (mailbox, sinks, staged data); I/O operation number `fail_at` fails"""
    def __init__(self, mailbox, fail_at=None, update_fails=False):
        self.mailbox = mailbox
        self.fail_at = fail_at
        self.update_fails = update_fails
        self.log = []
        self.io = 0

    def _io(self, ok):
        self.io += 1
        if self.fail_at is not None and self.io == self.fail_at:
            return ("err", "E")
        return ("some", ok)

    def method(self, m, recv, args):
        from ..rules.interp import NotPure
        if m == "swap" and recv == "MAILBOX" and len(args) == 1:
            if args[0] is None:
                self.log.append(("poll",))
                v, self.mailbox = self.mailbox, None
                return v
            self.log.append(("store", args[0]))
            return None
        if m == "take" and not args:
            return recv
        if m == "update" and isinstance(recv, dict) and not args:
            self.log.append(("update",))
            return ("err", "U") if self.update_fails else ("some", ())
        if m in ("write_all", "write") and len(args) == 1 and isinstance(recv, str):
            self.log.append((m, recv, args[0]))
            return self._io(() if m == "write_all" else "N")
        if m == "seek" and len(args) == 1 and isinstance(recv, str):
            self.log.append(("seek", recv, args[0]))
            return self._io(0)
        if m == "flush" and not args and isinstance(recv, str):
            self.log.append(("flush", recv))
            return self._io(())
        raise NotPure("method %s on %r" % (m, recv))

    def call(self, path, args):
        if path.endswith("io::copy") and len(args) == 2:
            self.log.append(("copy", args[0], args[1]))
            return self._io("n")
        if path.endswith("tempfile::tempfile") and not args:
            self.log.append(("tempfile",))
            return self._io("NEWTEMP")
        if path.endswith("Vec::with_capacity") or path.endswith("Vec::new"):
            return "NEWVEC"
        return NotImplemented

    def binop(self, op, a, b):
        from ..rules.interp import NotPure
        if isinstance(a, int) and isinstance(b, int):
            return {"+": a + b, "-": a - b, "*": a * b}.get(op, 0)
        raise NotPure("arithmetic")

    def macro(self, n, args):
        from ..rules.interp import NotPure
        if n["path"] in ("unreachable", "panic", "unimplemented", "todo"):
            raise _Panic()
        raise NotPure("macro " + n["path"])

    def extern(self):
        return {"None": None, "method": self.method, "call": self.call, "binop": self.binop, "macro": self.macro}


class _Panic(Exception):
    pass


def _variant(name, *args):
    return ("variant", name, list(args))


_STATES = {"NotStarted": _variant("NotStarted"), "InMemory": _variant("InMemory", "DATA"), "Temp": _variant("Temp", "TEMPF"), "Real": _variant("Real", "REALF")}
_START0 = ("variant", "Start", [0])


def _show_log(log):
    return "[" + ", ".join("%s(%s)" % (e[0], ", ".join(str(x[2][0]) if isinstance(x, tuple) and x and x[0] == "variant" and x[2] else str(x) for x in e[1:])) for e in log) + "]"


def ob_writer_write(ctx, res):
    """C12-O1: write()/flush() evaluated over the four buffer states with mocked sinks: the caller's bytes go to the current sink, once, after the mailbox poll"""
    from ..rules.interp import Interp, NotPure
    fn = ctx.ast.fn(T, "write", impl="as Write", inline=False)
    bufn = fn.params[1][0]
    rows = 0
    for st, sink in (("InMemory", "DATA"), ("Temp", "TEMPF"), ("Real", "REALF")):
        for upd_fails in (False, True):
            mk = _Mock(None, update_fails=upd_fails)
            me = {"__ref": True, "buffer_state": _STATES[st], "real_file": "MAILBOX", "inmemory": False}
            try:
                got = Interp(ctx.ast, T, extern=mk.extern()).call(fn, [me, "BUF"])
            except _Panic:
                res.fail("writerWrite/%s" % st, fn, "write panics in state %s" % st)
                return
            except NotPure as e:
                res.undecided("writerWrite/not-evaluable", fn, "write() is outside the fragment the rule evaluates (%s)" % e)
                return
            rows += 1
            if upd_fails:
                if got != ("err", "U") or mk.log != [("update",)]:
                    res.fail("writerWrite/update-first", fn, "a failed update() must fail the write before any byte is written; effects %s, result %s" % (_show_log(mk.log), got))
                    return
                continue
            if not mk.log or mk.log[0] != ("update",):
                res.fail("writerWrite/update-first", fn, "the mailbox must be polled (`self.update()?`) before every write; effects in state %s: %s" % (st, _show_log(mk.log)))
                return
            if mk.log[1:] != [("write", sink, "BUF")] or got != ("some", "N"):
                res.fail("writerWrite/%s" % st, fn, "%s: the caller's buffer must be forwarded once to the state's writer and its result returned; effects %s, result %s" % (st, _show_log(mk.log), got))
                return
    res.ok(fn, "write: update()? first; InMemory/Temp/Real forward buf to the current sink exactly once and return its result (%d cases)" % rows)
    fl = ctx.ast.fn(T, "flush", impl="as Write")
    for st, want in (("NotStarted", []), ("InMemory", []), ("Temp", [("flush", "TEMPF")]), ("Real", [("flush", "REALF")])):
        mk = _Mock(None)
        me = {"__ref": True, "buffer_state": _STATES[st], "real_file": "MAILBOX", "inmemory": False}
        try:
            got = Interp(ctx.ast, T, extern=mk.extern()).call(fl, [me])
        except (_Panic, NotPure) as e:
            res.undecided("writerFlush/not-evaluable", fl, "flush() not evaluated in state %s (%s)" % (st, e))
            return
        if [e for e in mk.log if e[0] != "update"] != want or got != ("some", ()):
            res.fail("writerFlush/arms", fl, "flush must forward to the temp/real file and be a no-op for memory/not-started; in state %s it does %s -> %s" % (st, _show_log(mk.log), got))
            return
    res.ok(fl, "flush forwards to the temp or real file; no-op for in-memory / not started")


def ob_writer_update(ctx, res):
    """C12-O2: update() evaluated on (buffer state) x (mailbox empty / holds the destination) x (inmemory) x (which I/O operation fails), effects mocked"""
    from ..rules.interp import Interp, NotPure
    fn = ctx.ast.fn(T, "update", inline=False)
    rows = 0
    for st in ("NotStarted", "InMemory", "Temp", "Real"):
        for has_dest in (False, True):
            for inmem in (False, True):
                for fail_at in (None, 1, 2, 3):
                    mk = _Mock(("some", "DEST") if has_dest else None, fail_at=fail_at)
                    me = {"__ref": True, "buffer_state": _STATES[st], "real_file": "MAILBOX", "inmemory": inmem}
                    try:
                        got = Interp(ctx.ast, T, extern=mk.extern()).call(fn, [me])
                    except _Panic:
                        res.fail("update/panic", fn, "update panics in state %s" % st)
                        return
                    except NotPure as e:
                        res.undecided("update/not-evaluable", fn, "update() is outside the fragment the rule evaluates (%s)" % e)
                        return
                    rows += 1
                    after = me["buffer_state"]
                    case = "state %s, mailbox %s, inmemory=%s%s" % (st, "holds the destination" if has_dest else "empty", inmem, "" if fail_at is None else ", I/O operation %d fails" % fail_at)
                    failed = fail_at is not None and mk.io >= fail_at
                    if failed:
                        if got != ("err", "E"):
                            res.fail("update/%s/err" % st, fn, "migration I/O result must be propagated with `?`: %s -> returns %s" % (case, got))
                            return
                        if after[1] == "Real" and st != "Real":
                            res.fail("update/%s/order" % st, fn, "the state became Real although copying the staged bytes failed (%s): the staged bytes are lost and later writes go to the destination" % case)
                            return
                        continue
                    if got != ("some", ()):
                        res.fail("update/result", fn, "update must return Ok(()) when nothing failed; %s -> %s" % (case, got))
                        return
                    polls = [e for e in mk.log if e[0] == "poll"]
                    if st == "Real":
                        if mk.log or after != _STATES["Real"]:
                            res.fail("update/real", fn, "once Real, update must not touch anything; effects %s" % _show_log(mk.log))
                            return
                        continue
                    if len(polls) != 1 or mk.log[0] != ("poll",):
                        res.fail("update/%s/poll" % st, fn, "%s arm must poll the mailbox exactly once, first; %s -> %s" % (st, case, _show_log(mk.log)))
                        return
                    io = [e for e in mk.log[1:]]
                    if not has_dest:
                        if st == "NotStarted":
                            want_after = _variant("InMemory", "NEWVEC") if inmem else _variant("Temp", "NEWTEMP")
                            if after != want_after or [e for e in io if e[0] != "tempfile"]:
                                res.fail("update/notstarted", fn, "NotStarted with no destination yet must start staging (%s); %s -> state %s, effects %s" % (
                                    "in memory" if inmem else "in a temp file", case, after[1], _show_log(mk.log)))
                                return
                        elif after != _STATES[st] or io:
                            res.fail("update/%s/if" % st, fn, "%s arm must migrate only when the mailbox held a destination; %s -> state %s, effects %s" % (st, case, after[1], _show_log(mk.log)))
                            return
                        continue
                    want_io = {"NotStarted": [], "InMemory": [("write_all", "DEST", "DATA")], "Temp": [("seek", "TEMPF", _START0), ("copy", "TEMPF", "DEST")]}[st]
                    if io != want_io:
                        res.fail("update/%s/copy" % st, fn, "%s arm must copy the whole staged content (%s) into the destination, once; %s -> effects %s" % (
                            st, {"NotStarted": "nothing", "InMemory": "write_all(&data)", "Temp": "seek(Start(0)) then io::copy(file, dest)"}[st], case, _show_log(mk.log)))
                        return
                    if after != _variant("Real", "DEST"):
                        res.fail("update/%s/real" % st, fn, "after migration the state must become Real(<the destination taken from the mailbox>); %s -> %s" % (case, after))
                        return
    res.ok(fn, "update evaluated on %d cases: one mailbox poll per non-Real state; NotStarted -> Real|InMemory|Temp; InMemory/Temp copy the whole staged content, and only then become Real; "
               "a failed copy is returned and leaves the state unmigrated; Real untouched" % rows)


def ob_writer_drop(ctx, res):
    """C12-O3"""
    fn = ctx.ast.fn(T, "drop", impl="as Drop")
    for n in walk_no_nested_fn(fn.body):
        if n.k in ("if", "match", "return", "loop", "while", "for", "try"):
            res.fail("drop/straight-line", n, "Drop for the writer must be a single path (found `%s`)" % n.k)
            return
    t = [up(s) for s in fn.body["stmts"]]
    lock = [i for i, s in enumerate(t) if ".lock()" in s]
    repl = [i for i, s in enumerate(t) if re.search(r"(mem::replace|mem::take)\(&mut self\.buffer_state", s)]
    # `*closed = Some(mem::replace(&mut self.buffer_state, ..));` takes and publishes in one statement
    both = [i for i, s in enumerate(t) if re.match(r"\*\w+ = Some\((std::)?mem::(replace|take)\(&mut self\.buffer_state", s)]
    if len(both) == 1 and not [i for i, s in enumerate(t) if re.match(r"\*\w+ = Some\(\w+\);", s)]:
        lock = [i for i, s in enumerate(t) if ".lock()" in s]
        noti = [i for i, s in enumerate(t) if ".notify_one()" in s or ".notify_all()" in s]
        lockname = re.match(r"let mut (\w+) = ", t[lock[0]]) if len(lock) == 1 else None
        pubname = re.match(r"\*(\w+) = ", t[both[0]])
        if len(lock) == 1 and len(noti) == 1 and lock[0] < both[0] < noti[0] and lockname and pubname.group(1) == lockname.group(1):
            res.ok(fn, "drop: lock; *closed = Some(take buffer_state); notify; single path")
        else:
            res.fail("drop/sequence", fn, "drop must: lock -> move buffer_state out -> publish it as Some(state) -> notify; statements: %s" % t)
        return
    pub = [i for i, s in enumerate(t) if re.match(r"\*\w+ = Some\(\w+\);", s)]
    noti = [i for i, s in enumerate(t) if ".notify_one()" in s or ".notify_all()" in s]
    if not (len(lock) == 1 and len(repl) == 1 and len(pub) == 1 and len(noti) == 1 and lock[0] < pub[0] < noti[0] and repl[0] < pub[0]):
        res.fail("drop/sequence", fn, "drop must: lock -> move buffer_state out -> publish it as Some(state) -> notify; statements: %s" % t)
        return
    pubname = re.match(r"\*(\w+) = Some\((\w+)\);", t[pub[0]])
    lockname = re.match(r"let mut (\w+) = ", t[lock[0]])
    replname = re.match(r"let (\w+) = ", t[repl[0]])
    if not (pubname and lockname and replname and pubname.group(1) == lockname.group(1) and pubname.group(2) == replname.group(1)):
        res.fail("drop/publish", fn, "the state published under the mutex must be the writer's own buffer_state")
        return
    res.ok(fn, "drop: lock; take buffer_state; *closed = Some(state); notify; single path")


def _wait_then_poll(fn):
    """`while closed.is_none() { closed = cvar.wait(closed).unwrap(); }` precedes the mailbox poll"""
    ws = [n for n in walk_no_nested_fn(fn.body) if n.k == "while" and up(strip(n["cond"])).endswith(".is_none()")]
    if not ws:
        # `cvar.wait_while(lock.lock().unwrap(), |state| state.is_none())`: the same wait, by the library
        ww = [c for c in calls(fn.body, method="wait_while") if len(c["args"]) == 2 and ".lock()" in up(c["args"][0])]
        if len(ww) == 1:
            cl = strip(ww[0]["args"][1])
            if cl.k == "closure" and len(cl["inputs"]) == 1 and re.fullmatch(r"\{?%s\.is_none\(\)\}?" % re.escape(up(cl["inputs"][0]).replace("&", "").replace("mut ", "")), up(strip(cl["body"])).replace("*", "")):
                return ww[0], None
            return None, "wait_while must wait while the published state is None; predicate is `%s`" % up(cl)[:60]
    if len(ws) != 1:
        return None, "expected one `while closed.is_none()` wait loop"
    w = ws[0]
    g = up(strip(w["cond"]))[:-len(".is_none()")]
    b = up(w["body"]).replace(" ", "")
    if not re.fullmatch(r"\{%s=\w+\.wait\(%s\)\.unwrap\(\);\}" % (g, g), b):
        return None, "wait loop body must be `closed = cvar.wait(closed).unwrap()`; got %s" % b
    lk = [n for n in walk_no_nested_fn(fn.body) if n.k == "let" and up(n["pat"]).replace("mut ", "") == g and ".lock()" in up(n["init"])]
    if len(lk) != 1 or not (lk[0].order < w.order):
        return None, "the wait must run under the mutex guarding the closed state"
    return w, None


def _propagated(c):
    """the call's result reaches a `?` (directly, or as the tail of a block / inlined helper body that does)"""
    x = c
    p_ = c.parent
    while p_ is not None and isinstance(p_, Node):
        if p_.k == "try":
            return True
        if p_.k == "expr_stmt" and not p_.get("semi") and p_.parent is not None and p_.parent.k == "block" and p_.parent["stmts"][-1] is p_:
            x, p_ = p_.parent, p_.parent.parent
            continue
        if p_.k in ("paren",):
            x, p_ = p_, p_.parent
            continue
        return False
    return False


def ob_consumer(ctx, res):
    """C12-O4 + C12-S1"""
    # await_real_file
    fn = ctx.ast.fn(T, "await_real_file", inline=True)
    w, err = _wait_then_poll(fn)
    if err:
        res.fail("await/wait", fn, err)
        return
    polls = [c for c in calls(fn.body, method="swap") if up(strip(c["recv"])).endswith("real_file")]
    takes = [c for c in calls(fn.body, method="take") if not c["args"]]
    if len(polls) != 1 or not (w.order < polls[0].order):
        res.fail("await/order", fn, "the mailbox must be polled only after the producer has published its final state")
        return
    ms = [n for n in walk_no_nested_fn(fn.body) if n.k == "match" and strip(n["scrut"]).k == "tuple"]
    if len(ms) != 1:
        res.fail("await/match", fn, "expected one match on (mailbox, closed state)")
        return
    arms = {}
    for a in ms[0]["arms"]:
        arms[re.sub(r"mut ", "", up(a["pat"]))] = a
    want = {
        "mem": [k for k in arms if k.startswith("(Some(") and "InMemory(" in k],
        "temp": [k for k in arms if k.startswith("(Some(") and "Temp(" in k],
        "ns": [k for k in arms if k.startswith("(Some(") and "NotStarted" in k],
        "real": [k for k in arms if k.startswith("(None") and "Real(" in k],
    }
    if any(len(v) != 1 for v in want.values()):
        res.fail("await/arms", ms[0], "await_real_file must handle (Some,InMemory), (Some,Temp), (Some,NotStarted), (None,Real); arms: %s" % sorted(arms))
        return
    am, at, an, ar = (arms[want[k][0]] for k in ("mem", "temp", "ns", "real"))
    if _copy_kind(up(am["body"])) != "mem" or _copy_kind(up(at["body"])) != "temp":
        res.fail("await/copy", ms[0], "(Some,InMemory) must write_all(&data) and (Some,Temp) must seek(Start(0)) then io::copy into the destination")
        return
    for a in (am, at, an, ar):
        b = a["body"]
        tail = up(strip(b["stmts"][-1]["e"])) if b.k == "block" else up(strip(b))
        dest = re.search(r"Some\((\w+)\)|Real\((\w+)\)", re.sub(r"mut ", "", up(a["pat"])))
        dn = dest.group(1) or dest.group(2)
        if a is ar:
            dn = re.search(r"Real\((\w+)\)", up(a["pat"])).group(1)
        if tail != dn:
            res.fail("await/result", a, "arm must return the destination `%s`; returns `%s`" % (dn, tail))
            return
    # remaining arms diverge
    for k, a in arms.items():
        if a in (am, at, an, ar):
            continue
        if not re.search(r"unreachable!|panic!", up(a["body"])):
            res.fail("await/other", a, "arm `%s` must be impossible by protocol (panic/unreachable)" % k)
            return
    if fn.params[0][1].replace(" ", "") not in ("self",):
        res.fail("await/by-value", fn, "await_real_file must consume the buffer (self by value)")
        return
    res.ok(fn, "await_real_file(self): wait under the mutex until the writer published its state, then poll the mailbox; copy arms per state; returns the destination")
    # expect_closed_write
    fn = ctx.ast.fn(T, "expect_closed_write", inline=True)
    w, err = _wait_then_poll(fn)
    if err:
        res.fail("closedWrite/wait", fn, err)
        return
    ms = [n for n in walk_no_nested_fn(fn.body) if n.k == "match"]
    if len(ms) != 1:
        res.fail("closedWrite/match", fn, "expected one match on the closed state")
        return
    arms = {up(a["pat"]).split("(")[0].split("::")[-1]: a for a in ms[0]["arms"]}
    if set(arms) != {"NotStarted", "InMemory", "Temp", "Real"} or _copy_kind(up(arms["InMemory"]["body"])) != "mem" or _copy_kind(up(arms["Temp"]["body"])) != "temp" \
            or up(strip(arms["NotStarted"]["body"])) != "{}" or "panic" not in up(arms["Real"]["body"]):
        res.fail("closedWrite/arms", ms[0], "expect_closed_write must copy InMemory via write_all(&data), Temp via seek(0)+io::copy, nothing for NotStarted, and reject Real")
        return
    for c in list(calls(ms[0], method=("write_all", "seek"))) + [c for c in walk_no_nested_fn(ms[0]) if c.k == "call" and up(c["func"]) == "io::copy"]:
        if not _propagated(c):
            res.fail("closedWrite/err", c, "copy I/O result must be propagated with `?`")
            return
    if fn.params[0][1].replace(" ", "") != "self":
        res.fail("closedWrite/by-value", fn, "expect_closed_write must consume the buffer")
        return
    res.ok(fn, "expect_closed_write(self, dest): waits for the writer, copies staged bytes per state with `?`, rejects a switched buffer")
    # len
    fn = ctx.ast.fn(T, "len", inline=True)
    w, err = _wait_then_poll(fn)
    if err:
        res.fail("len/wait", fn, err)
        return
    ms = [n for n in walk_no_nested_fn(fn.body) if n.k == "match"]
    arms = {up(a["pat"]).split("(")[0].split("::")[-1]: up(strip(a["body"])) for a in ms[0]["arms"]} if len(ms) == 1 else {}
    if not (re.fullmatch(r"Ok\((\w+)\.len\(\) as u64\)", arms.get("InMemory", "")) and "seek(io::SeekFrom::Current(0))" in arms.get("Temp", "") and arms.get("NotStarted") == "Ok(0)" and "panic" in arms.get("Real", "")):
        res.fail("len/arms", fn, "len must report data.len() / the temp file position / 0 per state; got %s" % arms)
        return
    res.ok(fn, "len: waits for the writer; InMemory -> data.len(), Temp -> file position, NotStarted -> 0")


def ob_types(ctx, res):
    """C12-T1 (AST part): the writer half cannot be duplicated; buffer-consuming methods take self by value"""
    sd = ctx.ast.struct(T, "TempFileBufferWriter")
    if any("Clone" in a or "Copy" in a for a in sd["attrs"]):
        res.fail("types/writer-clone", T, "TempFileBufferWriter derives Clone/Copy: two producers could write one staging buffer")
        return
    for f in ctx.ast.files:
        for it in ctx.ast.files[f]["items"]:
            if isinstance(it, Node) and it.k == "impl" and it.get("trait") and it["trait"].split("<")[0].split("::")[-1] in ("Clone", "Copy") and \
                    it["self_ty"].split("<")[0] in ("TempFileBufferWriter", "TempFileBuffer"):
                res.fail("types/clone-impl", f, "manual Clone/Copy impl for %s" % it["self_ty"])
                return
    sb = ctx.ast.struct(T, "TempFileBuffer")
    if any("Clone" in a or "Copy" in a for a in sb["attrs"]):
        res.fail("types/buffer-clone", T, "TempFileBuffer derives Clone/Copy: the consumer half could be awaited twice")
        return
    bs = ctx.ast.struct(T, "BufferState")
    if any("Clone" in a for a in bs["attrs"]):
        res.fail("types/state-clone", T, "BufferState derives Clone")
        return
    new = ctx.ast.fn(T, "new", impl="TempFileBuffer")
    def _shared(e):
        e = strip(e)
        if e.k == "call" and isinstance(e["func"], Node) and e["func"].k == "path" and e["func"]["path"].split("::")[-1] == "clone" and len(e["args"]) == 1:
            e = strip(e["args"][0])            # Arc::clone(&x)
        return up(e)
    halves = {}
    for n in walk_no_nested_fn(new.body):
        if n.k == "struct" and n["path"].split("::")[-1] in ("TempFileBuffer", "TempFileBufferWriter"):
            halves[n["path"].split("::")[-1]] = {x["name"]: _shared(x["e"]) for x in n["fields"]}
    if len(halves) != 2:
        res.undecided("types/new", new, "new() does not build both halves as struct literals: shared state not compared")
    else:
        for fld in ("closed", "real_file"):
            a_, b_ = halves["TempFileBuffer"].get(fld), halves["TempFileBufferWriter"].get(fld)
            if a_ is None or a_ != b_ or not re.fullmatch(r"[a-z_]\w*", a_):
                res.fail("types/new", new, "new() must hand the same shared state (closed, real_file) to both halves; `%s` is `%s` in the buffer and `%s` in the writer" % (fld, a_, b_))
                return
    res.ok(T, "TempFileBufferWriter / TempFileBuffer / BufferState are not Clone/Copy; new() shares one (mutex, condvar) and one mailbox between the halves")


def handover_loops(ctx, res, sites):
    """C11-O1 / C13-W1: per iteration switch(dest) precedes await_real_file on the same buffer, and the blocking
    Condvar wait inside await_real_file is preceded by evidence that the writer half is finished: the join of the
    task owning it (`.await` on its handle / block_on), an explicit drop of the writer, or the readiness-poll idiom
    `while !buf.is_real_file_ready() { yield }`."""
    for file, name in sites:
        fn = ctx.ast.fn(file, name, inline=True)
        sw = sorted([c for c in calls(fn.body, method="switch")], key=lambda c: c.order)
        aw = sorted([c for c in calls(fn.body, method="await_real_file")], key=lambda c: c.order)
        if not sw or not aw:
            res.fail("handover/%s/sites" % name, fn, "no switch/await_real_file pair found")
            continue
        for a in aw:
            buf = up(strip(a["recv"]))
            evid = []
            for n in walk_no_nested_fn(fn.body):
                if n.order >= a.order or not _same_iteration(n, a):
                    continue
                if n.k == "await" and re.search(r"(future|handle|fut|data_write)", up(n["e"]), re.I):
                    evid.append(("join", n))
                elif n.k == "mcall" and n["method"] == "block_on":
                    evid.append(("join", n))
                elif n.k == "while" and up(strip(n["cond"])).replace(" ", "") == "!%s.is_real_file_ready()" % buf:
                    evid.append(("poll", n))
            if not evid:
                res.fail("handover/%s/wait-before-join" % name, a,
                         "`%s.await_real_file()` (a blocking Condvar wait) is not preceded in its iteration by the completion of the task owning the "
                         "writer half (join / block_on / readiness poll): on a current-thread runtime this deadlocks" % buf)
                continue
            pre = [s_ for s_ in sw if s_.order < a.order]
            if not pre:
                res.fail("handover/%s/await-before-switch" % name, a, "await_real_file without a preceding switch")
                continue
            res.ok(a, "%s: switch -> %s -> %s.await_real_file()" % (name, evid[-1][0], buf))
        # destination re-acquired: `file = buf.await_real_file()` re-assigns the variable that was moved into switch
        for s_ in sw:
            dest = strip(s_["args"][0]) if s_["args"] else None
            if dest is None or dest.k != "path":
                continue
            dn = dest["path"]
            re_ = [n for n in walk_no_nested_fn(fn.body) if n.k == "assign" and up(strip(n["l"])) == dn and "await_real_file()" in up(n["r"]) and n.order > s_.order]
            lp = _loop_of(s_)
            from ..astq import binding_before, _is_ancestor
            b = binding_before(fn, dn, s_)
            declared_outside = b is not None and (b[0] == "param" or (lp is not None and not _is_ancestor(lp, b[1])))
            if lp is not None and declared_outside and not [r_ for r_ in re_ if _loop_of(r_) is lp]:
                res.fail("handover/%s/not-returned" % name, s_, "`%s` is moved into switch inside a loop but not re-acquired with await_real_file in the same iteration" % dn)


def _loop_of(n):
    p = n.parent
    while p is not None and isinstance(p, Node):
        if p.k in ("loop", "while", "for"):
            return p
        p = p.parent
    return None


def _same_iteration(a, b):
    """a and b are inside the same innermost loop body (or both outside loops)"""
    return _loop_of(a) is _loop_of(b)
