"""R-STAT obligations: every place a Summary is accumulated."""
from __future__ import annotations
import re
from ..astq import Node, up, strip, strip_cast, walk_no_nested_fn, calls, dominates, binding_before
from ..rules.layout import origin, origin_short
from ..rules import stat as S

W = "bigtools/src/bbi/bbiwrite.rs"
WW = "bigtools/src/bbi/bigwigwrite.rs"
BW = "bigtools/src/bbi/bigbedwrite.rs"


def _local_origin(fn, name, at):
    """origin of the local `name` visible at node `at`"""
    b = binding_before(fn, name, at)
    if b is None:
        return None
    if b[0] == "param":
        return "p%d" % b[1]
    if b[0] == "let" and b[1].get("init") is not None:
        from ..rules.layout import _path_s
        return origin(fn, b[1]["init"]) + _path_s(b[-1])
    return None


def ob_wig_summary(ctx, res):
    fn = ctx.ast.fn(WW, "process_val", inline=True, keep=("encode_section",))
    gs = [g for g in S.summary_blocks(fn.body)]
    if len(gs) != 1:
        res.fail("wigSummary/sites", fn, "expected one summary update block, found %d" % len(gs))
        return
    g = gs[0]
    L, V, err = S.check_update(g)
    if err:
        res.fail("wigSummary/form", g["nodes"][0], "summary accumulation is not in normal form: " + err)
        return
    oL, oV = _local_origin(fn, L, g["nodes"][0]) or L, _local_origin(fn, V, g["nodes"][0]) or V
    if oL != "(p0.end-p0.start)":
        res.fail("wigSummary/len", g["nodes"][0], "length `%s` is `%s`, must be current_val.end - current_val.start" % (L, oL))
        return
    if oV != "p0.value":
        res.fail("wigSummary/val", g["nodes"][0], "value `%s` is `%s`, must be f64::from(current_val.value)" % (V, oV))
        return
    ti = g["fields"].get("total_items")
    if not ti or len(ti) != 1 or ti[0][0] != "+=" or up(strip(ti[0][1])) != "1":
        res.fail("wigSummary/items", g["nodes"][0], "total_items must be incremented by exactly one per value")
        return
    o_base = _local_origin(fn, g["base"], g["nodes"][0]) or ""
    if not re.fullmatch(r"p\d+", o_base) or "Summary" not in fn.params[int(o_base[1:])][1]:
        res.fail("wigSummary/target", g["nodes"][0], "the summary updated must be the processor's summary parameter; it is `%s` (origin %s)" % (g["base"], o_base))
        return
    res.ok(g["nodes"][0], "summary: items += 1; bases += len; min/max folded with val; sum += len*val; sumsq += len*val*val (len = end-start, val = value)")
    # seeds: Summary literals in the two create() fns; destroy() zeroes min/max only when nothing was seen
    for impl in ("BigWigFullProcess", "BigWigNoZoomsProcess"):
        cr = ctx.ast.fn(WW, "create", impl=impl, inline=True)
        lits = S.summary_literals(cr.body)
        if len(lits) != 1:
            res.fail("wigSummary/%s/seed" % impl, cr, "expected one Summary seed literal")
            continue
        f = {x["name"]: up(strip_cast(x["e"])) for x in lits[0]["fields"]}
        if not (f.get("min_val") == "f64::MAX" and f.get("max_val") == "f64::MIN" and f.get("total_items") == "0" and
                f.get("bases_covered") == "0" and f.get("sum") in ("0.0", "0") and f.get("sum_squares") in ("0.0", "0")):
            res.fail("wigSummary/%s/seed-values" % impl, lits[0], "per-chromosome summary must start at counts 0, sums 0, min=f64::MAX, max=f64::MIN; got %s" % f)
            continue
        de = ctx.ast.fn(WW, "destroy", impl=impl, inline=True)
        ifs = [n for n in walk_no_nested_fn(de.body) if n.k == "if" and "total_items == 0" in up(n["cond"])]
        resets = [n for n in walk_no_nested_fn(de.body) if n.k == "assign" and re.search(r"\.(min_val|max_val)$", up(n["l"]))]
        if len(ifs) != 1 or len(resets) != 2 or not all(ifs[0]["then"] is _encl_block(r_) for r_ in resets) or any(up(strip(r_["r"])) != "0.0" for r_ in resets):
            res.fail("wigSummary/%s/empty" % impl, de, "min/max must be reset to 0 only when the chromosome had no values (total_items == 0)")
            continue
        res.ok(lits[0], "%s: seeded counts 0 / min=f64::MAX / max=f64::MIN; empty chromosome reports min=max=0" % impl)


def _encl_block(n):
    b = n.parent
    while b is not None and b.k != "block":
        b = b.parent
    return b


def _zoom_stat(ctx, res, fn, what, val_origin_ok, is_bed):
    gs = S.summary_blocks(fn.body)
    gs = [g for g in gs if g["base"].endswith(".summary")]
    if len(gs) != 1:
        res.fail(what + "/sites", fn, "expected one zoom-record update block, found %d" % len(gs))
        return None
    g = gs[0]
    L, V, err = S.check_update(g)
    if err:
        res.fail(what + "/form", g["nodes"][0], "zoom record accumulation is not in normal form: " + err)
        return None
    at = g["nodes"][0]
    bL = binding_before(fn, L, at)
    if bL is None or bL[0] != "let" or bL[1].get("init") is None:
        res.fail(what + "/len", at, "length `%s` not bound locally" % L)
        return None
    li = strip(bL[1]["init"])
    if not (li.k == "binary" and li["op"] == "-"):
        res.fail(what + "/len", at, "added length must be `add_end - add_start`; got `%s`" % up(li))
        return None
    add_end, add_start = up(strip(li["l"])), up(strip(li["r"]))
    # record end is set to add_end in the same block
    rec = g["base"][:-len(".summary")]
    ends = [n for n in walk_no_nested_fn(g["block"]) if n.k == "assign" and up(strip(n["l"])) == rec + ".end"]
    if len(ends) != 1 or up(strip(ends[0]["r"])) != add_end:
        res.fail(what + "/end", at, "the record's end must be advanced to `%s` together with the statistics" % add_end)
        return None
    oV = _local_origin(fn, V, at) or V
    if not val_origin_ok(oV):
        res.fail(what + "/val", at, "value `%s` has origin `%s`" % (V, oV))
        return None
    # seed literal inside get_or_insert(..)
    lits = [l for l in S.summary_literals(fn.body)]
    if len(lits) != 1:
        res.fail(what + "/seed", fn, "expected one fresh-record Summary literal, found %d" % len(lits))
        return None
    L0, V0, err = S.check_seed(lits[0])
    if err or L0 != "0":
        res.fail(what + "/seed-form", lits[0], "fresh record must start with zero counts and sums (%s)" % (err or "bases_covered seed is %s" % L0))
        return None
    vmin, vmax = V0
    if vmin != V or vmax != V:
        res.fail(what + "/seed-minmax", lits[0],
                 "fresh record seeds min/max with (%s, %s) instead of the first value it summarises (`%s`): a record that only ever sees "
                 "larger (smaller) values reports a minimum (maximum) that never occurred" % (vmin, vmax, V))
        return None
    # record literal: start = end = add_start, chrom = chrom_id parameter
    zr = lits[0].parent
    while zr is not None and not (zr.k == "struct" and zr["path"].endswith("ZoomRecord")):
        zr = zr.parent
    if zr is None:
        res.fail(what + "/record", lits[0], "fresh ZoomRecord literal not found")
        return None
    zf = {x["name"]: x["e"] for x in zr["fields"]}
    if up(strip(zf["start"])) != add_start or up(strip(zf["end"])) != add_start:
        res.fail(what + "/record-span", zr, "fresh record must start empty at add_start (start = end = %s)" % add_start)
        return None
    oc = origin(fn, zf["chrom"])
    if not re.fullmatch(r"p\d+", oc) or fn.params[int(oc[1:])][1] != "u32":
        res.fail(what + "/record-chrom", zr, "record chromosome must be the processor's chrom_id parameter; origin %s" % oc)
        return None
    res.ok(at, "zoom record: bases += add_end-add_start; min/max/sum/sumsq in normal form with val=%s; fresh record {start=end=add_start, counts 0, min=max=val}" % oV)
    return {"add_start": add_start, "add_end": add_end, "rec": rec, "L": L, "V": V, "group": g}


def ob_wig_zoom_stat(ctx, res):
    fn = ctx.ast.fn(WW, "process_val_zoom", inline=True, keep=("encode_zoom_section",))
    _zoom_stat(ctx, res, fn, "wigZoomStat", lambda o: re.fullmatch(r"p\d+\.value", o) is not None, False)


def ob_bed_zoom_stat(ctx, res):
    fn = ctx.ast.fn(BW, "process_val_zoom", inline=True, keep=("encode_zoom_section",))
    r = _zoom_stat(ctx, res, fn, "bedZoomStat", lambda o: o.endswith(".value") and "remove_first" in o, True)
    if r is None:
        return
    # total_items of a closed record <- the paired counter (C08-F1)
    asg = [n for n in walk_no_nested_fn(fn.body) if n.k == "assign" and up(strip(n["l"])).endswith(".summary.total_items")]
    def paired(a):
        """`R.summary.total_items = N` where (R, N) are the two halves of one (record, count) pattern"""
        rn, nn = up(strip(a["l"]))[:-len(".summary.total_items")], up(strip(a["r"]))
        if not re.fullmatch(r"\w+", rn) or not re.fullmatch(r"\w+", nn):
            return False
        br, bn = binding_before(fn, rn, a), binding_before(fn, nn, a)
        return br is not None and bn is not None and br[1] is bn[1] and br[-1] and bn[-1] and br[-1][-1] == 0 and bn[-1][-1] == 1 and br[-1][:-1] == bn[-1][:-1]
    if len(asg) < 2:
        res.fail("bedZoomStat/items", fn, "a closed record's total_items must be set from the paired counter at both close sites; found %d assignment(s)" % len(asg))
    elif not all(paired(a) for a in asg):
        res.fail("bedZoomStat/items", [a for a in asg if not paired(a)][0], "a closed record's total_items must be set from the counter paired with that record")
    else:
        res.ok(asg[0], "closed records receive total_items from the (record, count) pair at both close sites")


def ob_bed_summary(ctx, res):
    fn = ctx.ast.fn(BW, "process_val", inline=True, keep=("encode_section",))
    from .sweeps import bed_sweep_eval
    ev = bed_sweep_eval(ctx)
    if ev is not None:
        if ev[0] == "bad":
            res.fail("bedSummary/eval", fn, "bigBed chromosome summary: " + ev[1])
        else:
            res.ok(fn, "bigBed summary sweep (add_interval_to_summary) run on a stand-in depth list for 6 entry sequences (%d entries; overlapping, nested, identical, zero-length): "
                       "after every entry bases/min/max/sum/sum of squares equal the coverage depth statistics of the bases before the next entry's start" % ev[1])
        return
    gs = [g for g in S.summary_blocks(fn.body) if g["base"] == "summary"]
    lits = S.summary_literals(fn.body)
    if len(gs) != 1 or len(lits) != 1:
        res.fail("bedSummary/sites", fn, "expected one first-item literal and one update block, found %d / %d" % (len(lits), len(gs)))
        return
    L, V, err = S.check_update(gs[0])
    if err:
        res.fail("bedSummary/update", gs[0]["nodes"][0], "summary update is not in normal form: " + err)
        return
    L0, V0, err = S.check_seed(lits[0])
    if err:
        res.fail("bedSummary/seed", lits[0], "first-item summary is not in normal form: " + err)
        return
    if (L0, V0) != (L, V):
        res.fail("bedSummary/agree", lits[0], "first-item arm uses (len=%s,val=%s), update arm (len=%s,val=%s)" % (L0, V0, L, V))
        return
    # (len, val) = if removed.end <= next_start {(removed.end - removed.start, f64(removed.value))} else {(next_start - removed.start, ..)}
    at = gs[0]["nodes"][0]
    b = binding_before(fn, L, at)
    if b is None or b[0] != "let" or strip(b[1]["init"]).k != "if":
        res.fail("bedSummary/segment", at, "(len, val) must be taken from the flushed depth segment")
        return
    iff = strip(b[1]["init"])
    txt = up(iff)
    m = re.match(r"if (\w+)\.end <= (\w+) \{\((\w+)\.end - (\w+)\.start,f64::from\((\w+)\.value\)\)\}", txt)
    if not m or len(set([m.group(1), m.group(3), m.group(4), m.group(5)])) != 1:
        res.fail("bedSummary/segment-whole", iff, "whole segment arm must yield (seg.end - seg.start, f64::from(seg.value)) when seg.end <= next_start")
        return
    seg, nxt = m.group(1), m.group(2)
    el = up(iff["else"])
    if not re.search(r"let (\w+) = %s - %s\.start;" % (nxt, seg), el) or not re.search(r"let (\w+) = f64::from\(%s\.value\);" % seg, el) \
            or "%s.start = %s;" % (seg, nxt) not in el or "insert_first(%s)" % seg not in el:
        res.fail("bedSummary/segment-split", iff["else"], "split arm must count [seg.start, next_start) with the segment's depth and keep [next_start, seg.end) in the sweep")
        return
    ti = [n for n in walk_no_nested_fn(fn.body) if n.k in ("assign", "binary") and ".total_items" in up(n.get("l"))]
    res.ok(at, "bigBed summary over flushed depth segments: bases += len; min/max/sum/sumsq normal form; first-item arm seeds min=max=val; segment split at next_start")


def ob_total_items(ctx, res):
    """C02-F1"""
    for impl in ("BigBedFullProcess", "BigBedNoZoomsProcess"):
        fn = ctx.ast.fn(BW, "do_process", impl=impl)
        incs = [n for n in walk_no_nested_fn(fn.body) if n.k == "binary" and n["op"] == "+=" and up(strip(n["l"])) in ("total_items", "self.total_items") and up(strip(n["r"])) == "1"]
        if len(incs) != 1:
            res.fail("totalItems/%s/count" % impl, fn, "total_items must be incremented exactly once per entry")
            continue
        from ..astq import cond_ancestors
        if cond_ancestors(incs[0]):
            res.fail("totalItems/%s/conditional" % impl, incs[0], "total_items increment is conditional")
            continue
        pv = list(calls(fn.body, func="process_val"))
        if len(pv) != 1 or not (incs[0].order < pv[0].order):
            res.fail("totalItems/%s/order" % impl, incs[0], "count must be taken before any early return of the per-entry processing")
            continue
        de = ctx.ast.fn(BW, "destroy", impl=impl)
        dv = _destroy_eval(ctx, de, impl)
        if dv is not None:
            if dv[0] == "bad":
                res.fail("totalItems/%s/destroy" % impl, de, "destroy must store the counted entries into the returned summary: " + dv[1])
            else:
                res.ok(incs[0], "%s: total_items += 1 once per entry, unconditionally; destroy evaluated with and without a coverage summary: the count reaches the "
                                "chromosome summary in both cases, the other statistics unchanged" % impl)
            continue
        asg = [n for n in walk_no_nested_fn(de.body) if n.k == "assign" and up(strip(n["l"])).endswith(".total_items") and up(strip(n["r"])) == "total_items"]
        # `Summary { total_items, ..rest }` (struct update) stores the count as well
        from ..astq import cond_ancestors as _ca
        upd = [n for n in walk_no_nested_fn(de.body) if n.k == "struct" and n["path"].split("::")[-1] == "Summary" and n.get("rest") is not None and not _ca(n)
               and [x for x in n["fields"] if x["name"] == "total_items" and up(strip(x["e"])) in ("total_items", "self.total_items")]]
        if len(asg) + len(upd) != 1:
            if not asg and not upd and ".total_items" not in up(de.body) and "total_items" in up(de.body):
                res.undecided("totalItems/%s/destroy" % impl, de, "how destroy stores the counted entries into the returned summary was not recognised")
            else:
                res.fail("totalItems/%s/destroy" % impl, de, "destroy must store the counted entries into the returned summary")
            continue
        res.ok(incs[0], "%s: total_items += 1 once per entry, unconditionally, stored into the chromosome summary" % impl)


def _destroy_eval(ctx, de, impl):
    """destroy(self) run on a processor record holding 7 counted entries, with no coverage summary (only zero-length entries) and with one:
    None (not evaluable) | ("ok",) | ("bad", message)"""
    from ..rules.interp import Interp, NotPure, _Return

    def find(v):
        if isinstance(v, dict):
            if "total_items" in v and "bases_covered" in v:
                return v
            for x in v.values():
                r = find(x)
                if r is not None:
                    return r
        if isinstance(v, (tuple, list)):
            for x in v:
                r = find(x)
                if r is not None:
                    return r
        return None
    for summ in (None, {"__type": "Summary", "total_items": 0, "bases_covered": 5, "min_val": 1.0, "max_val": 2.0, "sum": 7.0, "sum_squares": 11.0}):
        box = []

        def method(m, recv, args, box=box):
            if m in ("into_iter", "iter", "collect", "iter_mut") and isinstance(recv, list) and not args:
                return recv
            if m == "map" and isinstance(recv, list) and len(args) == 1:
                return [box[0].apply_closure(args[0], [x]) for x in recv]
            if m == "is_empty" and isinstance(recv, list) and not args:
                return not recv
            raise NotPure("method " + m)
        it = Interp(ctx.ast, BW, extern={"None": None, "method": method, "floats": True, "call": lambda p_, a: ("variant", p_, a) if p_[:1].isupper() else NotImplemented})
        box.append(it)
        selfv = {"__type": impl, "summary": None if summ is None else ("some", dict(summ)), "total_items": 7, "items": [], "zoom_counts": [], "overlap": [],
                 "state_val": {"items": [], "zoom_items": [], "overlap": []}, "zooms": [], "zoom_items": []}
        try:
            r = it.call(de, [selfv])
        except (NotPure, _Return):
            return None
        except Exception:
            return None
        got = find(r)
        if got is None:
            return None
        if got.get("total_items") != 7:
            return ("bad", "with 7 entries counted and %s the returned summary has total_items = %s (a chromosome made of zero-length entries only has no coverage summary; "
                           "its entries still count)" % ("no coverage summary" if summ is None else "a coverage summary", got.get("total_items")))
        for k_ in ("bases_covered", "min_val", "max_val", "sum", "sum_squares"):
            w_ = 0 if summ is None else summ[k_]
            if got.get(k_) != w_:
                return ("bad", "the returned summary has %s = %s, the sweep's summary had %s" % (k_, got.get(k_), w_))
    return ("ok",)


class _MergeIdiom(Exception):
    pass


def _run_merge_interp(ctx, block, env, base, other):
    """the merge block evaluated by the general interpreter on two summary records (falls back to the small evaluator below)"""
    from ..rules.interp import Interp, NotPure
    recs = {base: {"__ref": True}, other: {"__ref": True}}
    for k, v in env.items():
        b_, f_ = k.split(".", 1)
        recs[b_][f_] = v

    def binop(op, a_, b_):
        if isinstance(a_, (int, float)) and isinstance(b_, (int, float)) and op in ("+", "-", "*"):
            return a_ + b_ if op == "+" else (a_ - b_ if op == "-" else a_ * b_)
        raise NotPure("arithmetic")
    try:
        it = Interp(ctx.ast, W, extern={"None": None, "binop": binop, "floats": True})
        b = strip(block)
        it.block(b, dict(recs), 0) if b.k == "block" else it.ev(b, dict(recs), 0)
    except NotPure:
        return _run_merge(block, env)
    except Exception as e:
        raise _MergeIdiom(str(e)[:80])
    out = {}
    for b_, r in recs.items():
        for f_, v in r.items():
            if not f_.startswith("__"):
                out["%s.%s" % (b_, f_)] = v
    return out


def _run_merge(block, env):
    """execute a merge block (assignments / += on <base>.<field>, if/else on comparisons of such fields) on concrete numbers"""
    def val(e):
        e = strip(e)
        if e.k == "lit" and e["t"] in ("int", "float"):
            return float(e["v"]) if "." in str(e["v"]) else int(re.sub(r"[a-z_].*$", "", str(e["v"])) or 0)
        if e.k == "field":
            k = up(e)
            if k not in env:
                raise _MergeIdiom("unknown value `%s`" % k)
            return env[k]
        if e.k == "mcall" and e["method"] in ("min", "max") and len(e["args"]) == 1:
            a_, b_ = val(e["recv"]), val(e["args"][0])
            return min(a_, b_) if e["method"] == "min" else max(a_, b_)
        if e.k == "binary" and e["op"] in ("+", "-", "*"):
            a_, b_ = val(e["l"]), val(e["r"])
            return a_ + b_ if e["op"] == "+" else a_ - b_ if e["op"] == "-" else a_ * b_
        raise _MergeIdiom("expression `%s`" % up(e)[:50])

    def cond(c):
        c = strip(c)
        if c.k == "binary" and c["op"] in ("&&", "||"):
            return (cond(c["l"]) and cond(c["r"])) if c["op"] == "&&" else (cond(c["l"]) or cond(c["r"]))
        if c.k == "unary" and c["op"] == "!":
            return not cond(c["e"])
        if c.k == "binary" and c["op"] in ("<", "<=", ">", ">=", "==", "!="):
            a_, b_ = val(c["l"]), val(c["r"])
            return {"<": a_ < b_, "<=": a_ <= b_, ">": a_ > b_, ">=": a_ >= b_, "==": a_ == b_, "!=": a_ != b_}[c["op"]]
        raise _MergeIdiom("condition `%s`" % up(c)[:50])

    def run(blk):
        for st in strip(blk)["stmts"]:
            e = strip(st["e"]) if st.k == "expr_stmt" else None
            if e is None:
                raise _MergeIdiom("statement `%s`" % up(st)[:50])
            if e.k == "if":
                if cond(e["cond"]):
                    run(e["then"])
                elif e.get("else") is not None:
                    run(e["else"])
            elif e.k == "assign":
                env[up(strip(e["l"]))] = val(e["r"])
            elif e.k == "binary" and e["op"] == "+=":
                k = up(strip(e["l"]))
                env[k] = env[k] + val(e["r"])
            elif e.k == "block":
                run(e)
            else:
                raise _MergeIdiom("statement `%s`" % up(st)[:50])
    run(block)
    return env


def ob_merge(ctx, res):
    """C06-A3: the per-chromosome merge, decided by running the merge statement (a `match` on the running summary, whatever its arms and guards) on concrete
    summaries for every combination of (no running summary yet / running summary with / without covered bases) x (chromosome with / without covered bases) x
    (which of the two has the smaller minimum / larger maximum)"""
    from ..rules.interp import Interp, NotPure, _Return
    FIELDS_ = ("total_items", "bases_covered", "min_val", "max_val", "sum", "sum_squares")
    for name in ("write_vals", "write_vals_no_zoom"):
        fn = ctx.ast.fn(W, name, inline=True, keep=("write_data", "future_channel", "write_chroms_with_zooms", "write_chroms_without_zooms"))
        ms = []
        for m in walk_no_nested_fn(fn.body):
            if m.k != "match" or not any("bases_covered" in up(a["body"]) for a in m["arms"]):
                continue
            sc = up(strip(m["scrut"])).replace("&mut ", "").replace("mut ", "").strip()
            if re.fullmatch(r"[a-z_]\w*", sc) and any(up(a["pat"]) == "None" for a in m["arms"]):
                ms.append((m, sc))
        if len(ms) != 1:
            res.undecided("merge/%s/sites" % name, fn, "expected one per-chromosome merge (`match &mut summary { None => .., Some(..) => .. }`), found %d" % len(ms))
            continue
        m, S_ = ms[0]
        na = [a for a in m["arms"] if up(a["pat"]) == "None"][0]
        mm = re.fullmatch(r"\{?\*?(\w+) = Some\((\w+)\);?\}?", up(strip(na["body"])))
        if not mm:
            res.fail("merge/%s/first" % name, na, "the first chromosome's summary must be taken as is (None => summary = Some(chrom_summary))")
            continue
        other = mm.group(2)
        oo = _local_origin(fn, other, m) or ""
        if ".destroy()" not in oo:
            res.fail("merge/%s/source" % name, m, "merged summary must be the one returned by the chromosome processor's destroy(); origin %s" % oo)
            continue

        def binop(op, a, b):
            if isinstance(a, (int, float)) and isinstance(b, (int, float)) and op in ("+", "-", "*"):
                return a + b if op == "+" else (a - b if op == "-" else a * b)
            raise NotPure("arithmetic")
        bad = None
        und = None
        cases = 0
        for sb in (None, 0, 4):
            for cb in (0, 6):
                for (smin, smax, cmin, cmax) in ((3.0, 7.0, 1.0, 9.0), (1.0, 9.0, 3.0, 7.0), (2.0, 5.0, 2.0, 5.0)):
                    smin_, smax_ = (0.0, 0.0) if not sb else (smin, smax)      # the placeholder of a summary without covered bases
                    cmin_, cmax_ = (0.0, 0.0) if cb == 0 else (cmin, cmax)
                    run_rec = None if sb is None else dict(zip(FIELDS_, (2, sb, smin_, smax_, 10.0, 30.0)), __ref=True, __type="Summary")
                    chr_rec = dict(zip(FIELDS_, (3, cb, cmin_, cmax_, 20.0, 50.0)), __type="Summary")
                    env = {S_: None if run_rec is None else ("some", run_rec), other: chr_rec}
                    it = Interp(ctx.ast, W, extern={"None": None, "binop": binop, "floats": True})
                    try:
                        it.ev(m, env, 0)
                    except _Return:
                        pass            # an early `return` ends the per-chromosome step
                    except NotPure as e:
                        und = str(e)[:80]
                        break
                    except Exception as e:
                        und = "%s: %s" % (type(e).__name__, str(e)[:60])
                        break
                    cases += 1
                    out = env.get(S_)
                    if not (isinstance(out, tuple) and len(out) == 2 and out[0] == "some" and isinstance(out[1], dict)):
                        bad = "after a chromosome with %d entries the running summary is %s" % (3, out)
                        break
                    out = out[1]
                    if sb is None:
                        want = {f_: chr_rec[f_] for f_ in FIELDS_}
                    else:
                        want = {"total_items": 5, "bases_covered": sb + cb, "sum": 30.0, "sum_squares": 80.0}
                        if sb and cb:
                            want["min_val"], want["max_val"] = min(smin_, cmin_), max(smax_, cmax_)
                        elif cb:
                            want["min_val"], want["max_val"] = cmin_, cmax_
                        elif sb:
                            want["min_val"], want["max_val"] = smin_, smax_
                    for f_, w_ in want.items():
                        if out.get(f_) != w_:
                            bad = ("with %s so far and a chromosome with 3 entries and %s covered bases (min %s, max %s) the merged %s is %s, must be %s"
                                   % ("no summary" if sb is None else "2 entries, %s covered bases (min %s, max %s)" % (sb, smin_, smax_), cb, cmin_, cmax_, f_, out.get(f_), w_))
                            if f_ in ("min_val", "max_val") and (not sb or cb == 0):
                                bad += ": a chromosome (or everything before it) without a covered base only has a 0.0 placeholder, which must not be folded into min/max " \
                                       "(bigBed `chrA 0 5`, `chrB 1 1`: minimum depth 0 reported)"
                            if f_ == "total_items":
                                bad += ": the entries of a chromosome count also when none of them covers a base (only zero-length entries) - the count is the file's item count"
                            break
                    if bad:
                        break
                if bad or und:
                    break
            if bad or und:
                break
        if und:
            res.undecided("merge/%s/semantics" % name, m, "merge statement outside the evaluated fragment (%s)" % und)
            continue
        if bad:
            res.fail("merge/%s/semantics" % name, m, bad)
            continue
        res.ok(m, "%s: first chromosome taken as is; then items/bases/sum/sumsq added and min/max folded only between summaries that have covered bases (%d concrete cases)" % (name, cases))


_AVG_CASES = [
    ([], 0, 20),
    ([(3, 8, 2.0)], 0, 20),
    ([(0, 10, 2.0), (10, 15, -1.0), (15, 16, 0.5)], 0, 20),
    ([(5, 9, 0.0)], 5, 9),
    ([(100, 101, -3.5), (101, 140, -0.25)], 100, 140),
    ([(7, 9, 1.0), (9, 10, 1.0), (12, 13, 4.0)], 7, 13),
    ([], 5, 5),
]


def _avg_eval(ctx, fn):
    """stats_for_bed_item run by the interpreter over a mocked reader: None (not evaluable) | ("ok", n) | ("bad", message)"""
    from ..rules.interp import Interp, NotPure, _Return
    F_ = "bigtools/src/utils/misc.rs"
    nan = float("nan")

    def same(a, b):
        return (a != a and b != b) or (a == b and type(a) in (int, float) and type(b) in (int, float))

    n = 0
    for vals, start, end in _AVG_CASES:
        box = []

        def method(m, recv, args, box=box, vals=vals):
            if m == "get_interval" and recv == "BW" and len(args) == 3:
                if args != ["chrQ", start, end]:
                    raise NotPure("query")
                return ("some", ("resiter", [{"start": a, "end": b, "value": v} for a, b, v in vals]))
            if m == "collect" and isinstance(recv, tuple) and recv and recv[0] == "resiter" and not args:
                return ("some", list(recv[1]))
            if m in ("into_iter", "iter") and isinstance(recv, list) and not args:
                return recv
            if m == "fold" and isinstance(recv, list) and len(args) == 2:
                acc = args[0]
                for x in recv:
                    acc = box[0].apply_closure(args[1], [acc, x])
                return acc
            if m == "len" and isinstance(recv, list) and not args:
                return len(recv)
            if m == "is_empty" and isinstance(recv, list) and not args:
                return not recv
            if m == "is_nan" and isinstance(recv, float) and not args:
                return recv != recv
            raise NotPure("method " + m)

        def path(p_):
            return {"f64::NAN": nan, "f64::MAX": 1.7976931348623157e308, "f64::MIN": -1.7976931348623157e308,
                    "f64::INFINITY": float("inf"), "f64::NEG_INFINITY": float("-inf")}.get(p_, NotImplemented)

        def binop(op, a, b):
            if isinstance(a, (int, float)) and isinstance(b, (int, float)) and not isinstance(a, bool) and not isinstance(b, bool):
                if op == "+":
                    return a + b
                if op == "-":
                    if isinstance(a, int) and isinstance(b, int) and a < b:
                        raise NotPure("unsigned underflow")
                    return a - b
                if op == "*":
                    return a * b
                if op == "/":
                    if isinstance(a, int) and isinstance(b, int):
                        if b == 0:
                            raise NotPure("integer division by zero")
                        return a // b
                    return a / b if b != 0 else (nan if a == 0 or a != a else (float("inf") if a > 0 else float("-inf")))
            raise NotPure("arithmetic on %r, %r" % (a, b))
        it = Interp(ctx.ast, F_, extern={"None": None, "method": method, "path": path, "floats": True, "binop": binop})
        box.append(it)
        try:
            r = it.call(fn, ["chrQ", {"start": start, "end": end, "rest": ""}, "BW"])
        except (NotPure, _Return):
            return None
        except Exception:
            return None
        if not (isinstance(r, tuple) and len(r) == 2 and r[0] == "some" and isinstance(r[1], dict)):
            return None
        got = r[1]
        bases = sum(b - a for a, b, v in vals)
        sm = 0.0
        for a, b, v in vals:
            sm += float(b - a) * v
        size = end - start
        want = {"size": size, "bases": bases, "sum": sm, "mean0": (sm / size) if size else nan,
                "mean": sm / bases if bases else nan, "min": min(v for _, _, v in vals) if bases else nan, "max": max(v for _, _, v in vals) if bases else nan}
        for k, w in want.items():
            if k not in got:
                return None
            if not same(got[k], w):
                return ("bad", "for the region %d-%d with stored values %s the result has %s = %s; by definition it is %s" % (start, end, vals, k, got[k], w))
        n += 1
    return ("ok", n)


def ob_avg_stats(ctx, res):
    """C17-A1"""
    fn = ctx.ast.fn("bigtools/src/utils/misc.rs", "stats_for_bed_item")
    gi = list(calls(fn.body, method="get_interval"))
    if len(gi) != 1:
        res.fail("avgStats/query", fn, "expected one get_interval query")
        return
    qa = [origin(fn, a) for a in gi[0]["args"]]
    if qa != ["p0", "p1.start", "p1.end"]:
        res.fail("avgStats/query-args", gi[0], "values must be queried for (chrom, entry.start, entry.end); got %s" % qa)
        return
    ev = _avg_eval(ctx, fn)
    if ev is not None:
        if ev[0] == "bad":
            res.fail("avgStats/eval", fn, ev[1])
        else:
            res.ok(fn, "stats_for_bed_item evaluated on %d regions (no values, one, several with negative and fractional values, all-zero values, empty region): "
                       "size, bases, sum, mean0, mean, min, max as defined; NaN exactly when no base is covered" % ev[1])
        return
    # not evaluable: the accumulation loop is read syntactically
    loops = [n for n in walk_no_nested_fn(fn.body) if n.k == "for"]
    if len(loops) != 1:
        res.undecided("avgStats/loop", fn, "the statistics are neither evaluable nor accumulated in one `for` loop: not decided")
        return
    lp = loops[0]
    v = up(lp["pat"])
    acc = {}
    for n in walk_no_nested_fn(lp["body"]):
        if n.k == "binary" and n["op"] == "+=":
            acc[up(strip(n["l"]))] = ("+=", n["r"], n)
        elif n.k == "assign":
            acc[up(strip(n["l"]))] = ("=", n["r"], n)
    nb = None
    for n in walk_no_nested_fn(lp["body"]):
        if n.k == "let" and n.get("init") is not None and up(strip(n["init"])) == "%s.end - %s.start" % (v, v):
            nb = up(n["pat"])
    if nb is None:
        res.fail("avgStats/len", lp, "per-value length must be val.end - val.start (values are already clipped to the region)")
        return
    from ..astq import tnorm_keeping
    names = {"bases": None, "sum": None, "min": None, "max": None}
    for k, (op, rhs, node) in acc.items():
        rhs = tnorm_keeping(fn, rhs, (nb, k))      # hoisted temporaries (`let value = f64::from(val.value)`) inlined
        if op == "+=" and S.factors(rhs) == [nb]:
            names["bases"] = k
        elif op == "+=" and sorted(S.factors(rhs)) == sorted([nb, v + ".value"]):
            names["sum"] = k
        elif op == "=" and strip(rhs).k == "mcall" and strip(rhs)["method"] in ("min", "max") and len(strip(rhs)["args"]) == 1:
            ops = [up(strip_cast(strip(rhs)["recv"])), up(strip_cast(strip(rhs)["args"][0]))]
            if sorted(ops) == sorted([k, v + ".value"]):
                names[strip(rhs)["method"]] = k
    if None in names.values() or len(acc) != 4:
        res.fail("avgStats/form", lp, "accumulation must be bases += n; sum += n*value; min = min.min(value); max = max.max(value); recognised %s of %s" % (names, list(acc)))
        return
    # tail: size = end - start ; mean0 = sum/size ; (mean,min,max) = if bases == 0 {NaN x3} else {(sum/bases, min, max)}
    txt = up(fn.body)
    B, Sm, Mn, Mx = names["bases"], names["sum"], names["min"], names["max"]
    lits = [n for n in walk_no_nested_fn(fn.body) if n.k == "struct" and n["path"].endswith("BigWigAverageOverBedEntry")]
    if len(lits) != 1:
        res.fail("avgStats/result", fn, "result literal not found")
        return
    f = {x["name"]: x["e"] for x in lits[0]["fields"]}
    o = {k: origin(fn, v_) for k, v_ in f.items()}
    ok = True
    if o["size"] != "(p1.end-p1.start)":
        res.fail("avgStats/size", lits[0], "size must be end - start; origin %s" % o["size"])
        ok = False
    if o["mean0"] not in ("(%s/(p1.end-p1.start))" % "lit:0.0",) and not re.fullmatch(r"\(.*/\(p1\.end-p1\.start\)\)", o["mean0"]):
        res.fail("avgStats/mean0", lits[0], "mean0 must be sum / size; origin %s" % o["mean0"])
        ok = False
    iff, flipped = [], False
    for n in walk_no_nested_fn(fn.body):
        if n.k == "if" and n.get("else") is not None:
            ct = up(strip(n["cond"])).replace(" ", "")
            if ct in ("%s==0" % B, "0==%s" % B):
                iff.append(n)
            elif ct in ("%s!=0" % B, "0!=%s" % B, "%s>0" % B, "0<%s" % B):
                iff.append(n)
                flipped = True
    if len(iff) != 1:
        res.fail("avgStats/nan", fn, "mean/min/max must be NaN exactly when no base is covered (bases == 0)")
        ok = False
    else:
        th = up(iff[0]["else" if flipped else "then"]).replace(" ", "")
        el = up(iff[0]["then" if flipped else "else"]).replace(" ", "")
        if th != "{(f64::NAN,f64::NAN,f64::NAN)}" or el != "{(%s/f64::from(%s),%s,%s)}" % (Sm, B, Mn, Mx):
            res.fail("avgStats/nan-arms", iff[0], "expected (NaN,NaN,NaN) when bases == 0 else (sum/bases, min, max); got %s / %s" % (th, el))
            ok = False
        else:
            st = iff[0].parent
            while st is not None and st.k != "let":
                st = st.parent
            pn = [up(e) for e in st["pat"]["elems"]] if st is not None and st["pat"].k == "p_tuple" else None
            if pn is None or [up(strip(f["mean"])), up(strip(f["min"])), up(strip(f["max"]))] != pn:
                res.fail("avgStats/bind", lits[0], "result fields mean/min/max must take the (mean, min, max) tuple in order")
                ok = False
    if up(strip(f["bases"])) != B or up(strip(f["sum"])) != Sm:
        res.fail("avgStats/fields", lits[0], "result bases/sum must be the accumulated values")
        ok = False
    # seeds
    for nm, seed in ((B, "0"), (Sm, "0.0"), (Mn, "f64::MAX"), (Mx, "f64::MIN")):
        b = binding_before(fn, nm, lp)
        if b is None or b[0] != "let" or up(strip(b[1]["init"])) != seed:
            res.fail("avgStats/seed-" + nm, fn, "%s must start at %s" % (nm, seed))
            ok = False
    if ok:
        res.ok(lp, "bases += n; sum += n*v; min/max folded; size = end-start; mean0 = sum/size; (mean,min,max) = NaN iff bases == 0 else (sum/bases,min,max)")
