"""C19: generated autoSql field count, schema flow into the bigBed, generator tokens vs parser arms, slice provenance."""
from __future__ import annotations
import re
from ..astq import Node, up, strip, strip_cast, walk_no_nested_fn, walk, calls, binding_before
from ..rules.layout import origin, int_value

A = "bigtools/src/bed/autosql.rs"
BW = "bigtools/src/bbi/bigbedwrite.rs"
CB = "bigtools/src/utils/cli/bedtobigbed.rs"


def _decls(text):
    """number of field declarations (`;` outside quotes) in a schema fragment"""
    n = 0
    inq = False
    for ch in text:
        if ch == '"':
            inq = not inq
        elif ch == ";" and not inq:
            n += 1
    return n


def ob_generated_count(ctx, res):
    """C19-T1: bed_autosql declares 3 + e fields for every e"""
    fn = ctx.ast.fn(A, "bed_autosql")
    lits = [n for n in walk_no_nested_fn(fn.body) if n.k == "lit" and n["t"] == "str"]
    base = [l for l in lits if "table bed" in l["v"]]
    if len(base) != 1 or _decls(base[0]["v"]) != 3:
        res.fail("generated/base", fn, "the fixed part of the generated schema must declare exactly chrom, chromStart, chromEnd")
        return
    fields = None
    for c in [x for x in walk_no_nested_fn(fn.body) if x.k == "item_stmt"]:
        it = c["item"]
        if it.k == "const" and it["name"] == "FIELDS":
            arr = strip(it["e"])
            if arr.k == "array":
                fields = [strip(e) for e in arr["elems"]]
    if not fields:
        res.fail("generated/fields", fn, "FIELDS table not found")
        return
    for i, f in enumerate(fields):
        if f.k != "lit" or _decls(f["v"]) != 1:
            res.fail("generated/field-%d" % i, f, "FIELDS[%d] must declare exactly one field; `%s` declares %d" % (i, f.get("v", "?")[:40], _decls(f.get("v", ""))))
            return
    N = len(fields)
    # the generator is a pure string builder: it is evaluated for every number of extra columns e = 0 .. N+3 (both sides of the named / generic
    # field boundary) and the declarations of the result are counted
    from ..rules.interp import Interp, NotPure
    FIELDS_V = [f["v"] for f in fields]
    holder = [None]

    def method(m, recv, args):
        if isinstance(recv, str):
            if m == "is_empty" and not args:
                return recv == ""
            if m == "split" and len(args) == 1 and isinstance(args[0], str):
                return recv.split(args[0])
            if m in ("to_string", "to_owned", "as_str", "into", "clone") and not args:
                return recv
            if m == "len" and not args:
                return len(recv)
        if isinstance(recv, list):
            if m in ("count", "len") and not args:
                return len(recv)
            if m in ("iter", "into_iter", "copied", "cloned") and not args:
                return list(recv)
            if m == "take" and len(args) == 1 and isinstance(args[0], int):
                return recv[:max(0, args[0])]
            if m == "skip" and len(args) == 1 and isinstance(args[0], int):
                return recv[max(0, args[0]):]
            if m == "for_each" and len(args) == 1:
                for x in recv:
                    holder[0].apply_closure(args[0], [x])
                return None
            if m == "enumerate" and not args:
                return [(i, x) for i, x in enumerate(recv)]
            if m == "collect" and not args:
                return recv
            if m == "join" and len(args) == 1 and isinstance(args[0], str):
                return args[0].join(recv)
        if isinstance(recv, tuple) and len(recv) == 3 and recv[0] == "range" and m == "for_each" and len(args) == 1:
            for x in range(recv[1], recv[2]):
                holder[0].apply_closure(args[0], [x])
            return None
        if isinstance(recv, tuple) and len(recv) == 3 and recv[0] == "range" and m == "map" and len(args) == 1:
            return [holder[0].apply_closure(args[0], [x]) for x in range(recv[1], recv[2])]
        raise NotPure("method %s on %s" % (m, type(recv).__name__))

    def binop(op, a_, b_):
        if isinstance(a_, int) and isinstance(b_, int) and op in ("+", "-", "*"):
            return a_ + b_ if op == "+" else (a_ - b_ if op == "-" else a_ * b_)
        if isinstance(a_, str) and isinstance(b_, str) and op == "+":
            return a_ + b_
        raise NotPure("arithmetic")

    def macro(n, args):
        if n["path"] == "format" and args and isinstance(args[0], str):
            out, rest_ = args[0], list(args[1:])
            while "{}" in out and rest_:
                out = out.replace("{}", str(rest_.pop(0)), 1)
            return out
        raise NotPure("macro " + n["path"])
    bad = None
    for e in range(0, N + 4):
        rest = "\t".join("c%d" % i for i in range(e))
        itp = Interp(ctx.ast, A, extern={"None": None, "method": method, "binop": binop, "macro": macro, "FIELDS": FIELDS_V}, max_steps=50000)
        holder[0] = itp
        try:
            out = itp.call(fn, [rest])
        except NotPure as x:
            res.undecided("generated/not-evaluable", fn, "bed_autosql is outside the fragment the rule evaluates (%s)" % x)
            return
        if not isinstance(out, str):
            bad = "for %d extra columns the generator returns %r" % (e, out)
            break
        names = re.findall(r"(\w+)\s*;", re.sub(r'"[^"]*"', "", out))
        if _decls(out) != 3 + e:
            bad = "for a line with %d extra column(s) the generated schema declares %d fields, the records have %d" % (e, _decls(out), 3 + e)
            break
        if len(set(names)) != len(names):
            bad = "for %d extra columns the generated schema declares a field name twice (%s)" % (e, sorted(x for x in names if names.count(x) > 1)[0])
            break
        if not out.rstrip().endswith(")"):
            bad = "the generated schema is not closed with `)` (for %d extra columns)" % e
            break
    if bad:
        res.fail("generated/count", fn, bad)
        return
    res.ok(fn, "generated schema evaluated for e = 0..%d extra columns: 3 fixed fields + the first min(e,%d) named fields + generic fields beyond = 3 + e declarations, names distinct, list closed" % (N + 3, N))
    res.count("FIELDS", N)


def _inside_n(root, n):
    x = n
    while x is not None and isinstance(x, Node):
        if x is root:
            return True
        x = x.parent
    return False


def ob_schema_flow(ctx, res):
    """C19-F1 + C02-L2"""
    fn = ctx.ast.fn(CB, "bedtobigbed")
    asg = [n for n in walk_no_nested_fn(fn.body) if n.k == "assign" and up(strip(n["l"])) == "outb.autosql"]
    ms = [n for n in walk_no_nested_fn(fn.body) if n.k == "match" and up(n["scrut"]) == "args.autosql.as_ref()"]
    if len(asg) != 2 or len(ms) != 2:
        res.fail("schemaFlow/sites", fn, "expected the schema to be chosen on --autosql on both input paths (stdin, file): %d assignments of outb.autosql, %d selections" % (len(asg), len(ms)))
        return
    for m in ms:
        stdin_path = "stdin" in up(m)
        which = "stdin" if stdin_path else "file"
        arms = {up(a["pat"]).split("(")[0]: a for a in m["arms"]}
        if "None" not in arms or "Some" not in arms:
            res.fail("schemaFlow/%s/arms" % which, m, "expected None / Some(file) arms")
            return
        tn = up(arms["None"]["body"])
        gen = [c for c in walk_no_nested_fn(arms["None"]["body"]) if c.k == "call" and up(c["func"]).endswith("bed_autosql")]
        if len(gen) != 1 or not re.search(r"\.1\.rest$", up(strip(gen[0]["args"][0]))):
            res.fail("schemaFlow/%s/generated" % which, arms["None"], "without --autosql the schema must be bed_autosql(rest of the first parsed line of the input)")
            return
        if stdin_path:
            # the first line is read off stdin, parsed with the same parser, and put back in front of the remaining input
            rl = [c for c in walk_no_nested_fn(arms["None"]["body"]) if c.k == "mcall" and c["method"] == "read_line" and "stdin" in up(c["recv"])]
            pb = [c for c in walk_no_nested_fn(arms["None"]["body"]) if c.k == "call" and up(c["func"]) == "parse_bed"]
            if len(rl) != 1 or len(pb) != 1:
                res.fail("schemaFlow/stdin/first-line", arms["None"], "the first line must be read from stdin and parsed with parse_bed")
                return
            buf = up(strip(rl[0]["args"][0])).lstrip("&").replace("mut ", "")
            if up(strip(pb[0]["args"][0])).lstrip("&") != buf:
                res.fail("schemaFlow/stdin/first-line", pb[0], "parse_bed must be given the line just read")
                return
            ch = [c for c in walk_no_nested_fn(fn.body) if c.k == "mcall" and c["method"] == "chain" and buf in up(c["recv"]) and "Cursor::new" in up(c["recv"])]
            if len(ch) != 1 or up(strip(ch[0]["args"][0])) != "stdin" or not (m.order < ch[0].order):
                res.fail("schemaFlow/stdin/put-back", fn, "the line taken off stdin must be chained back in front of the remaining input (otherwise the first record is lost)")
                return
            fb = [c for c in walk_no_nested_fn(fn.body) if c.k == "call" and up(c["func"]).endswith("from_bed_file") and ch[0].order <= c.order]
            if not fb or "chain" not in origin(fn, fb[0]["args"][0]):
                res.fail("schemaFlow/stdin/source", fn, "the data source must read the re-assembled stream")
                return
        else:
            if "BedFileStream::from_bed_file(" not in tn or ".next()" not in tn:
                res.fail("schemaFlow/file/generated", arms["None"], "the first line must be parsed from a fresh handle of the input file")
                return
        ts = up(strip(arms["Some"]["body"]))
        if not re.fullmatch(r"Some\(std::fs::read_to_string\((\w+)\)\?\)", ts):
            res.fail("schemaFlow/%s/supplied" % which, arms["Some"], "a supplied schema file must be stored verbatim (read_to_string); got `%s`" % ts)
            return
        # the selection reaches outb.autosql
        okas = [a_ for a_ in asg if _inside_n(m, a_["r"]) or origin(fn, a_["r"]).startswith("match") and m.order <= a_.order]
        res.ok(m, "bedtobigbed (%s): no --autosql -> bed_autosql(first line's rest)%s; --autosql -> file content verbatim" % (which, ", first line chained back in front of stdin" if stdin_path else ""))
    # library: default None -> BED3, stored as C string, field_count from the last parsed declaration (fallback 3)
    wp = ctx.ast.fn(BW, "write_pre")
    t = up(wp.body)
    # the schema written when none was given: the statement re-binding `autosql` is evaluated for None / Some(text)
    from ..rules.interp import Interp, NotPure
    dl = [x for x in wp.body["stmts"] if x.k == "let" and x["pat"].k == "p_ident" and x["pat"]["name"] == "autosql" and x.get("init") is not None and "BED3" in up(x["init"])]
    if len(dl) != 1:
        res.undecided("schemaFlow/default", wp, "the statement choosing the default schema (BED3) was not located")
    else:
        def _m(m, recv, args):
            if isinstance(recv, str) and m in ("to_string", "to_owned", "into", "clone") and not args:
                return recv
            raise NotPure("method " + m)
        bad = None
        for given, want in ((None, "BED3TEXT"), (("some", "USER"), "USER")):
            try:
                got = Interp(ctx.ast, BW, extern={"None": None, "method": _m, "path": lambda p_: "BED3TEXT" if p_.split("::")[-1] == "BED3" else (_ for _ in ()).throw(NotPure("free name " + p_))}).ev(
                    dl[0]["init"], {"autosql": given}, 0)
            except NotPure as e:
                bad = ("undecided", str(e))
                break
            if got != want:
                bad = ("differs", "with %s the stored schema is %s, required %s" % ("no schema given" if given is None else "a schema given", got, want))
                break
        if bad and bad[0] == "undecided":
            res.undecided("schemaFlow/default", dl[0], "default schema selection not evaluated (%s)" % bad[1])
        elif bad:
            res.fail("schemaFlow/default", dl[0], "the library default schema must be the three-field BED3 and a given schema must be kept: %s" % bad[1])
            return
    # the field count is a small pure function of the parse result: it is evaluated for (unparsable schema, no declaration, two declarations)
    from ..rules.interp import Interp, NotPure
    st = wp.body["stmts"]
    idx = [i for i, x in enumerate(st) if any(c.k == "call" and up(c["func"]).split("::")[-1] == "parse_autosql" for c in walk_no_nested_fn(x))]
    fc = [i for i, x in enumerate(st) if x.k == "let" and x["pat"].k == "p_ident" and x["pat"]["name"] == "field_count"]
    if len(idx) != 1 or not fc or fc[-1] < idx[0]:
        res.undecided("schemaFlow/field-count", wp, "the statements computing `field_count` from parse_autosql(..) were not located")
    else:
        seg = st[min(idx[0], fc[0]):fc[-1] + 1]
        bad = None
        for desc, parsed, want in (("an unparsable schema", ("err", "E"), 3), ("a schema without a declaration", ("some", []), 3),
                                   ("a schema with a 2-field and then a 5-field declaration", ("some", [{"__type": "Declaration", "fields": ["a", "b"]}, {"__type": "Declaration", "fields": list("abcde")}]), 5)):
            def method(m, recv, args):
                if isinstance(recv, list):
                    if m == "pop" and not args:
                        return ("some", recv.pop()) if recv else None
                    if m == "last" and not args:
                        return ("some", recv[-1]) if recv else None
                    if m in ("next", "first") and not args:
                        return ("some", recv[0]) if recv else None
                    if m in ("next_back",) and not args:
                        return ("some", recv[-1]) if recv else None
                    if m == "rev" and not args:
                        return list(reversed(recv))
                    if m in ("len", "count") and not args:
                        return len(recv)
                    if m in ("into_iter", "iter") and not args:
                        return list(recv)
                    if m == "is_empty" and not args:
                        return not recv
                if m == "ok" and not args and isinstance(recv, tuple) and recv and recv[0] in ("some", "err"):
                    return None if recv[0] == "err" else ("some", recv[1])
                if m == "and_then" and len(args) == 1 and (recv is None or (isinstance(recv, tuple) and recv[0] == "some")):
                    return None if recv is None else holder[0].apply_closure(args[0], [recv[1]])
                raise NotPure("method " + m)
            holder = [None]
            itp = Interp(ctx.ast, BW, extern={"None": None, "method": method, "parse_autosql": lambda *a, parsed=parsed: (parsed[0], list(parsed[1])) if parsed[0] == "some" else parsed})
            holder[0] = itp
            env = {"autosql": "SCHEMA"}
            try:
                itp.run_stmts(seg, env)
            except NotPure as e:
                bad = ("undecided", str(e))
                break
            if env.get("field_count") != want:
                bad = ("differs", "for %s the field count is %s, required %s" % (desc, env.get("field_count"), want))
                break
        if bad and bad[0] == "undecided":
            res.undecided("schemaFlow/field-count", wp, "field count computation not evaluated (%s)" % bad[1])
        elif bad:
            res.fail("schemaFlow/field-count", wp, "field count must be the number of fields of the last parsed declaration, 3 when there is none: %s" % bad[1])
            return
    news = ctx.ast.fns_in(BW)
    sd = ctx.ast.struct(BW, "BigBedWrite")
    cons = [f for f in news if f.name == "new" and f.body is not None]
    if not cons or "autosql: None" not in up(cons[0].body):
        res.fail("schemaFlow/new", BW, "BigBedWrite::new must start without a schema (autosql: None)")
        return
    res.ok(wp, "library: autosql None -> BED3; fieldCount = fields of the last parsed declaration (else 3); text stored NUL-terminated at autoSqlOffset")
    # BED3 itself has three declarations
    c = ctx.ast.const(A, "BED3")
    v = strip(c["e"])
    if v.k != "lit" or _decls(v["v"]) != 3:
        res.fail("schemaFlow/bed3", c.file, "BED3 must declare exactly three fields")
    else:
        res.ok(c.file + ":%d" % c["sp"][0], "BED3 declares 3 fields")


def ob_generator_tokens(ctx, res):
    """C19-G1: every type token the generator emits is an arm of FieldType::try_parse"""
    fn = ctx.ast.fn(A, "bed_autosql")
    texts = [n["v"] for n in walk(fn.body) if isinstance(n, Node) and n.k == "lit" and n["t"] == "str"]
    types = set()
    for t in texts:
        for line in t.split("\n"):
            line = line.strip()
            m = re.match(r"^(\w+)(\[\w+\])?\s+[\w{}]+\s*;", line)
            if m:
                types.add(m.group(1))
    tp = ctx.ast.fn(A, "try_parse")
    arms = set()
    for n in walk_no_nested_fn(tp.body):
        if n.k == "arm" and n["pat"].k == "p_lit" and n["pat"]["lit"]["t"] == "str":
            arms.add(n["pat"]["lit"]["v"])
    miss = types - arms
    if len(types) < 6:
        res.fail("genTokens/floor", fn, "only %d distinct field types found in the generated text (expected >= 6)" % len(types))
        return
    if miss:
        res.fail("genTokens/missing", tp, "generator emits field type(s) %s that try_parse has no arm for" % sorted(miss))
        return
    # sized form `type[name]` is handled by parse_field_list
    pf = ctx.ast.fn(A, "parse_field_list")
    if 'next_word == "["' not in up(pf.body) or 'close != "]"' not in up(pf.body):
        res.fail("genTokens/size-brackets", pf, "the `type[size] name` form emitted by the generator must be parsed")
        return
    res.ok(tp, "generator emits types %s; all are try_parse arms; `type[size]` form handled" % sorted(types))


def _cursor_value_ok(r):
    if r in ("self.start_cursor", "self.end_cursor", "self.data.len()", "index"):
        return True
    m = re.fullmatch(r"(.+) \+ (.+)", r)
    if not m:
        return False
    a, b = m.group(1), m.group(2)
    base, off = (a, b) if a in ("self.start_cursor", "start") else (b, a)
    # an offset inside the remaining text: a name bound from a char_indices item, or its index field
    return base in ("self.start_cursor", "start") and bool(re.fullmatch(r"[A-Za-z_]\w*(\.0)?", off))


def _value_leaves(fn, e, depth=0):
    """the expressions an expression can evaluate to: arms of `match` / `if`, block tails, the default and the closure body of
    `map_or` / `map(..).unwrap_or(..)`; immutable locals bound once are replaced by their initialiser (text, normal form)"""
    from ..astq import upn, binding_before
    e = strip(e)
    if depth > 6 or not isinstance(e, Node):
        return [up(e)]
    if e.k == "match":
        out = []
        for a in e["arms"]:
            out += _value_leaves(fn, a["body"], depth + 1)
        return out
    if e.k == "if" and e.get("else") is not None:
        return _value_leaves(fn, e["then"], depth + 1) + _value_leaves(fn, e["else"], depth + 1)
    if e.k == "block" and e["stmts"] and e["stmts"][-1].k == "expr_stmt" and not e["stmts"][-1]["semi"]:
        return _value_leaves(fn, e["stmts"][-1]["e"], depth + 1)
    if e.k == "mcall" and e["method"] == "map_or" and len(e["args"]) == 2 and strip(e["args"][1]).k == "closure":
        return _value_leaves(fn, e["args"][0], depth + 1) + _value_leaves(fn, strip(e["args"][1])["body"], depth + 1)
    if e.k == "mcall" and e["method"] in ("unwrap_or", "unwrap_or_else") and len(e["args"]) == 1 and strip(e["recv"]).k == "mcall" and strip(e["recv"])["method"] == "map" \
            and len(strip(e["recv"])["args"]) == 1 and strip(strip(e["recv"])["args"][0]).k == "closure":
        d = strip(e["args"][0])
        return _value_leaves(fn, d["body"] if d.k == "closure" else d, depth + 1) + _value_leaves(fn, strip(strip(e["recv"])["args"][0])["body"], depth + 1)
    if e.k == "path" and "::" not in e["path"]:
        b = binding_before(fn, e["path"], e)
        if b is not None and b[0] == "let" and b[2] == () and b[1].get("init") is not None and b[1]["pat"].k == "p_ident" and not b[1]["pat"].get("mut"):
            return _value_leaves(fn, b[1]["init"], depth + 1)
    if e.k == "binary" and e["op"] == "+":
        l_, r_ = _value_leaves(fn, e["l"], depth + 1), _value_leaves(fn, e["r"], depth + 1)
        if len(l_) == 1 and len(r_) == 1:
            return ["%s + %s" % (l_[0], r_[0])]
    return [up(e)]


def ob_slice_provenance(ctx, res):
    """C19-P1: string slicing in the autosql parser only at cursor positions (char boundaries); no unwrap on input-derived options"""
    n = 0
    for fn in ctx.ast.fns_in(A):
        if fn.body is None:
            continue
        for x in walk_no_nested_fn(fn.body):
            if x.k == "index" and strip(x["index"]).k == "range" and up(strip(x["base"])) in ("self.data",):
                n += 1
                g = strip(x["index"])
                for side in ("from", "to"):
                    e = g.get(side)
                    if e is None:
                        continue
                    t = up(strip(e))
                    if t not in ("self.start_cursor", "self.end_cursor", "start", "end"):
                        res.fail("slice/%s" % fn.name, x, "input is sliced at `%s`, which is not one of the parser's cursors" % t)
            if x.k == "mcall" and x["method"] in ("unwrap", "expect"):
                r = up(x["recv"])
                if "parser." in r or "chars" in r or "self.data" in r:
                    res.fail("slice/unwrap/%s" % fn.name, x, "unwrap on an input-derived option: `%s`" % up(x)[:60])
    # cursor assignments: only from char_indices positions, data.len(), or another cursor
    for fn in ctx.ast.fns_in(A):
        if fn.body is None:
            continue
        for x in walk_no_nested_fn(fn.body):
            if x.k == "assign" and up(strip(x["l"])) in ("self.start_cursor", "self.end_cursor"):
                n += 1
                bad_leaf = None
                for leaf in _value_leaves(fn, x["r"]):
                    if not _cursor_value_ok(leaf):
                        bad_leaf = leaf
                if bad_leaf is None:
                    continue
                r = bad_leaf
                ok = r in ("self.start_cursor", "self.end_cursor", "self.data.len()", "index") or re.fullmatch(r"([A-Za-z_]\w*) \+ self\.start_cursor|self\.start_cursor \+ ([A-Za-z_]\w*)", r) or \
                    re.fullmatch(r"start \+ ([A-Za-z_]\w*)\.0|([A-Za-z_]\w*)\.0 \+ start", r) or re.fullmatch(r"([A-Za-z_]\w*) \+ start|start \+ ([A-Za-z_]\w*)", r)
                if not ok:
                    res.fail("cursor/%s" % fn.name, x, "cursor assigned `%s`: not a char_indices position, the data length or another cursor" % r)
    res.count("slice_and_cursor_sites", n)
    if n < 15:
        res.fail("slice/floor", A, "only %d slice/cursor sites found (expected >= 15)" % n)
        return
    if not res.violations:
        res.ok(A, "%d slice / cursor-assignment sites: input sliced only at cursors; cursors only take char_indices positions, data.len() or another cursor; no unwrap on input-derived options" % n)


def ob_parser_tables(ctx, res):
    """C19-K1: declaration list is not capped; keyword -> declaration type agrees between the top-level and the field-type parser; names are identifiers"""
    # (1) parse_declaration_list: the loop ends only on end of input (None) or an error
    fn = ctx.ast.fn(A, "parse_declaration_list")
    loops = [n for n in walk_no_nested_fn(fn.body) if n.k in ("loop", "while", "for")]
    if len(loops) != 1:
        res.undecided("parserTables/list-loop", fn, "expected one loop over the declarations, found %d" % len(loops))
        return
    if loops[0].k == "while" and strip(loops[0]["cond"]).k == "let_expr":
        # `while let Some(d) = parse_declaration(parser)? { .. }`: the loop ends exactly when no further declaration is reported
        c_ = strip(loops[0]["cond"])
        if not (up(c_["pat"]).startswith("Some(") and "parse_declaration" in origin(fn, c_["e"])):
            res.fail("parserTables/list-cap", loops[0], "the declaration loop must run until parse_declaration reports no further declaration; it runs while `%s`" % up(c_)[:80])
            return
    elif loops[0].k != "loop":
        res.undecided("parserTables/list-loop", loops[0], "declaration loop is a `%s`: its exit is not decided" % loops[0].k)
        return
    for b in [n for n in walk_no_nested_fn(loops[0]["body"]) if n.k in ("break", "return")]:
        arm = b.parent
        while arm is not None and isinstance(arm, Node) and arm.k not in ("arm", "if"):
            arm = arm.parent
        okb = arm is not None and arm.k == "arm" and up(arm["pat"]) == "None"
        if okb:
            m = arm.parent
            while m is not None and isinstance(m, Node) and m.k != "match":
                m = m.parent
            okb = m is not None and "parse_declaration" in origin(fn, m["scrut"])
        if not okb:
            res.fail("parserTables/list-cap", b,
                     "the declaration loop is left by something other than `no more declarations`: declarations after that point are never parsed (not even rejected) and the "
                     "bigBed header takes its field count from the wrong declaration (four 1-field declarations + a 5-field table: fieldCount 1)")
            return
    res.ok(loops[0], "parse_declaration_list: leaves the loop only when parse_declaration reports no further declaration (or with an error)")
    # (2) keyword -> DeclarationType in both parsers
    want = {"simple": "Simple", "object": "Object", "table": "Table"}
    pd = ctx.ast.fn(A, "parse_declaration")
    got1 = {}
    for a in walk_no_nested_fn(pd.body):
        if a.k == "arm" and a["pat"].k == "p_lit" and a["pat"]["lit"]["t"] == "str":
            mm = re.search(r"DeclarationType::(\w+)", up(a["body"]))
            if mm:
                got1[a["pat"]["lit"]["v"]] = mm.group(1)
    tp = ctx.ast.fn(A, "try_parse")
    via_helper = False
    got2 = {}
    for a in walk_no_nested_fn(tp.body):
        if a.k == "arm" and a["pat"].k == "p_lit" and a["pat"]["lit"]["t"] == "str":
            mm = re.search(r"FieldType::Declaration\(DeclarationType::(\w+)", up(a["body"]))
            if not mm:
                # the arm hands the declaration type to a helper: exactly one DeclarationType named in the arm
                alls = set(re.findall(r"DeclarationType::(\w+)", up(a["body"])))
                if len(alls) == 1:
                    got2[a["pat"]["lit"]["v"]] = alls.pop()
                    via_helper = True
            if mm:
                got2[a["pat"]["lit"]["v"]] = mm.group(1)
    for nm, got, f in (("parse_declaration", got1, pd), ("FieldType::try_parse", got2, tp)):
        if got != want:
            bad = {k: (got.get(k), v) for k, v in want.items() if got.get(k) != v}
            res.fail("parserTables/keywords/%s" % nm, f, "%s maps declaration keywords to the wrong type: %s (got, expected)" % (nm, bad))
        else:
            res.ok(f, "%s: simple/object/table -> Simple/Object/Table" % nm)
    # (4) every whitespace character ends a word: the tokenizer skips whitespace with char::is_whitespace, so a whitespace character that is not
    #     a word delimiter (a CR in a CRLF schema) is glued to the word before it and the schema is rejected
    _delimiter_clause(ctx, res)
    # (3) declaration names are identifiers: letters, digits, underscore; not starting with a digit
    dn = ctx.ast.fn(A, "parse", impl="DeclareName")
    ifs = [n for n in walk_no_nested_fn(dn.body) if n.k == "if" and "InvalidDeclareName" in up(n["then"])]
    if len(ifs) != 1:
        res.fail("parserTables/name-check", dn, "name validation not found")
        return
    ev = _name_check_eval(ctx, dn, ifs[0])
    if ev is not None:
        if ev[0] == "bad":
            res.fail("parserTables/name-charset", ifs[0],
                     "declaration names must be identifiers (letters, digits, `_`; first character a letter or `_`): the name `%s` is %s; a name such as `my_bed` rejected means "
                     "the schema does not parse and the bigBed header silently falls back to field count 3" % (ev[1], "accepted" if ev[2] else "rejected"))
        else:
            res.ok(ifs[0], "DeclareName: validation evaluated on %d names: first character letter or `_`, the rest letters, digits or `_`; the empty name is refused" % ev[1])
        return
    c = _sqz(up(ifs[0]["cond"]))
    lets = {x["pat"]["name"]: _sqz(up(x["init"])) for x in walk_no_nested_fn(dn.body) if x.k == "let" and x["pat"].k == "p_ident" and x.get("init") is not None}
    for k, v in lets.items():
        if k == "first":
            c = c.replace("first", "FIRST")
    first_ok = "FIRST.is_alphabetic||FIRST=='_'" in c or "FIRST=='_'||FIRST.is_alphabetic" in c
    rest_ok = re.search(r"\.chars\.any\|(\w)\|!\1\.is_alphanumeric\|\|\1=='_'", c) or re.search(r"\.chars\.any\|(\w)\|!\1\.is_alphanumeric&&\1!='_'", c)
    if not first_ok or not rest_ok:
        res.fail("parserTables/name-charset", ifs[0],
                 "declaration names must be identifiers (letters, digits, `_`; first character a letter or `_`): a name such as `my_bed` is otherwise rejected, the schema does not parse "
                 "and the bigBed header silently falls back to field count 3; condition: `%s`" % up(ifs[0]["cond"]))
    else:
        res.ok(ifs[0], "DeclareName: first character letter or `_`, the rest letters, digits or `_`")


def _delimiter_clause(ctx, res):
    from ..rules.interp import Interp, NotPure, _Return
    wd = ctx.ast.fn(A, "is_word_delimiter", required=False)
    if wd is None:
        res.undecided("parserTables/delimiters", A, "is_word_delimiter not found: word boundaries not decided")
        return

    def method(m, recv, args):
        if isinstance(recv, str) and len(recv) == 1 and not args:
            if m == "is_whitespace":
                return recv.isspace()
            if m == "is_ascii_whitespace":
                return recv in " \t\n\x0c\r"
            if m == "is_alphanumeric":
                return recv.isalpha() or recv.isnumeric()
            if m == "is_alphabetic":
                return recv.isalpha()
            if m == "is_ascii_punctuation":
                return recv.isascii() and not recv.isalnum() and not recv.isspace() and recv.isprintable()
        raise NotPure("method " + m)
    want = [(c_, True) for c_ in " \t\n\r\x0b\x0c\u00a0\u2003;()[],"] + [(c_, False) for c_ in "aZ_19"]
    for c_, w_ in want:
        try:
            got = Interp(ctx.ast, A, extern={"None": None, "method": method}).call(wd, [c_])
        except (NotPure, _Return) as e:
            res.undecided("parserTables/delimiters", wd, "is_word_delimiter not evaluated (%s)" % str(e)[:60])
            return
        except Exception as e:
            res.undecided("parserTables/delimiters", wd, "is_word_delimiter not evaluated (%s)" % str(e)[:60])
            return
        if bool(got) != w_:
            res.fail("parserTables/delimiters", wd, "is_word_delimiter(%r) is %s, required %s: whitespace is skipped with char::is_whitespace, so every whitespace character (CR of a CRLF "
                                                    "schema, form feed, no-break space) and `; ( ) [ ] ,` must end a word, identifier characters must not - otherwise a valid schema is "
                                                    "rejected and the bigBed header falls back to field count 3" % (c_, bool(got), w_))
            return
    res.ok(wd, "is_word_delimiter evaluated on %d characters: all whitespace and `; ( ) [ ] ,` end a word, identifier characters do not" % len(want))


_NAME_CASES = [("abc", True), ("_a1", True), ("my_bed", True), ("a1_", True), ("B", True), ("\u00e9t\u00e9", True),
               ("1ab", False), ("", False), ("a-b", False), ("-", False), ("a.b", False), ("9", False), ("a(", False)]


def _name_check_eval(ctx, dn, iff):
    """the statements of DeclareName::parse up to the validity test, run on concrete names: None | ("ok", n) | ("bad", name, accepted)"""
    from ..rules.interp import Interp, NotPure, _Return
    st = iff
    while st.parent is not None and st.parent is not dn.body:
        st = st.parent
    top = dn.body["stmts"]
    idx = [i for i, x in enumerate(top) if x is st]
    if not idx:
        return None
    pre = top[:idx[0] + 1]
    n = 0
    for name, valid in _NAME_CASES:
        box = []

        def method(m, recv, args, name=name, box=box):
            if recv == "PARSER" and m == "eat_word" and not args:
                return name
            if isinstance(recv, str) and m in ("chars",) and not args and len(recv) != 1 or (isinstance(recv, str) and m == "chars" and not args):
                return list(recv)
            if isinstance(recv, str) and m in ("to_string", "as_str", "to_owned", "trim") and not args:
                return recv if m != "trim" else recv.strip()
            if isinstance(recv, str) and m == "is_empty" and not args:
                return recv == ""
            if isinstance(recv, list) and m == "next" and not args:
                return ("some", recv[0]) if recv else None
            if isinstance(recv, list) and m in ("any", "all") and len(args) == 1:
                rs = [bool(box[0].apply_closure(args[0], [c_])) for c_ in recv]
                return any(rs) if m == "any" else all(rs)
            if isinstance(recv, list) and m == "skip" and len(args) == 1 and isinstance(args[0], int):
                return recv[args[0]:]
            if isinstance(recv, str) and len(recv) == 1 and not args:
                if m == "is_alphabetic":
                    return recv.isalpha()
                if m == "is_alphanumeric":
                    return recv.isalpha() or recv.isnumeric()
                if m == "is_ascii_alphabetic":
                    return recv.isascii() and recv.isalpha()
                if m == "is_ascii_alphanumeric":
                    return recv.isascii() and recv.isalnum()
                if m in ("is_numeric", "is_ascii_digit"):
                    return recv.isdigit()
            raise NotPure("method %s" % m)
        it = Interp(ctx.ast, A, extern={"None": None, "method": method})
        box.append(it)
        try:
            it.run_stmts(pre, {"parser": "PARSER"}, 0)
            accepted = True
        except _Return as r:
            v = r.v
            if not (isinstance(v, tuple) and v and v[0] == "err"):
                return None
            accepted = False
        except NotPure:
            return None
        except Exception:
            return None
        if accepted != valid:
            return ("bad", name, accepted)
        n += 1
    return ("ok", n)


def _sqz(t):
    return re.sub(r"[\s()]", "", t)
