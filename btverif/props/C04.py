from . import common as K

TITLE = "bigBed range queries miss no overlapping entry and return no disjoint one"
EXPLANATION = (
    "Block spans, R-tree node spans and index header bounds are proven (by idiom) to take their end from a max over ALL "
    "children, not the last one; the pruning predicate never prunes an intersecting span (exhaustive over order types); the "
    "entry keep-condition is implied by overlap and implies `not wholly outside [s,e]`; record decode layout is C10's.")
UNDECIDED = "`each once` across blocks relies on the writer never storing an entry twice (C02)."
ASSUMPTIONS = [K.A_BYTES, K.A_PRED, K.A_TABLE, "bigBed entries within a block are start-sorted (guard C13-G6)"]
OBLIGATIONS = [K.BED_SECTION_W] + K.SPANS + [K.BED_KEEP, K.OVERLAPS, K.QUERY_ARGS, K.BED_BLOCK_R, K.BED_GUARDS] + K.CIR_READER
OBLIGATIONS = OBLIGATIONS + [K.SEARCH_ORDER, K.CACHE, K.CACHED_SIBS, K.INTERVAL_SIBS]
OBLIGATIONS = OBLIGATIONS + [K.REOPEN]
OBLIGATIONS = OBLIGATIONS + [K.ARG_NAMES]
OBLIGATIONS = OBLIGATIONS + [K.INTERSECT_TOOL]
# one run per chromosome (D22): a re-appearing chromosome must be refused, else sections are out of chromosome order
OBLIGATIONS = OBLIGATIONS + [K.IDMAP]
OBLIGATIONS = OBLIGATIONS + [K.NODE_COUNTS]
