from . import common as K

TITLE = "autoSql: generated field count, schema flow, parser loop termination, slice provenance, generator tokens"
EXPLANATION = (
    "bed_autosql declares exactly 3 + e fields for every e (table + loop-range arithmetic); the tool stores the generated or the supplied "
    "schema on both input paths (file, and stdin with the first line chained back) and the header's field count is that of the last parsed declaration; "
    "the declaration list is left only at end of input (no cap), simple/object/table map to their declaration types in both parsers, names are identifiers; every loop of the parser is classified as terminating and the "
    "token loops are shown (abstract run with every token = \"\") to exit at end of input; the input is sliced only at cursor positions that "
    "are char boundaries; every type token the generator emits is an arm of the parser.")
EXPLANATION += " Since the rules were generalised: bed_autosql is evaluated for every number of extra columns e = 0..N+3 (3 + e distinct declarations each time) and the header's field count computation is evaluated for an unparsable schema, no declaration and several declarations."
UNDECIDED = "that the parser accepts every grammatical schema (no grammar is analysed); memory growth other than in the token loops."
ASSUMPTIONS = ["str::char_indices yields char boundaries", "CString::as_bytes_with_nul appends one NUL"]
OBLIGATIONS = [K.GEN_COUNT, K.SCHEMA_FLOW, K.AUTOSQL_LOOPS, K.SLICES, K.GEN_TOKENS, K.WRITER_LAYOUT[3], K.ITEMCOUNT_R, K.LOWERCASE]
OBLIGATIONS = OBLIGATIONS + [K.PARSER_TABLES]
