from . import common as K

TITLE = "bigBed write/read round trip: record layout, autoSql, item count, offsets, flush"
EXPLANATION = (
    "As C01 for the shared header/tree/index/offset machinery, plus the bigBed record layout (u32 x3, rest, NUL) on both sides, "
    "block spans covering every entry (max over ends), the autoSql C string at the recorded offset and its NUL-stripping reader, "
    "the item count (incremented once per entry, stored at fullDataOffset, read back by item_count), and the bigBed flush predicate.")
UNDECIDED = "content equality of `rest` for arbitrary UTF-8; no concrete file is produced or decoded."
ASSUMPTIONS = [K.A_BYTEORDER, K.A_BYTES, K.A_ZLIB, K.A_TABLE, K.A_PRED, "CString::as_bytes_with_nul appends exactly one NUL"]
OBLIGATIONS = ([K.BED_SECTION_W] + K.WRITER_LAYOUT + K.SPANS + [K.BED_FLUSH, K.TOTAL_ITEMS, K.WRITE_DATA, K.WRITE_MID, K.HEADER_ARGS, K.VALS_RETURNS,
               K.BUFSIZE, K.IDMAP, K.INDEX_PAIRS] + K.READER_COMMON + K.CIR_READER + [K.BED_BLOCK_R, K.ITEMCOUNT_R, K.BED_KEEP, K.QUERY_ARGS, K.OVERLAPS, K.BED_GUARDS] + [K.CONTRADICTION])
OBLIGATIONS = OBLIGATIONS + [K.BLOCK_DATA, K.SEARCH_ORDER, K.INTERVAL_SIBS]
OBLIGATIONS = OBLIGATIONS + [K.EVERY_VALUE]
# the item count of the header is the sum of the per-chromosome counts: the merge of chromosome summaries must add them unconditionally
OBLIGATIONS = OBLIGATIONS + [K.MERGE]
OBLIGATIONS = OBLIGATIONS + [K.MAGICS]
OBLIGATIONS = OBLIGATIONS + [K.ARG_NAMES]
OBLIGATIONS = OBLIGATIONS + [K.STREAM_SIBS]
OBLIGATIONS = OBLIGATIONS + [K.ZOOMCOUNT_SIBS]
OBLIGATIONS = OBLIGATIONS + [K.PROCESSOR_ARGS]
OBLIGATIONS = OBLIGATIONS + [K.PROCESS_DATA]
OBLIGATIONS = OBLIGATIONS + [K.CHROM_TREE_COUNT]
