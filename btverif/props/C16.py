from . import common as K

TITLE = "command-line conversions: compat flag table, option flow, restricted ranges, writer siblings (library part = C01-C04, C11)"
EXPLANATION = (
    "CLI-specific clauses: the UCSC spellings the property names are rewritten, unshadowed, to long flags the converter commands declare; "
    "every write option is set from the like-named flag (compress = !uncompressed), thread count 1 selects the current-thread runtime, the "
    "four (parallel x single-pass) arms build their source from the same path and parser; restricted output honours start/end only with a "
    "chromosome and queries (name, start|0, end|length); serial, threaded and from-bed text writers use identical formats; per-chromosome "
    "staging buffers are handed over in chromosome order.")
UNDECIDED = "end-to-end text equality (rests on C01-C04 for the library and on ryu/Display printing f32 round-trippably)."
ASSUMPTIONS = ["clap derives `--field-name` long flags from field names", "ryu / Display print f32 shortest-round-trip", K.A_PRED]
OBLIGATIONS = [K.COMPAT, K.OPTION_FLOW, K.RESTRICT, K.WRITER_SIBS, K.HANDOVER, K.QUEUES, K.PARSE_ERRORS, K.WIG_KEEP, K.BED_KEEP]
OBLIGATIONS = OBLIGATIONS + [K.SOURCE_SIBS]
OBLIGATIONS = OBLIGATIONS + [K.ARG_NAMES]
# the parallel source reads the chromosome index built by index_chroms: a wrong index makes it differ from the serial source (or refuse sorted input)
OBLIGATIONS = OBLIGATIONS + [o for o in (K.BISECTION, K.GROUPING, K.VIEWS) if o not in OBLIGATIONS]
