from . import common as K

TITLE = "bigBed zoom levels: depth sweep, tiling-loop clauses, record statistics normal form, layout"
EXPLANATION = (
    "As C07 for the bigBed tiling loop (same normal form as its bigWig sibling), plus the depth sweep feeding it (tail extension "
    "by exhaustive cases, increment/flush loops agreeing with the summary sweep) and the fresh-record seed (min = max = first depth).")
UNDECIDED = "the sweep/tiling invariants themselves; f32 rounding."
ASSUMPTIONS = [K.A_BYTEORDER, K.A_BYTES, K.A_TABLE, K.A_PRED, "index_list::IndexList has list semantics"]
OBLIGATIONS = [K.BED_TILING, K.BED_ZOOM_STAT, K.SWEEPS, K.ZOOM_SECTION_W, K.ZOOM_BLOCK_R, K.ZOOM_KEEP, K.ZOOM_OFFSETS, K.INDEX_PAIRS, K.BED_GUARDS, K.ZOOM_LIST]
OBLIGATIONS = OBLIGATIONS + [K.EVERY_VALUE]
OBLIGATIONS = OBLIGATIONS + [K.ZOOMCOUNT_SIBS]
OBLIGATIONS = OBLIGATIONS + [K.PROCESSOR_ARGS]
OBLIGATIONS = OBLIGATIONS + [K.PROCESS_DATA]
