from . import common as K

TITLE = "staging buffer protocol shape (premises of the hand-written delivery argument; interleavings not explored)"
EXPLANATION = (
    "Checks the protocol shape of TempFileBuffer/TempFileBufferWriter on which the delivery argument in DESIGN.md (C12) rests: the "
    "mailbox is written only by `switch` (which panics on reuse) and otherwise only polled with swap(None); the writer polls it before every "
    "write; migration copies the WHOLE staged content with `?` strictly before the state becomes Real; Drop publishes the final state "
    "under the mutex on a single path; the consumer waits for that publication before polling and copies per state exactly like the "
    "writer; neither half is Clone/Copy and consuming methods take self by value.")
EXPLANATION += " Since the rules were generalised: the writer's update/write/flush are evaluated on every (buffer state x mailbox x inmemory x failing I/O operation) with mocked sinks - one poll per non-Real state before every write, the whole staged content copied and errors propagated strictly before the state becomes Real, the caller's bytes forwarded once to the current sink."
UNDECIDED = "the exhaustive interleaving claim (model checking is a different family); atomicity of AtomicCell::swap and Condvar semantics are trusted."
ASSUMPTIONS = ["crossbeam AtomicCell::swap is atomic", "Mutex/Condvar semantics", "io::copy copies to end of stream"]
OBLIGATIONS = [K.MAILBOX, K.WRITER_WRITE, K.WRITER_UPDATE, K.WRITER_DROP, K.CONSUMER, K.STAGING_TYPES, K.HANDOVER]
OBLIGATIONS = OBLIGATIONS + [K.WITNESSES]
