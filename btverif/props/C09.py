from ..report import Ob
from . import common as K

TITLE = "every written file is a well-formed BBI file (writer vs. published format table)"
EXPLANATION = (
    "Static comparison of every emission site of the writer (write_blank_headers, write_info, write_pre x2, "
    "write_chrom_tree, write_rtreeindex, write_tree, the three section encoders) with the published BBI layout "
    "transcribed in btverif/spec/bbi_format.py: field order, widths, integer/float kind, reserved zeros, byte order, "
    "provenance of the value put in every slot (parameter position / struct field / first-last-max item), the "
    "compression tail (zlib stream, uncompressed size reported), block/R-tree spans covering their contents, and the "
    "flush predicates bounding items per block. Decides structure for every input at once.")
UNDECIDED = "that decoding a produced file yields exactly the input records (content is C01/C02's remainder); no concrete file is decoded."
ASSUMPTIONS = [K.A_BYTEORDER, K.A_ZLIB, K.A_TABLE, K.A_PRED]
OBLIGATIONS = K.WRITER_LAYOUT + [K.WIG_SECTION_W, K.BED_SECTION_W, K.ZOOM_SECTION_W] + K.SPANS + [K.WIG_FLUSH, K.BED_FLUSH, K.WRITE_DATA, K.WRITE_MID, K.HEADER_ARGS, K.BUFSIZE, K.INDEX_PAIRS, K.ZOOM_OFFSETS, K.ZOOM_LIST]
OBLIGATIONS = OBLIGATIONS + [K.TREE_OFFSETS]
OBLIGATIONS = OBLIGATIONS + [K.EVERY_VALUE]
# the item count of the header is the sum of the per-chromosome counts: the merge of chromosome summaries must add them unconditionally
OBLIGATIONS = OBLIGATIONS + [K.MERGE] + [K.TOTAL_ITEMS]
OBLIGATIONS = OBLIGATIONS + [K.MAGICS]
# one run per chromosome (D22): a re-appearing chromosome must be refused, else sections are out of chromosome order
OBLIGATIONS = OBLIGATIONS + [K.IDMAP]
OBLIGATIONS = OBLIGATIONS + [K.NODE_COUNTS, K.CHROM_TREE_COUNT]
OBLIGATIONS = OBLIGATIONS + [K.CHROM_TREE_KEY_ORDER]
