from ..report import Ob
from ..obs import wlayout as WL

TITLE = "every written file is a well-formed BBI file (writer vs. published format table)"
EXPLANATION = (
    "Static comparison of every emission site of the writer (write_blank_headers, write_info, write_pre x2, "
    "write_chrom_tree, write_rtreeindex, write_tree, the three section encoders) with the published BBI layout "
    "transcribed in btverif/spec/bbi_format.py: field order, widths, integer/float kind, reserved zeros, byte order, "
    "provenance of the value put in every slot (parameter position / struct field / first-last-max item), the "
    "compression tail (zlib stream, uncompressed size reported), and block/R-tree spans covering their contents. "
    "Decides structure for every input at once; does not decode any concrete file.")
UNDECIDED = "that decoding a produced file yields exactly the input records (content is C01/C02's remainder)"
ASSUMPTIONS = [
    "byteorder::WriteBytesExt::write_uN::<E> emits exactly N/8 bytes in order E; Write::write_all emits the slice",
    "libdeflater Compressor::zlib_compress produces a standard zlib stream",
    "the format table in btverif/spec/bbi_format.py is a faithful transcription of the published layout",
]

OBLIGATIONS = [
    Ob("C09-L1a", "R-LAYOUT", "write_blank_headers zero-fills exactly 64 + MAX_ZOOM_LEVELS*24 bytes at offset 0", WL.ob_blank_headers),
    Ob("C09-L1", "R-LAYOUT", "write_info: common header, zoom directory, total summary, data count, trailing magic as published; slot provenance", WL.ob_write_info, floor=6),
    Ob("C09-L1b", "R-LAYOUT", "bigWig write_pre: placeholders and recorded offsets", WL.ob_write_pre_bw),
    Ob("C09-L1c", "R-LAYOUT", "bigBed write_pre: autoSql C string, placeholders and recorded offsets", WL.ob_write_pre_bb, floor=2),
    Ob("C09-L2", "R-LAYOUT", "chromosome B+ tree: 32-byte header, single leaf, padded keys, sorted by id", WL.ob_chrom_tree_w, floor=3),
    Ob("C09-L3", "R-LAYOUT", "cirTree header 48 bytes with provenance", WL.ob_cir_header_w),
    Ob("C09-L4", "R-LAYOUT", "R-tree node emission (leaf 32-byte items, non-leaf 24-byte items) and size constants", WL.ob_write_tree_w, floor=3),
    Ob("C09-L4c", "R-LAYOUT", "NODEHEADER/LEAFNODE/NON_LEAFNODE size constants equal the format's", WL.ob_rtree_consts, floor=3),
    Ob("C09-L5", "R-LAYOUT", "bigWig section: 24-byte header + 12-byte bedGraph items; span; compression tail", WL.ob_wig_section_w, floor=5),
    Ob("C09-L6", "R-LAYOUT", "bigBed block: 12-byte fixed part + rest + NUL; block span covers every entry; compression tail", WL.ob_bed_section_w, floor=4),
    Ob("C09-L7", "R-LAYOUT", "zoom block: 32-byte records from like-named Summary fields; span; compression tail", WL.ob_zoom_section_w, floor=4),
    Ob("C09-E1", "R-TABLE", "one byte order in every multi-byte emission of the writer modules", WL.ob_one_endian),
]
