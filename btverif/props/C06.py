from . import common as K

TITLE = "whole-file summary statistics: accumulation normal form, sweep agreement, merge, layout and flow to the header"
EXPLANATION = (
    "Every block that accumulates a Summary on the write path is shown to be in the normal form bases+=L, min/max folded with V, "
    "sum+=L*V, sumsq+=L*V*V with one L and one V whose provenance is the item length and value (bigWig) or the flushed depth "
    "segment (bigBed); the bigBed depth sweep's tail extension is decided by exhaustive case analysis over the order types of "
    "(last segment end, item start, item end), its increment loop stops at the first segment starting at or after the end of the entry, "
    "segments without bases are skipped before the summary update, and its increment/flush loops agree with the zoom sweep; per-chromosome summaries are "
    "merged field-wise; the summary written by write_info is the one returned by write_vals*, at the offset recorded by write_pre; "
    "both readers decode it identically.")
UNDECIDED = K.A_STAT + "; correctness of the sweep beyond the decided clauses (loop invariant not proven)."
ASSUMPTIONS = [K.A_BYTEORDER, K.A_TABLE, K.A_PRED, "index_list::IndexList get_first/get_last/insert_* have list semantics"]
OBLIGATIONS = [K.WIG_SUMMARY, K.BED_SUMMARY, K.SWEEPS, K.MERGE, K.TOTAL_ITEMS, K.HEADER_ARGS, K.VALS_RETURNS, K.SUMMARY_R, K.ITEMCOUNT_R] + \
    [o for o in K.WRITER_LAYOUT if o.id in ("C09-L1", "C09-L1b", "C09-L1c")] + [K.WIG_GUARDS, K.BED_GUARDS]
OBLIGATIONS = OBLIGATIONS + [K.EVERY_VALUE]
OBLIGATIONS = OBLIGATIONS + [K.INFO_TOOLS]
OBLIGATIONS = OBLIGATIONS + [K.ZOOMCOUNT_SIBS]
OBLIGATIONS = OBLIGATIONS + [K.PROCESSOR_ARGS]
OBLIGATIONS = OBLIGATIONS + [K.PROCESS_DATA]
OBLIGATIONS = OBLIGATIONS + [K.DEPTH_PRECISION]
