from . import common as K

TITLE = "the on-disk R-tree finds what a linear scan finds (premises of the offset/coverage proof)"
EXPLANATION = (
    "Checks the code facts that the hand-written proof in DESIGN.md (C05) rests on: item sizes and strides agree between "
    "writer, constants, reader allocation and reader stride (32 / 24 / 4 / 48 bytes); spans contain everything beneath them "
    "(max over children); the pruning predicate is implied by intersection for every order type; index build and write use the "
    "same options and pass (nodes, levels, count) positionally at all four sites.")
UNDECIDED = "no tree is built for a concrete (n, b); the proof's reliance on itertools::chunks and Vec order is trusted."
ASSUMPTIONS = [K.A_BYTEORDER, K.A_BYTES, K.A_PRED, K.A_TABLE, "itertools chunks(b): every chunk but the last has exactly b elements"]
OBLIGATIONS = K.SPANS + [K.OVERLAPS, K.INDEX_PAIRS] + [o for o in K.WRITER_LAYOUT if o.id in ("C09-L3", "C09-L4", "C09-L4c")] + K.CIR_READER
OBLIGATIONS = OBLIGATIONS + [K.SEARCH_ORDER, K.RTREE_LOOP]
OBLIGATIONS = OBLIGATIONS + [K.TREE_OFFSETS]
OBLIGATIONS = OBLIGATIONS + [K.ARG_NAMES]
OBLIGATIONS = OBLIGATIONS + [K.NODE_COUNTS]
