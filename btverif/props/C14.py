from . import common as K

TITLE = "no partial file passes for a complete one; no I/O failure reported as success: header-last, must-flush, error discipline"
EXPLANATION = (
    "A non-zero magic reaches the file only through write_info, which every write entry point calls last (after at least four pipeline "
    "stages, only Ok(()) follows); the blank header is zeros; inside write_info the total summary, the item count, the trailing magic and the header from "
    "byte 4 are all emitted before the magic at byte 0, which is its last emission (each seek flushes the BufWriter), so nothing the magic vouches for is "
    "still unwritten when a reader would accept the file; the converters never report success after creating the output and then refusing the input; every BufWriter on the write path is flushed with `?` before success is "
    "reported; no Result-returning call on the write path is discarded and every joined task's Result is propagated.")
UNDECIDED = "crash points and fault sequences are not enumerated; what a reader makes of each file prefix needs the bytes."
ASSUMPTIONS = ["BufWriter::seek flushes its buffer before seeking; BufWriter::drop ignores flush errors", "a reader rejects a file whose first four bytes are zero (magic check C10-T1)"]
OBLIGATIONS = [K.MAGIC_OWNER, K.HEADER_LAST, K.MUST_FLUSH, K.ERR_DISC, K.JOIN_RESULTS, K.WRITER_LAYOUT[0], K.WRITER_LAYOUT[1], K.WRITER_UPDATE, K.CONSUMER]
# type-resolved rules over the MIR facts (tools/bt-mir)
OBLIGATIONS = OBLIGATIONS + [K.MIR_RESULTS]
OBLIGATIONS = OBLIGATIONS + [K.EMPTY_AND_TOOL_REFUSALS]
