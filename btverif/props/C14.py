from . import common as K

TITLE = "no partial file passes for a complete one; no I/O failure reported as success: header-last, must-flush, error discipline"
EXPLANATION = (
    "A non-zero magic reaches the file only through write_info, which every write entry point calls last (after at least four pipeline "
    "stages, only Ok(()) follows); the blank header is zeros; write_info starts with a seek (which flushes the BufWriter) so everything "
    "written earlier has reached the sink before the magic; every BufWriter on the write path is flushed with `?` before success is "
    "reported; no Result-returning call on the write path is discarded and every joined task's Result is propagated.")
UNDECIDED = "crash points and fault sequences are not enumerated; what a reader makes of each file prefix needs the bytes."
ASSUMPTIONS = ["BufWriter::seek flushes its buffer before seeking; BufWriter::drop ignores flush errors", "a reader rejects a file whose first four bytes are zero (magic check C10-T1)"]
OBLIGATIONS = [K.MAGIC_OWNER, K.HEADER_LAST, K.MUST_FLUSH, K.ERR_DISC, K.JOIN_RESULTS, K.WRITER_LAYOUT[0], K.WRITER_LAYOUT[1], K.WRITER_UPDATE, K.CONSUMER]
# type-resolved rules over the MIR facts (tools/bt-mir)
OBLIGATIONS = OBLIGATIONS + [K.MIR_RESULTS]
OBLIGATIONS = OBLIGATIONS + [K.EMPTY_AND_TOOL_REFUSALS, K.WRITER_LAYOUT[1]]
