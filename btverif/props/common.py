"""Shared obligation lists (one Ob instance list per mechanism; ids keep the property that owns the clause)."""
from ..report import Ob
from ..obs import wlayout as WL, rlayout as RL, spans as SP, preds as PR

A_BYTEORDER = "byteorder::WriteBytesExt::write_uN::<E> emits exactly N/8 bytes in order E; Write::write_all emits the slice"
A_BYTES = "bytes::Buf::get_* are big-endian, get_*_le little-endian, each advances the cursor by the width read; uNN::from_{be,le}_bytes decode in that order"
A_ZLIB = "libdeflater zlib_compress/zlib_decompress produce/consume standard zlib streams"
A_TABLE = "btverif/spec/bbi_format.py is a faithful transcription of the published BBI layout"
A_PRED = "comparison-only code is constant on each weak ordering of its operands (exhaustive enumeration of order types is a complete case split)"

WRITER_LAYOUT = [
    Ob("C09-L1a", "R-LAYOUT", "write_blank_headers zero-fills exactly 64 + MAX_ZOOM_LEVELS*24 bytes at offset 0", WL.ob_blank_headers),
    Ob("C09-L1", "R-LAYOUT", "write_info: common header, zoom directory, total summary, data count, trailing magic as published; slot provenance", WL.ob_write_info, floor=6),
    Ob("C09-L1b", "R-LAYOUT", "bigWig write_pre: placeholders and recorded offsets", WL.ob_write_pre_bw),
    Ob("C09-L1c", "R-LAYOUT", "bigBed write_pre: autoSql C string, placeholders and recorded offsets", WL.ob_write_pre_bb, floor=2),
    Ob("C09-L2", "R-LAYOUT", "chromosome B+ tree: 32-byte header, single leaf, padded keys, HashMap iteration sorted by id", WL.ob_chrom_tree_w, floor=3),
    Ob("C09-L3", "R-LAYOUT", "cirTree header 48 bytes with provenance", WL.ob_cir_header_w),
    Ob("C09-L4", "R-LAYOUT", "R-tree node emission (leaf 32-byte items, non-leaf 24-byte items), returned node size", WL.ob_write_tree_w, floor=3),
    Ob("C09-L4c", "R-LAYOUT", "NODEHEADER/LEAFNODE/NON_LEAFNODE size constants equal the format's", WL.ob_rtree_consts, floor=3),
    Ob("C09-E1", "R-TABLE", "one byte order in every multi-byte emission of the writer modules", WL.ob_one_endian),
]
WIG_SECTION_W = Ob("C01-L1w", "R-LAYOUT", "bigWig section encoder: 24-byte header + 12-byte items; span first/last; compress tail (zlib, uncompressed length reported)", WL.ob_wig_section_w, floor=5)
BED_SECTION_W = Ob("C02-L1w", "R-LAYOUT", "bigBed block encoder: u32x3 + rest + NUL; block span start<-first, end<-max over entries; compress tail", WL.ob_bed_section_w, floor=4)
ZOOM_SECTION_W = Ob("C07-L1w", "R-LAYOUT", "zoom block encoder: 32-byte records from like-named Summary fields; span; compress tail", WL.ob_zoom_section_w, floor=4)

SPANS = [
    Ob("C04-V2", "R-FLOW", "R-tree node bounds: start<-first child, end<-lexicographic max over all children (both node kinds)", SP.ob_rtree_node_spans, floor=2),
    Ob("C04-V2h", "R-FLOW", "index header bounds: start<-first child, end<-lexicographic max over the root's children", SP.ob_rtree_header_bounds, floor=2),
]

READER_COMMON = [
    Ob("C10-P0", "R-SIB", "every Endianness::Big arm equals its Little sibling modulo byte order (arm parity), scrutinee is the file's endianness", RL.ob_arm_parity, floor=17),
    Ob("C10-R1", "R-DISC", "no fixed/native-order multi-byte read outside a byte-order arm on the reader side", RL.ob_reader_endianness_discipline),
    Ob("C10-R2", "R-FLOW", "functions taking an Endianness are called with the header's endianness", RL.ob_endianness_args, floor=8),
    Ob("C10-L1", "R-LAYOUT", "read_info: 64-byte header, magic/byte-order table, 11 fields -> like-named BBIHeader fields; chromosome tree header", RL.ob_read_info, floor=7),
    Ob("C10-L1z", "R-LAYOUT", "read_zoom_headers: zoom_levels x 24 bytes -> ZoomHeader fields", RL.ob_read_zoom_headers, floor=2),
    Ob("C10-L2", "R-LAYOUT", "read_chrom_tree_block: node header, leaf items (key,id,size), non-leaf items (key,child offset) with recursion", RL.ob_read_chrom_tree_block, floor=3),
]
CIR_READER = [
    Ob("C10-L3h", "R-LAYOUT", "read_cir_tree_header 48 bytes; root node at index_offset + 48 on memoised and fresh paths", RL.ob_cir_header_r, floor=4),
    Ob("C10-L3n", "R-LAYOUT", "read_node: seek, 4-byte node header, leaf/non-leaf dispatch", RL.ob_read_node),
    Ob("C10-L3l", "R-LAYOUT", "leaf item iterator: stride 32, ascending byte ranges, allocation count*32", RL.ob_cir_leaf_items_r, floor=2),
    Ob("C10-L3i", "R-LAYOUT", "non-leaf item iterator: stride 24, ascending byte ranges, allocation count*24", RL.ob_cir_nonleaf_items_r, floor=2),
]
WIG_BLOCK_R = Ob("C10-L4", "R-LAYOUT", "get_block_values: 24-byte header, type 1/2/3 item decoding, unknown type -> Err, chrom filter", RL.ob_wig_block_r, floor=5)
BED_BLOCK_R = Ob("C10-L5b", "R-LAYOUT", "get_block_entries: u32x3 + rest up to NUL, both byte orders", RL.ob_bed_block_r)
ZOOM_BLOCK_R = Ob("C10-L5z", "R-LAYOUT", "get_zoom_block_values: len/32 records, u32x4 f32x4 -> like-named fields", RL.ob_zoom_block_r, floor=2)
SUMMARY_R = Ob("C10-L5s", "R-LAYOUT", "get_summary x2 identical: u64,f64x4 at totalSummaryOffset (zeros when 0), u64 count at fullDataOffset", RL.ob_summary_r, floor=3)
ITEMCOUNT_R = Ob("C10-L5c", "R-LAYOUT", "item_count (u64 at fullDataOffset) and autosql (C string at autoSqlOffset, None when 0)", RL.ob_item_count_autosql_r, floor=2)

OVERLAPS = Ob("C03-P4", "R-PRED", "overlaps o compare_position: implied by `child span shares a base with the query`, implies `touches`; compare_position lexicographic", PR.ob_overlaps, floor=3)
QUERY_ARGS = Ob("C03-F0", "R-FLOW", "block decoders receive the query (chrom,start,end) unchanged at every call site", PR.ob_query_args, floor=4)
WIG_KEEP = Ob("C03-P1", "R-PRED", "get_block_values keep-condition == value shares a base with [s,e) (3 arms), clip to [max(vs,s),min(ve,e))", PR.ob_wig_keep, floor=4)
BED_KEEP = Ob("C04-P1", "R-PRED", "get_block_entries keep-condition: implied by overlap, implies not wholly outside [s,e]", PR.ob_bed_keep)
ZOOM_KEEP = Ob("C07-P1", "R-PRED", "get_zoom_block_values keep-condition: same chromosome and intersecting (both arms)", PR.ob_zoom_keep, floor=2)
WIG_GUARDS = Ob("C13-G1", "R-PRED", "bigWig process_val refuses start>end, end>chrom length, cur.end>next.start before any state update", PR.ob_wig_guards, floor=3)
BED_GUARDS = Ob("C13-G4", "R-PRED", "bigBed process_val refuses start>end, start>=chrom length, cur.start>next.start before any state update", PR.ob_bed_guards, floor=3)
WIG_FLUSH = Ob("C01-P1", "R-PRED", "bigWig section flush iff last item or items.len() >= items_per_slot; whole buffer encoded and sent", PR.ob_wig_flush)
BED_FLUSH = Ob("C02-P1", "R-PRED", "bigBed block flush iff last item or items.len() >= items_per_slot; whole buffer encoded and sent", PR.ob_bed_flush)

from ..obs import wflow as WF, stats as ST, sweeps as SW

WRITE_DATA = Ob("C01-F2", "R-FLOW", "write_data: bytes written / Section.size are the same buffer; offset is the accumulator before +=; sequential await-write-record loop (C01-O1)", WF.ob_write_data, floor=2)
WRITE_MID = Ob("C01-F3", "R-FLOW", "write_mid: offsets re-based from pre_data; chrom tree / index positions are the tell()s right before them; section count from the index builder", WF.ob_write_mid, floor=3)
HEADER_ARGS = Ob("C01-F3c", "R-FLOW", "the four write entry points pass to write_info what the format requires in each of the 13 slots; write_mid receives pre_data and first-pass sections", WF.ob_header_args, floor=8)
VALS_RETURNS = Ob("C01-F3r", "R-FLOW", "tuple positions relied upon are what write_vals*/write_zoom_vals/write_chroms_* really return", WF.ob_vals_returns, floor=5)
BUFSIZE = Ob("C01-F4", "R-FLOW", "every reported uncompressed block size is folded into a running max that reaches the header (9 flows)", WF.ob_bufsize_flows, floor=6)
IDMAP = Ob("C01-D1", "R-DISC", "chromosome ids: monotone counter on first sight; unknown chromosome refused before an id is allocated", WF.ob_idmap, floor=3)
INDEX_PAIRS = Ob("C05-F2", "R-FLOW", "each (get_rtreeindex, write_rtreeindex) pair uses the same options and passes (nodes, levels, count) positionally", WF.ob_index_pairs, floor=4)
ZOOM_OFFSETS = Ob("C07-F1", "R-FLOW", "zoom directory entries: data_offset = tell() before the level's data, index_offset = tell() right before its index; sections re-based from data_offset", WF.ob_zoom_offsets, floor=3)

WIG_SUMMARY = Ob("C06-A1", "R-STAT", "bigWig per-chromosome summary in normal form (len=end-start, val=value), seeds and empty-chromosome reset", ST.ob_wig_summary, floor=3)
BED_SUMMARY = Ob("C06-A2", "R-STAT", "bigBed chromosome summary: the whole sweep (add_interval_to_summary) run on a stand-in depth list for small entry sequences equals the coverage depth statistics of the bases before the next entry (normal-form reading when it cannot be run)", ST.ob_bed_summary)
MERGE = Ob("C06-A3", "R-STAT", "chromosome summaries merged field-wise (+=, min, max), first taken as is", ST.ob_merge, floor=2)
TOTAL_ITEMS = Ob("C02-F1", "R-FLOW", "bigBed total_items += 1 exactly once per entry, unconditionally; destroy evaluated with and without a coverage summary: the count reaches the chromosome summary in both cases", ST.ob_total_items, floor=2)
WIG_ZOOM_STAT = Ob("C07-A1", "R-STAT", "bigWig zoom record update in normal form; fresh record seeded start=end=add_start, min=max=val", ST.ob_wig_zoom_stat)
BED_ZOOM_STAT = Ob("C08-A1", "R-STAT", "bigBed zoom record update in normal form; fresh record seeded min=max=first depth; total_items from the paired counter", ST.ob_bed_zoom_stat, floor=2)
AVG_STATS = Ob("C17-A1", "R-STAT", "stats_for_bed_item evaluated over a mocked reader: size, bases, sum, mean0, mean, min, max as defined; NaN iff nothing covered (accumulation loop read when it cannot be run)", ST.ob_avg_stats)
WIG_TILING = Ob("C07-S1w", "R-SIB", "bigWig zoom tiling loop clauses incl. cursor = max(add_end, value start) decided over order types", SW.ob_wig_tiling, floor=3)
BED_TILING = Ob("C07-S1b", "R-SIB", "bigBed zoom tiling loop clauses (same normal form as the bigWig sibling)", SW.ob_bed_tiling, floor=3)
SWEEPS = Ob("C06-S1", "R-SIB", "bigBed depth sweeps (summary vs zoom): identical increment loop, tail extension by exhaustive cases, flush loop, end-of-chromosome flush", SW.ob_sweeps, floor=7)
A_STAT = "f64 accumulation order / rounding is not analysed (the property's equality is up to floating-point summation order)"

from ..obs import staging as SG, pipeline as PL, durability as DU, termination as TM, refusal as RF

MAILBOX = Ob("C12-D1", "R-DISC", "mailbox discipline: only `switch` stores Some (panics on a second switch); every other access is swap(None)", SG.ob_mailbox)
WRITER_WRITE = Ob("C12-O1", "R-EVAL", "writer half, evaluated over the buffer states with mocked sinks: update()? first, the caller's bytes forwarded once to the current sink, flush per state", SG.ob_writer_write, floor=2)
WRITER_UPDATE = Ob("C12-O2", "R-EVAL", "update() evaluated on state x mailbox x inmemory x failing I/O operation: one poll per non-Real state; whole staged content copied, propagated with `?`, strictly before the state becomes Real", SG.ob_writer_update)
WRITER_DROP = Ob("C12-O3", "R-ORDER", "Drop for the writer half: lock -> publish state -> notify, single path", SG.ob_writer_drop)
CONSUMER = Ob("C12-O4", "R-ORDER", "await_real_file / expect_closed_write / len: wait under the mutex, then poll; copy arms per state (siblings of update)", SG.ob_consumer, floor=3)
STAGING_TYPES = Ob("C12-T1", "R-TYPE", "neither half (nor BufferState) is Clone/Copy; consuming methods take self by value; both halves share one state", SG.ob_types)
HANDOVER = Ob("C11-O1", "R-ORDER", "per chromosome: switch(dest) -> completion of the task owning the writer half -> dest = await_real_file() (5 loops incl. both CLI fan-outs)", PL.ob_handover, floor=7)
QUEUES = Ob("C11-D1", "R-DISC", "FIFO / reversed-stack discipline: queued_reads, chrom_indices, remaining_chroms; start_processing before spawn; advance in pop order", PL.ob_queues, floor=5)
FORBIDDEN = Ob("C11-D3", "R-DISC", "no completion-order / time / randomness / thread-id / try_recv construct on the write path; HashMap iteration sorted (zero-count rule + fixture)", PL.ob_forbidden)
SOURCE_SIBS = Ob("C11-S1", "R-SIB", "serial and parallel sources call do_process(val, next-iff-same-chromosome).await? (4 sites)", PL.ob_source_siblings, floor=4)
WRITER_SIBS = Ob("C11-S2", "R-SIB", "threaded / serial / from-bed text writers: identical format strings, argument order and whole-chromosome query", PL.ob_writer_siblings, floor=4)
OPTION_TAINT = Ob("C11-F1", "R-FLOW", "inmemory / channel_size / nthreads reach only staging and scheduling calls", PL.ob_option_taint)
MAGIC_OWNER = Ob("C14-H1", "R-DISC", "a non-zero magic is emitted only by write_info from its magic argument (4 call sites)", DU.ob_magic_owner)
HEADER_LAST = Ob("C14-H2", "R-ORDER", "write_info is the last file operation of all four write entry points (then Ok(()))", DU.ob_header_last, floor=4)
MUST_FLUSH = Ob("C14-F1", "R-ORDER", "every BufWriter on the write path is flushed with `?` before success is reported (output file x4, per-chromosome staging writer)", DU.ob_must_flush, floor=5)
ERR_DISC = Ob("C14-E1", "R-ERR", "no Result is discarded on the write path (statement, `let _ =`, `.ok();`)", DU.ob_err_discipline)
JOIN_RESULTS = Ob("C14-E2", "R-ERR", "the Result of every joined write task is propagated", DU.ob_join_results, floor=9)
WRITE_LOOPS = Ob("C13-T2", "R-TERM", "every loop in bbiwrite/bigwigwrite/bigbedwrite/beddata/tempfilebuffer is classified as terminating (A/B/C/R/W)", TM.ob_write_loops, floor=10)
RTREE_LOOP = Ob("C13-T1", "R-TERM", "get_rtreeindex terminates for every section count (abstract domain {0,1,>=2})", TM.ob_rtree_loop)
AUTOSQL_LOOPS = Ob("C19-M1", "R-TERM", "all loops of autosql.rs terminate; token loops exit at end of input (abstract run with every token = \"\")", TM.ob_autosql_loops, floor=4)
CHROM_ORDER = Ob("C13-G8", "R-PRED+R-EVAL", "chromosome-order refusal (serial: !allow && prev >= next; parallel: !allow && cur > next), empty input refused, foreign record in a slice refused", RF.ob_chrom_order, floor=2)
PARSE_ERRORS = Ob("C13-G9", "R-ERR", "parse_bed / parse_bedgraph / BedFileStream::next turn every missing or unparsable column into Some(Err)", RF.ob_parse_errors, floor=3)
INPUT_PANICS = Ob("C13-P1", "R-PANIC", "no unwrap/expect on a value parsed from the data input in the converter CLIs, sources and parsers", RF.ob_input_panics)

from ..obs import mergefill as MF, cli as CL, slicing as SL, autosqlobs as AQ, pyarrays as PA

MERGE_QUERY = Ob("C15-F1", "R-FLOW", "bigwigmerge queries every input over (chrom, 0, agreed size); disagreeing sizes refused", MF.ob_merge_query, floor=3)
LOWERCASE = Ob("C15-T1", "R-TABLE", "every literal compared with a lower-cased string is itself lower case (repo-wide)", MF.ob_lowercase)
OUTPUT_TYPE = Ob("C15-T2", "R-TABLE", "bigwigmerge output type table (endings, --output-type), both outputs consume the same merged iterator, bedGraph line format", MF.ob_output_type, floor=3)
TRANSFORM = Ob("C15-F2", "R-FLOW", "merged value transform: clip -> + adjust -> keep iff > threshold, applied once per data path (chunked partial merges neutral)", MF.ob_transform, floor=4)
MERGE_INTO = Ob("C15-C1", "R-CASES", "merge_into: exhaustive case analysis over order types x zero flags (pieces sorted, contiguous, cover the union, value = sum of covering inputs)", MF.ob_merge_into_cases)
FILL = Ob("C15-G1", "R-EVAL", "FillValues::next evaluated on every order type of (last_end, next.start, next.end, expected_end) x held/polled/expected shapes: fillers {last_end, next.start, 0.0} only in gaps; inputs pass unchanged; trailing filler to expected_end", MF.ob_fill)
COMPAT = Ob("C16-T1", "R-TABLE", "UCSC spellings -unc/-blockSize/-chrom/-start/-end are rewritten (no shadowing) to long flags that the converter commands declare", CL.ob_compat_table, floor=5)
OPTION_FLOW = Ob("C16-F1", "R-FLOW", "converter CLIs: flags reach the like-named write options; -t 1 -> current-thread runtime + channel 0; 4 source/pass arms consistent", CL.ob_option_flow, floor=2)
RESTRICT = Ob("C16-F2", "R-FLOW", "restricted output: start/end only with chrom; serial writer receives (chrom,start,end); query (name, start|0, end|length)", CL.ob_restrict, floor=4)
NAME_TABLE = Ob("C17-T1", "R-TABLE", "name column table (0/1/2/k>=3, interval, none) and --namecol parsing (1-based, default 4)", CL.ob_name_table, floor=2)
AVG_SIBS = Ob("C17-S1", "R-SIB", "threaded process_chunk vs serial loop: same calls, same row formats and argument lists", CL.ob_avg_siblings)
AVG_REASM = Ob("C17-D1", "R-DISC", "chunk results queued and drained FIFO, each fully copied before the next; workers read exactly their chunk's byte range", CL.ob_avg_reassembly, floor=2)
AVG_ITER = Ob("C17-S2", "R-SIB", "bigwig_average_over_bed (library iterator behind the Python binding): one line read/parsed/named/measured per step, yields (name, stats) of that row", CL.ob_avg_iterator)
VALUES_OVER_BED = Ob("C17-F1", "R-FLOW", "bigwigvaluesoverbed: per region end-start slots, slot i-start <- value covering base i", CL.ob_values_over_bed)
FV_SEEK = Ob("C18-B1", "R-EQUIV", "FileView::seek: per SeekFrom arm the absolute position equals the isolated range's position clamped to [start,end] (decided on a small domain); Ok/Err epilogues; no self-recursion", SL.ob_fileview_seek, floor=4)
FV_READ = Ob("C18-B4", "R-EQUIV", "FileView::read truncates to end-current and advances by the bytes read; new() clamps end and positions at start", SL.ob_fileview_read, floor=2)
BISECTION = Ob("C18-I1", "R-CASES", "index_chroms::do_index: every probe outcome records the probed line and recurses on both sides, or narrows the interval to (prev, mid]; arithmetic checked over all small (prev, upper)", SL.ob_bisection)
CHUNKER = Ob("C18-F1", "R-SYMX", "split_file_into_chunks_by_size: chunks start at 0, end after a full line, are contiguous, cover the file", SL.ob_chunker)
VIEWS = Ob("C18-F2", "R-EVAL", "parallel source: each chromosome reads FileView[index[i].offset, index[i+1].offset | EOF)", SL.ob_views)
GROUPING = Ob("C18-G1", "R-EVAL", "index_chroms: adjacent duplicates collapsed; ungrouped file detected by sorting a copy BY NAME and comparing lengths", SL.ob_index_grouping)
GEN_COUNT = Ob("C19-T1", "R-TABLE", "bed_autosql declares 3 + e fields for every e (FIELDS table, two loops, one declaration per iteration)", AQ.ob_generated_count)
SCHEMA_FLOW = Ob("C19-F1", "R-FLOW+R-EVAL", "schema flow: generated from the first line's rest or file verbatim; library default BED3; fieldCount from the parsed declaration", AQ.ob_schema_flow, floor=3)
GEN_TOKENS = Ob("C19-G1", "R-TABLE", "every field type the generator emits is an arm of FieldType::try_parse; sized form parsed", AQ.ob_generator_tokens)
SLICES = Ob("C19-P1", "R-PANIC", "autosql parser slices the input only at its cursors; cursors only take char boundaries; no unwrap on input-derived options", AQ.ob_slice_provenance)
MISSING_TAINT = Ob("C20-F1", "R-FLOW", "`missing` flows only to output fill, unwrap_or defaults, NaN replacement, output allocation (never a scratch accumulator)", PA.ob_missing_taint)
DIV_GUARDS = Ob("C20-N1", "R-EVAL", "every flush of a finished bin, evaluated for the mean with zero coverage, writes `missing` (the division by the covered-base count is guarded)", PA.ob_division_guards, floor=4)
BIN_SIBS = Ob("C20-S1", "R-EVAL+R-SIB", "bin routines: every flush site (in-loop and final) evaluated for min/max/mean on representative accumulators; sibling bookkeeping compared in normal form", PA.ob_bin_siblings, floor=2)
DRIVERS = Ob("C20-F2", "R-FLOW", "drivers: clamped query range, oob bins after data fill, bigWig/bigBed drivers identical", PA.ob_drivers, floor=3)
BIN_ARITH = Ob("C20-B1", "R-BOUND", "bin_bound / bin_of: exact tiling, non-empty bins, integral widths, index and span consistent - evaluated for all small (len, bins, pos)", PA.ob_bin_arithmetic)
BIN_ROUTINES = Ob("C20-B2", "R-FLOW", "four bin routines: item clamped to the range, items without a base in range skipped, bins via bin_of, spans via bin_bound", PA.ob_bin_routines, floor=4)
ZOOM_ENTRY_STAT = Ob("C20-Z1", "R-STAT", "to_entry_array_zoom: NaN->0 seed only for the mean; min/max ignore NaN", PA.ob_zoom_entry_stat)
OOB_FILL = Ob("C20-O1", "R-BOUND", "fill_out_of_bounds: exactly the bins with a base outside [0, length) become oob, indices in range - evaluated for all small (start, end, length, bins)", PA.ob_oob_fill)
PER_BASE = Ob("C20-A1", "R-EQUIV", "per-base routines: NaN-seeded, value / +1 per covering entry, NaN -> missing", PA.ob_per_base, floor=2)

from ..obs import zoomlist as ZL
ZOOM_LIST = Ob("C07-Z1", "R-SIB", "zoom size list normalised (zero-free, sorted, duplicate-free, <= MAX_ZOOM_LEVELS) before any per-level state in both pass modes; headers pushed in that order", ZL.ob_zoom_list, floor=6)
CONTRADICTION = Ob("C02-X1", "R-PRED", "contradiction rule: no record the bigBed writer accepts is refused by the block decoder", PR.ob_reader_writer_contradiction)

from ..obs import queries as QU
SEARCH_ORDER = Ob("C03-O1", "R-EVAL", "index search step and collector evaluated on a small balanced tree with mocked node reader: every node once, blocks in stored order, errors yielded; item scans in stored order; chromosome resolved by exact name", QU.ob_search_order, floor=4)
CACHE = Ob("C03-C1", "R-DISC+R-EVAL", "caching reader: key (offset,size) derives Hash+Eq; caches only get/insert/entry/len/clear/clone; values returned are clones", QU.ob_cache, floor=2)
CACHED_SIBS = Ob("C03-S2", "R-SIB", "plain vs caching reader: same read_node / nodes_overlapping arguments, same read_block_data; cached() keeps info", QU.ob_cached_siblings, floor=3)
INTERSECT_TOOL = Ob("C04-T1", "R-FLOW", "bigtools intersect: query = the line's (chrom, start, end); every returned entry printed once, unfiltered", QU.ob_intersect_tool)
INTERVAL_SIBS = Ob("C03-S3", "R-SIB+R-EVAL", "get_interval / get_interval_move (and zoom pair) agree; query reaches search and iterator unchanged; the three block iterators' next() evaluated on every 3-block scenario", QU.ob_interval_siblings, floor=9)
VALUES_ARRAY = Ob("C03-F1", "R-FLOW", "BigWigRead::values: NaN array of end-start, filled at clipped.start-start..clipped.end-start", QU.ob_values_array)
BLOCK_DATA = Ob("C10-F1", "R-FLOW", "read_block_data: block.size bytes at block.offset; zlib inflate into uncompressBufSize iff > 0", QU.ob_block_data)

from ..obs import offsets as OF
TREE_OFFSETS = Ob("C05-F1", "R-FLOW", "R-tree offset premises: level sizes, child offset = base + i*full_size by child kind, descent with accumulated offsets, levels written root->leaves", OF.ob_tree_offsets, floor=3)
EVERY_VALUE = Ob("C06-O1", "R-ORDER", "no early success exit: every accepted value reaches the summary / depth sweep, items buffer, flush test and every zoom level", SW.ob_every_value_processed, floor=6)
WINDOW_HANDOFF = Ob("C15-W2", "R-EVAL", "merge window hand-off: the run held back from the previous window is put in front of the next window's runs without changing the value of any base (evaluated, with insert_into_queue and merge_into)", MF.ob_window_handoff, floor=1)
WINDOW = Ob("C15-W1", "R-EQUIV+R-ORDER", "merge window accumulator: slot range, hold-back conditions, extent and advance decided as functions of (window start, value start/end, window size); accumulate-then-extend before any exit; f64 accumulation; zero runs dropped", MF.ob_window, floor=5)

NODE_COUNTS = Ob("C05-N1", "R-BOUND", "R-tree 16-bit child counts: block size capped at 65535 for chunking, node sizes and header", OF.ob_node_counts, floor=2)
CHROM_TREE_COUNT = Ob("C09-N2", "R-BOUND", "chromosome tree: the single leaf's 16-bit item count must be bounded (or the tree multi-level)", OF.ob_chrom_tree_count)
from ..obs import witness as WI
WITNESSES = Ob("C12-T1w", "R-TYPE", "compile_fail witnesses with compiling twins: halves not Clone, await/expect_closed_write consume the buffer, destination moved into switch", WI.ob_witnesses, floor=5, tier="thorough")

from ..obs import infotools as IT
INFO_TOOLS = Ob("C06-I1", "R-TABLE", "info tools report the stored summary: label -> expression table, identical mean/variance derivation in bigwiginfo and bigbedinfo", IT.ob_info_tools, floor=2)
MAGICS = Ob("C09-M1", "R-TABLE", "BIGWIG/BIGBED/CIR_TREE/CHROM_TREE magic constants equal the published values", WL.ob_magics, floor=4)
REOPEN = Ob("C03-R1", "R-FLOW", "reopened readers: same path reopened, info cloned, ReopenableFile forwards seek/read unchanged", QU.ob_reopen, floor=4)

from ..obs import argnames as AN
ARG_NAMES = Ob("C00-A1", "R-FLOW", "swapped-argument rule: no identifier argument is passed under the name of a different same-typed parameter of the callee (repo-wide)", AN.ob_arg_names)
STREAM_SIBS = Ob("C01-S1", "R-SIB", "iterator-backed sources (fallible/infallible) identical: stored chromosome name kept until it changes, value passed through", PL.ob_stream_siblings)
ZOOMCOUNT_SIBS = Ob("C07-Z2", "R-SIB", "first-pass zoom counters identical (bigWig/bigBed); every processor calls its per-value function unconditionally; destroy() returns the summary as accumulated", PL.ob_zoom_count_siblings, floor=9)
PROCESSOR_ARGS = Ob("C01-F5", "R-FLOW", "each processor hands its per-value function the value, the next value, the chromosome length / id and its own state (8 call sites)", SW.ob_processor_args, floor=8)
PROCESS_DATA = Ob("C01-F6", "R-FLOW", "positional hand-over structs (InternalProcessData, NoZooms.., Zooms..) are built and destructured with the same meaning per position", WF.ob_process_data_positions, floor=6)

PARSER_TABLES = Ob("C19-K1", "R-TABLE", "autoSql parser: declaration list not capped; keyword -> declaration type agrees in both parsers; names are identifiers (validity test evaluated on 13 names); every whitespace character and `;()[],` end a word (is_word_delimiter evaluated)", AQ.ob_parser_tables, floor=4)
EMPTY_AND_TOOL_REFUSALS = Ob("C13-G10", "R-ERR", "writer refuses a source that starts no chromosome; converters never return Ok(()) after creating the output", RF.ob_empty_and_tool_refusals, floor=5)
from ..obs import mirobs as MO
MIR_RESULTS = Ob("C14-E3", "R-ERR", "type-resolved (MIR): no Result produced by a call in non-test workspace code is dropped or collapsed without propagation", MO.ob_results_used, floor=1)
from ..obs import queuecap as QC
TRY_SEND_CAP = Ob("C13-Q1", "R-BOUND", "a bounded channel fed with try_send(..).unwrap() (one message per finished chromosome) is created with one slot per chromosome", QC.ob_try_send_capacity, floor=1)
MIR_DIVISION = Ob("C13-V2", "R-BOUND", "type-resolved (MIR): integer `/` and `%` on the write and merge paths divide by a non-zero constant or are confirmed sites", MO.ob_division, floor=5)
MIR_COORD_ARITH = Ob("C13-V1", "R-BOUND", "type-resolved (MIR): overflow-checked <=32-bit Add/Mul/Shl on the write and merge paths are each bounded", MO.ob_coordinate_arithmetic, floor=5)
MIR_HASH_ITER = Ob("C11-D4", "R-DISC", "type-resolved (MIR): no HashMap/HashSet iteration in library code except sorted-afterwards sites", MO.ob_hash_iteration, floor=1)
MIR_INPUT_UNWRAPS = Ob("C13-P2", "R-PANIC", "type-resolved (MIR): no unwrap/expect of a parse or I/O Result in the code that consumes the data input (zero-count, positive control elsewhere)", MO.ob_input_unwraps, floor=1)
MIR_READER_ARITH = Ob("C10-V1", "R-BOUND", "type-resolved (MIR): overflow-checked <=32-bit Add/Mul/Shl in the reader files are each bounded", MO.ob_reader_arithmetic, floor=1)
CHROM_TREE_KEY_ORDER = Ob("C09-N3", "R-TABLE", "chromosome tree leaf lists its keys in key order", OF.ob_chrom_tree_key_order)
DEPTH_PRECISION = Ob("C06-P1", "R-STAT", "bigBed coverage depth counter is exact for any number of overlapping entries", OF.ob_depth_precision)
