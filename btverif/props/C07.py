from . import common as K

TITLE = "bigWig zoom levels: tiling-loop clauses, record statistics normal form, record layout, offsets, range predicate"
EXPLANATION = (
    "The tiling loop is pinned clause by clause: record end = min(record.start + resolution, value end); bases are added only "
    "when add_end >= add_start; a record closes exactly at its resolution boundary; the cursor update is decided over all order "
    "types to be max(add_end, value start) (so no record starts inside a gap); blocks ship at items_per_slot and at the end of the "
    "chromosome; the update is in R-STAT normal form with a fresh record seeded from the value; record layout 32 B on both sides; "
    "directory offsets are the tell()s around each level's data; the zoom range predicate keeps every intersecting record.")
UNDECIDED = "the tiling loop's invariant itself (every base with data lies in exactly one record) is not proven; f32 rounding."
ASSUMPTIONS = [K.A_BYTEORDER, K.A_BYTES, K.A_TABLE, K.A_PRED]
OBLIGATIONS = [K.WIG_TILING, K.WIG_ZOOM_STAT, K.ZOOM_SECTION_W, K.ZOOM_BLOCK_R, K.ZOOM_KEEP, K.ZOOM_OFFSETS, K.INDEX_PAIRS, K.READER_COMMON[4], K.WRITER_LAYOUT[0], K.WRITER_LAYOUT[1], K.ZOOM_LIST]
OBLIGATIONS = OBLIGATIONS + [K.EVERY_VALUE]
OBLIGATIONS = OBLIGATIONS + [K.ARG_NAMES]
OBLIGATIONS = OBLIGATIONS + [K.ZOOMCOUNT_SIBS]
OBLIGATIONS = OBLIGATIONS + [K.PROCESSOR_ARGS]
OBLIGATIONS = OBLIGATIONS + [K.PROCESS_DATA]
