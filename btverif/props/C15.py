from . import common as K

TITLE = "merging and gap filling: query range, name table, transform order, merge_into case analysis, fill shape"
EXPLANATION = (
    "Decided: the merge tool queries every input from base 0 to the agreed chromosome size; every literal compared with a lower-cased "
    "string is lower case (so the documented output names are accepted); the output-type table and the shared merged iterator; the "
    "per-value transform order (clip, adjust, threshold) applied exactly once per data path including the chunked path; merge_into is "
    "decided by exhaustive symbolic case analysis over all overlapping order types and zero flags (pieces sorted, contiguous, cover the "
    "union, each carries the sum of the inputs covering it); the gap filler only inserts {last_end, next.start, 0.0} and passes inputs through.")
EXPLANATION += " Since the rules were generalised: FillValues::next is evaluated on every order type of (last_end, next.start, next.end, expected_end) x held/polled/expected shapes; the merge window's slot range, hold-back conditions, extent and advance are decided as functions of (window start, value start/end, window size), its accumulator is f64 and zero runs are dropped (the re-encoding arithmetic itself stays undecided)."
UNDECIDED = "the 50,000-base window accumulator ValueIter::next (per-base sums, run-length re-encoding across window boundaries, held-back last value): arithmetic over runtime data."
ASSUMPTIONS = [K.A_PRED, "merge_into is only called with truly overlapping non-empty values (its callers check both ends)"]
OBLIGATIONS = [K.MERGE_QUERY, K.LOWERCASE, K.OUTPUT_TYPE, K.TRANSFORM, K.MERGE_INTO, K.FILL, K.WIG_KEEP]
OBLIGATIONS = OBLIGATIONS + [K.WINDOW, K.WINDOW_HANDOFF]
# type-resolved rules over the MIR facts (tools/bt-mir)
OBLIGATIONS = OBLIGATIONS + [K.MIR_COORD_ARITH]
