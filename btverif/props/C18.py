from . import common as K

TITLE = "slicing a text input: FileView clamping, chunker contiguity, view construction, index grouping check"
EXPLANATION = (
    "FileView::seek is decided for every arm over all order types of (start, end, requested position) to hand the underlying file a "
    "position within [start, end]; read truncates to end-current; the chunker's chunks start at 0, end right after a full line and are "
    "contiguous up to the file size; the indexer's bisection handles every probe outcome (in range: record and search both sides; at or beyond the bound: narrow to (prev, mid]); the parallel source reads [index[i].offset, index[i+1].offset | EOF) under index[i].name; the index "
    "detects a chromosome occurring in two runs by sorting a copy by name.")
EXPLANATION += " Since the rules were generalised: each SeekFrom arm of FileView::seek is decided to hand the file exactly the isolated range's position clamped to [start, end] (expression equivalence on a small domain) and never to call itself; read truncates to min(len, end-current); the chunker's loop body is executed symbolically (seek candidate, read a line, position P, push (start, P), next start = P, candidate within [P, size], exit iff P >= size); the view bounds and the parallel refusal are evaluated."
UNDECIDED = ("the bisection's exactness is argued, not enumerated: C18-I1 decides the case analysis the argument rests on (every probe outcome handled, interval arithmetic, "
             "unconditional recording, skip conditions) and the grouped-file assumption (a run is contiguous) is the caller's; behaviour on ungrouped files beyond the final name check is not decided.")
ASSUMPTIONS = [K.A_PRED, "u64/i64 casts do not overflow for file offsets"]
OBLIGATIONS = [K.FV_SEEK, K.FV_READ, K.BISECTION, K.CHUNKER, K.VIEWS, K.GROUPING, K.AVG_REASM, K.SOURCE_SIBS]
