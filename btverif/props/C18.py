from . import common as K

TITLE = "slicing a text input: FileView clamping, chunker contiguity, view construction, index grouping check"
EXPLANATION = (
    "FileView::seek is decided for every arm over all order types of (start, end, requested position) to hand the underlying file a "
    "position within [start, end]; read truncates to end-current; the chunker's chunks start at 0, end right after a full line and are "
    "contiguous up to the file size; the parallel source reads [index[i].offset, index[i+1].offset | EOF) under index[i].name; the index "
    "detects a chromosome occurring in two runs by sorting a copy by name.")
UNDECIDED = "the bisection in index_chroms::do_index (where probes land inside lines): no structural clause captures it."
ASSUMPTIONS = [K.A_PRED, "u64/i64 casts do not overflow for file offsets"]
OBLIGATIONS = [K.FV_SEEK, K.FV_READ, K.CHUNKER, K.VIEWS, K.GROUPING, K.AVG_REASM, K.SOURCE_SIBS]
