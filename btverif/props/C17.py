from . import common as K

TITLE = "per-region bigWig statistics: accumulation form, name table, threaded/serial siblings, FIFO reassembly, per-base values"
EXPLANATION = (
    "stats_for_bed_item accumulates bases/sum/min/max over the values returned (already clipped: C03) by get_interval(chrom, start, end), "
    "size = end-start, mean0 = sum/size, and (mean,min,max) are NaN exactly when no base is covered; the name column table and --namecol "
    "parsing; the threaded worker and the serial loop make the same calls and print the same rows; chunk results are queued and drained "
    "FIFO and each worker reads exactly its chunk; bigwigvaluesoverbed fills slot i-start for every covered base.")
UNDECIDED = "chunking correctness is C18's; numeric formatting to 3 decimals is not analysed."
ASSUMPTIONS = [K.A_PRED, "VecDeque / crossbeam channels are FIFO"]
OBLIGATIONS = [K.AVG_STATS, K.NAME_TABLE, K.AVG_SIBS, K.AVG_REASM, K.VALUES_OVER_BED, K.WIG_KEEP, K.CHUNKER, K.FV_SEEK, K.FV_READ]
OBLIGATIONS = OBLIGATIONS + [K.ARG_NAMES, K.AVG_ITER]
