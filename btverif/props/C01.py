from . import common as K

TITLE = "bigWig write/read round trip: layout agreement writer<->reader<->format, offsets, sizes, flush, ids"
EXPLANATION = (
    "Necessary structural conditions of the round trip, decided on every path of the anchored code: the bigWig section "
    "encoder, header/chromosome-tree/index writers and the corresponding decoders agree with the published layout field by "
    "field (both byte orders on the read side); the value is written unmodified; compressed blocks report the uncompressed "
    "length and raw blocks 0; the bytes written and the recorded size are one buffer, offsets accumulate from 0 and are "
    "re-based from the data start; every header slot receives the value the format prescribes at all four write entry "
    "points; block buffer sizes reach the header as a maximum; the flush predicate (exhaustive truth table) bounds a section "
    "to items_per_slot and flushes the tail; ids follow first appearance; the chromosome table is sorted by id; read-side "
    "selection keeps exactly the overlapping values.")
UNDECIDED = ("content equality for a concrete input (no file is produced or decoded); that a wrong Vec handed to an encoder would be noticed; "
             "schedule independence is C11's.")
ASSUMPTIONS = [K.A_BYTEORDER, K.A_BYTES, K.A_ZLIB, K.A_TABLE, K.A_PRED, "futures mpsc / crossbeam channels are FIFO; Vec preserves order"]
OBLIGATIONS = ([K.WIG_SECTION_W] + K.WRITER_LAYOUT + K.SPANS + [K.WIG_FLUSH, K.WRITE_DATA, K.WRITE_MID, K.HEADER_ARGS, K.VALS_RETURNS, K.BUFSIZE,
               K.IDMAP, K.INDEX_PAIRS] + K.READER_COMMON + K.CIR_READER + [K.WIG_BLOCK_R, K.WIG_KEEP, K.QUERY_ARGS, K.OVERLAPS, K.WIG_GUARDS])
OBLIGATIONS = OBLIGATIONS + [K.BLOCK_DATA, K.SEARCH_ORDER, K.INTERVAL_SIBS]
OBLIGATIONS = OBLIGATIONS + [K.TREE_OFFSETS]
OBLIGATIONS = OBLIGATIONS + [K.EVERY_VALUE]
OBLIGATIONS = OBLIGATIONS + [K.MAGICS]
OBLIGATIONS = OBLIGATIONS + [K.ARG_NAMES]
OBLIGATIONS = OBLIGATIONS + [K.STREAM_SIBS]
OBLIGATIONS = OBLIGATIONS + [K.ZOOMCOUNT_SIBS]
OBLIGATIONS = OBLIGATIONS + [K.PROCESSOR_ARGS]
OBLIGATIONS = OBLIGATIONS + [K.PROCESS_DATA]
OBLIGATIONS = OBLIGATIONS + [K.CHROM_TREE_COUNT]
