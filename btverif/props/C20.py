from . import common as K

TITLE = "Python-binding array routines: missing-value taint, division guards, sibling agreement, clamping and oob fill, per-base form"
EXPLANATION = (
    "The `missing` parameter is shown to flow only into output fills, unwrap_or defaults, the final NaN replacement and the output "
    "allocation (never into a scratch accumulator); every mean division by a covered-base count is guarded; bins/zoom siblings share their "
    "bin bookkeeping and both flush blocks; the drivers query [max(start,0), min(end,length)) and write the out-of-bounds bins after the "
    "data, identically for bigWig and bigBed; per-base routines are NaN-seeded and replace NaN by `missing` at the end.")
UNDECIDED = "exact bin statistics for non-integral bin widths (floating-point bin edges truncated to integers)."
ASSUMPTIONS = ["f64::min/max ignore a NaN operand", K.A_PRED]
OBLIGATIONS = [K.MISSING_TAINT, K.DIV_GUARDS, K.BIN_SIBS, K.DRIVERS, K.PER_BASE]
OBLIGATIONS = OBLIGATIONS + [K.ARG_NAMES]
