from . import common as K

TITLE = "Python-binding array routines: bin arithmetic, clamping, out-of-bounds fill, missing-value taint, division guards, sibling agreement"
EXPLANATION = (
    "Bin bookkeeping is exact integer arithmetic: bin_bound/bin_of are evaluated from their source for every small (len, bins, pos) and shown to tile "
    "the range, give k*w for integral widths and assign every base to the bin whose span contains it; the four bin routines clamp each item to the "
    "range, skip items without a base in it (range queries also return touching items), index bins only through bin_of and span them only through "
    "bin_bound; fill_out_of_bounds is evaluated for every small (start, end, length, bins) and marks exactly the bins holding a base outside the "
    "chromosome with all indices in range; the drivers query [max(start,0), max(min(end,length),0)) and fill oob after the data, identically for "
    "bigWig and bigBed; per-base routines are NaN-seeded, the bigBed one clamps entries, NaN becomes `missing`; `missing` flows only into output "
    "fills and defaults; every mean division by a covered count is guarded; NaN->0 seeding is confined to the mean in the bigBed zoom routine.")
EXPLANATION += ' Since the rules were generalised: every flush of a finished bin (in-loop and final, all four routines) is evaluated for min/max/mean on uncovered, partly and fully covered accumulators (covered statistic or `missing`, never 0/0); no bound of the requested range may be cast to an unsigned type; sibling routines spelled differently are reported as undecided rather than compared textually.'
UNDECIDED = ("the accumulation inside a bin (overlap sizes, per-base depth vectors) is covered by sibling agreement and guards, not by a reference computation; "
             "floating-point rounding of means; the Python layer (argument parsing, numpy views).")
ASSUMPTIONS = ["f64::min/max ignore a NaN operand", K.A_PRED, "bigWig range queries clip values to the range (C03), bigBed and zoom queries do not"]
OBLIGATIONS = [K.BIN_ARITH, K.BIN_ROUTINES, K.OOB_FILL, K.DRIVERS, K.PER_BASE, K.ZOOM_ENTRY_STAT, K.MISSING_TAINT, K.DIV_GUARDS, K.BIN_SIBS]
OBLIGATIONS = OBLIGATIONS + [K.ARG_NAMES]
