from . import common as K

TITLE = "bigWig range queries: exactly the overlapping values, clipped, in order"
EXPLANATION = (
    "The keep-condition of every section-type arm is decided over all order types of (value start, value end, s, e) to be "
    "equivalent to the reference `nothing for an empty range; a value with bases iff it shares a base with [s,e); a value without bases iff it lies within [s,e]` "
    "(via the shared helper value_in_range, decided once over value.start <= value.end, s <= e), the clip assignments to be max/min, the three arms to be identical; the "
    "index pruning predicate (overlaps o compare_position, inlined) is implied by `child span shares a base with the query` on "
    "all chromosome x base order types so no intersecting block can be pruned; the query reaches the decoders unchanged; the "
    "decode layout is C10's.")
EXPLANATION += ' Since the rules were generalised: the index search step, its collector, the block and node caches and the three block iterators are evaluated (finite abstract interpretation over opaque atoms with a mocked node reader / decoder) to visit every node once, yield blocks in stored order, drain each block before the next and yield read errors.'
UNDECIDED = "behaviour on a concrete file; query-sequence independence beyond the absence of mutable shared state other than the two memo fields and caches."
ASSUMPTIONS = [K.A_BYTES, K.A_PRED, K.A_TABLE]
OBLIGATIONS = [K.WIG_KEEP, K.OVERLAPS, K.QUERY_ARGS, K.WIG_BLOCK_R] + K.CIR_READER + [K.READER_COMMON[0]]
OBLIGATIONS = OBLIGATIONS + [K.SEARCH_ORDER, K.CACHE, K.CACHED_SIBS, K.INTERVAL_SIBS, K.VALUES_ARRAY, K.BLOCK_DATA]
OBLIGATIONS = OBLIGATIONS + [K.REOPEN]
OBLIGATIONS = OBLIGATIONS + [K.ARG_NAMES]
