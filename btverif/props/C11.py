from . import common as K

TITLE = "output bytes independent of threads/buffering/timing: ordering discipline (schedules themselves not explored)"
EXPLANATION = (
    "Decides the discipline clauses that bound what ANY schedule can do: the real file is a moved value handed from chromosome to "
    "chromosome (switch -> completion of the writing task -> await_real_file) in every pipeline loop including the CLI fan-outs; queues "
    "are used FIFO only and the reversed index is only popped; per-chromosome processors are started before their task is spawned and "
    "advanced in the same order; sections of a chromosome are written by one sequential consumer; no completion-order, time, randomness, "
    "thread-identity or try_recv construct and no unsorted HashMap iteration exists on the write path (zero-count rule with a positive "
    "control); serial and parallel sources present the same (value, next) stream; threaded and serial text writers are identical; "
    "scheduling options reach only staging/scheduling calls.")
UNDECIDED = "the schedule quantifier itself: no interleaving is explored or modelled; the ordering argument from these premises is hand-written (DESIGN.md C11)."
ASSUMPTIONS = ["futures::mpsc, crossbeam_channel, VecDeque are FIFO", "a moved Rust value has a single owner", K.A_PRED]
OBLIGATIONS = [K.HANDOVER, K.QUEUES, K.FORBIDDEN, K.SOURCE_SIBS, K.WRITER_SIBS, K.OPTION_TAINT, K.WRITE_DATA, K.STAGING_TYPES, K.MAILBOX, K.WRITER_LAYOUT[4]]
OBLIGATIONS = OBLIGATIONS + [K.WITNESSES]
OBLIGATIONS = OBLIGATIONS + [K.STREAM_SIBS]
# in-memory vs temp-file staging and early vs late hand-over give the same bytes only if every staging arm transfers all staged bytes (seed C11b)
OBLIGATIONS = OBLIGATIONS + [K.WRITER_UPDATE, K.CONSUMER]
# type-resolved rules over the MIR facts (tools/bt-mir)
OBLIGATIONS = OBLIGATIONS + [K.MIR_HASH_ITER]
# the parallel source reads the chromosome index built by index_chroms: a wrong index makes it differ from the serial source (or refuse sorted input)
OBLIGATIONS = OBLIGATIONS + [o for o in (K.BISECTION, K.GROUPING, K.VIEWS) if o not in OBLIGATIONS]
