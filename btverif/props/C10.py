from . import common as K

TITLE = "any well-formed BBI file is read correctly (reader vs. published format table, both byte orders)"
EXPLANATION = (
    "Static comparison of every decode site of the readers with the published layout for BOTH byte orders: read_info "
    "(header, magic table), read_zoom_headers, read_chrom_tree_block (leaf and non-leaf, recursion), read_cir_tree_header, "
    "read_node, the leaf/non-leaf item iterators (strides, byte ranges, allocation sizes), get_block_values (section types "
    "1/2/3), get_block_entries, get_zoom_block_values, get_summary x2, item_count, autosql; Big/Little arm parity; byte order "
    "always derived from the header; selection predicates over all order types.")
UNDECIDED = "semantic decode of a concrete foreign file; traversal order of multi-level chromosome trees beyond layout; inflate of foreign zlib streams (library)."
ASSUMPTIONS = [K.A_BYTES, K.A_ZLIB, K.A_TABLE, K.A_PRED, "little-endian host for the magic table (magic read big-endian then compared with to_le/to_be)"]
OBLIGATIONS = K.READER_COMMON + K.CIR_READER + [K.WIG_BLOCK_R, K.BED_BLOCK_R, K.ZOOM_BLOCK_R, K.SUMMARY_R, K.ITEMCOUNT_R,
                                              K.OVERLAPS, K.QUERY_ARGS, K.WIG_KEEP, K.BED_KEEP, K.ZOOM_KEEP]
OBLIGATIONS = OBLIGATIONS + [K.BLOCK_DATA, K.SEARCH_ORDER, K.CACHE, K.CACHED_SIBS]
OBLIGATIONS = OBLIGATIONS + [K.MAGICS]
OBLIGATIONS = OBLIGATIONS + [K.ARG_NAMES]
OBLIGATIONS = OBLIGATIONS + [K.MIR_READER_ARITH]
OBLIGATIONS = OBLIGATIONS + [K.INFO_TOOLS]
