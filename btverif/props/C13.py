from . import common as K

TITLE = "unrepresentable input refused; write calls terminate: guards, chromosome order, parse errors, loop termination, blocking waits"
EXPLANATION = (
    "The six precondition guards are decided equivalent to their reference comparisons over all order types and shown to precede every "
    "state update; unknown chromosomes are refused before an id is allocated; the chromosome-order refusal, empty-input refusal (in the serial source and, for every source, in the writer once no chromosome id was handed out) and "
    "foreign-record refusal exist on the serial and parallel paths; every missing/unparsable column becomes an error value; every loop "
    "of the write path is classified as terminating (fail closed) and get_rtreeindex is shown to exit for every section count including 0; "
    "blocking waits on staging buffers are preceded by completion of the producing task; no Result is dropped; no unwrap on data-input-derived values.")
UNDECIDED = "`never panics / always returns` in general (internal-invariant panics such as channel `expect`s are not classified); progress of the tiling loops is argued, not proven."
ASSUMPTIONS = [K.A_PRED, "iterators over files, vectors and closed channels are finite", "zoom resolutions are positive (successors of 10 x4 / non-zero manual sizes)"]
OBLIGATIONS = [K.WIG_GUARDS, K.BED_GUARDS, K.IDMAP, K.CHROM_ORDER, K.PARSE_ERRORS, K.INPUT_PANICS, K.RTREE_LOOP, K.WRITE_LOOPS, K.HANDOVER, K.ERR_DISC,
               K.SOURCE_SIBS, K.JOIN_RESULTS, K.ZOOM_LIST]
OBLIGATIONS = OBLIGATIONS + [K.PROCESSOR_ARGS]
OBLIGATIONS = OBLIGATIONS + [K.PROCESS_DATA]
# the zoom tiling loops: the span end must not overflow u32 (D19: panic / hang near u32::MAX) and the cursor must advance
OBLIGATIONS = OBLIGATIONS + [K.WIG_TILING, K.BED_TILING]
# type-resolved rules over the MIR facts (tools/bt-mir)
OBLIGATIONS = OBLIGATIONS + [K.MIR_COORD_ARITH, K.MIR_DIVISION, K.MIR_INPUT_UNWRAPS, K.MIR_RESULTS]
OBLIGATIONS = OBLIGATIONS + [K.EMPTY_AND_TOOL_REFUSALS]
OBLIGATIONS = OBLIGATIONS + [K.NODE_COUNTS]
OBLIGATIONS = OBLIGATIONS + [K.TRY_SEND_CAP]
