"""R-PRED: truth table of a comparison-only condition over all order types of its terms.

The condition's leaves are compared only through <,<=,==,!=,>=,> and min/max, so
its value is constant on each *weak ordering* (total preorder) of the leaves.
Enumerating every weak ordering consistent with the side conditions is an
exhaustive case split of the input space for that condition.
"""
from __future__ import annotations
from ..astq import Node, up, strip, strip_cast
from itertools import product

CMP = {"<": lambda a, b: a < b, "<=": lambda a, b: a <= b, "==": lambda a, b: a == b, "!=": lambda a, b: a != b,
       ">=": lambda a, b: a >= b, ">": lambda a, b: a > b}


class NotComparisonOnly(Exception):
    pass


def weak_orders(n):
    """all weak orderings of n items as rank tuples (rank[i] in 0..k-1, all ranks used)."""
    if n == 0:
        yield ()
        return
    # blocks: list of lists of item indices, in ascending order
    def rec(i, blocks):
        if i == n:
            ranks = [0] * n
            for r, b in enumerate(blocks):
                for it in b:
                    ranks[it] = r
            yield tuple(ranks)
            return
        for b in range(len(blocks)):
            blocks[b].append(i)
            yield from rec(i + 1, blocks)
            blocks[b].pop()
        for gap in range(len(blocks) + 1):
            blocks.insert(gap, [i])
            yield from rec(i + 1, blocks)
            blocks.pop(gap)
    yield from rec(0, [])


class Pred:
    """compiled predicate: terms (numeric leaves), atoms (boolean leaves)."""

    def __init__(self, node, numeric_hint=None):
        self.node = node
        self.terms = {}  # canonical -> node
        self.atoms = {}  # canonical -> node
        self.numeric_hint = numeric_hint or (lambda n: False)
        self._scan(node)

    def _scan(self, n):
        n = strip(n)
        if n.k == "binary" and n["op"] in ("&&", "||"):
            self._scan(n["l"])
            self._scan(n["r"])
        elif n.k == "unary" and n["op"] == "!":
            self._scan(n["e"])
        elif n.k == "binary" and n["op"] in CMP:
            self._num(n["l"])
            self._num(n["r"])
        elif n.k == "macro" and n["path"] == "matches":
            raise NotComparisonOnly("matches! in predicate: " + up(n))
        else:
            self.atoms[self._atom_key(n)[0]] = n

    def _atom_key(self, n):
        n = strip(n)
        if n.k == "mcall" and n["method"] == "is_none" and not n["args"]:
            return (up(strip(n["recv"])) + ".is_some()", True)
        if n.k == "mcall" and n["method"] == "is_empty" and not n["args"]:
            return (up(strip(n["recv"])) + ".is_empty()", False)
        return (up(n), False)

    def _num(self, n):
        n = strip_cast(n)
        if n.k == "mcall" and n["method"] in ("min", "max") and len(n["args"]) == 1:
            self._num(n["recv"])
            self._num(n["args"][0])
            return
        if n.k == "call" and isinstance(n["func"], Node) and n["func"].k == "path" and n["func"]["path"].split("::")[-1] in ("min", "max") and len(n["args"]) == 2:
            self._num(n["args"][0])
            self._num(n["args"][1])
            return
        if n.k == "binary" and n["op"] in ("+", "-", "*", "/", "%"):
            # arithmetic: treated as one opaque term only when the obligation says so via role mapping;
            # record canonical text
            self.terms[up(n)] = n
            return
        if n.k == "lit" and n["t"] in ("int", "float"):
            self.terms["#" + str(n["v"])] = n
            return
        self.terms[up(n)] = n

    def eval(self, env, benv, n=None):
        n = strip(self.node if n is None else n)
        if n.k == "binary" and n["op"] == "&&":
            return self.eval(env, benv, n["l"]) and self.eval(env, benv, n["r"])
        if n.k == "binary" and n["op"] == "||":
            return self.eval(env, benv, n["l"]) or self.eval(env, benv, n["r"])
        if n.k == "unary" and n["op"] == "!":
            return not self.eval(env, benv, n["e"])
        if n.k == "binary" and n["op"] in CMP:
            return CMP[n["op"]](self._val(n["l"], env), self._val(n["r"], env))
        key, neg = self._atom_key(n)
        v = benv[key]
        return (not v) if neg else v

    def _val(self, n, env):
        n = strip_cast(n)
        if n.k == "mcall" and n["method"] in ("min", "max") and len(n["args"]) == 1:
            a, b = self._val(n["recv"], env), self._val(n["args"][0], env)
            return min(a, b) if n["method"] == "min" else max(a, b)
        if n.k == "call" and isinstance(n["func"], Node) and n["func"].k == "path" and n["func"]["path"].split("::")[-1] in ("min", "max") and len(n["args"]) == 2:
            a, b = self._val(n["args"][0], env), self._val(n["args"][1], env)
            return min(a, b) if n["func"]["path"].split("::")[-1] == "min" else max(a, b)
        if n.k == "lit" and n["t"] in ("int", "float"):
            return env["#" + str(n["v"])]
        return env[up(n)]


def check_table(pred, role_of, roles, side, ref, relation, const_roles=None):
    """pred: Pred; role_of: canonical term -> role name (or None);
    roles: list of all role names of the reference formula (numeric), plus boolean roles prefixed '?';
    side(env)->bool; ref(env)->bool; relation in equiv|implied_by|implies.
    Returns (rows, counterexample or None, error or None)."""
    tmap = {}
    for t in pred.terms:
        r = role_of(t, pred.terms[t])
        if r is None:
            return 0, None, "term `%s` has no role in the reference formula (idiom not recognised)" % t
        tmap[t] = r
    amap = {}
    for a in pred.atoms:
        r = role_of(a, pred.atoms[a])
        if r is None or not r.startswith("?"):
            return 0, None, "boolean atom `%s` has no role in the reference formula (idiom not recognised)" % a
        amap[a] = r
    num_roles = [r for r in roles if not r.startswith("?")]
    bool_roles = [r for r in roles if r.startswith("?")]
    for r in set(tmap.values()):
        if r not in num_roles:
            return 0, None, "role %s not declared" % r
    rows = 0
    for ranks in weak_orders(len(num_roles)):
        renv = dict(zip(num_roles, ranks))
        for bvals in product([False, True], repeat=len(bool_roles)):
            renv_b = dict(zip(bool_roles, bvals))
            full = dict(renv)
            full.update(renv_b)
            if not side(full):
                continue
            rows += 1
            env = {t: renv[r] for t, r in tmap.items()}
            benv = {a: renv_b[r] for a, r in amap.items()}
            got = pred.eval(env, benv)
            want = ref(full)
            bad = (relation == "equiv" and got != want) or (relation == "implied_by" and want and not got) or (
                relation == "implies" and got and not want)
            if bad:
                return rows, (order_str(renv, renv_b), got, want), None
    return rows, None, None


def order_str(renv, benv=None):
    by = {}
    for r, v in renv.items():
        by.setdefault(v, []).append(r)
    s = " < ".join(" = ".join(sorted(by[v])) for v in sorted(by))
    if benv:
        s += " ; " + ", ".join("%s=%s" % (k[1:], v) for k, v in sorted(benv.items()))
    return s
