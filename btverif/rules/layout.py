"""R-LAYOUT: emission / consumption sequences and their comparison with the format table.
R-FLOW (light): origin() = provenance descriptor of an expression inside one function."""
from __future__ import annotations
import re
from ..astq import Node, up, walk_no_nested_fn, strip, strip_cast, resolve_local, loc, children
from .. import astq

WRITE_W = {"write_u8": (1, "u"), "write_i8": (1, "u"), "write_u16": (2, "u"), "write_u32": (4, "u"),
           "write_u64": (8, "u"), "write_i16": (2, "u"), "write_i32": (4, "u"), "write_i64": (8, "u"),
           "write_f32": (4, "f"), "write_f64": (8, "f"), "write_u128": (16, "u")}

GET_W = {}
for _w, _names in ((1, ["u8", "i8"]), (2, ["u16", "i16"]), (4, ["u32", "i32"]), (8, ["u64", "i64"])):
    for _n in _names:
        GET_W["get_" + _n] = (_w, "u", "be" if _w > 1 else "-")
        GET_W["get_" + _n + "_le"] = (_w, "u", "le")
        GET_W["get_" + _n + "_ne"] = (_w, "u", "ne")
for _w, _n in ((4, "f32"), (8, "f64")):
    GET_W["get_" + _n] = (_w, "f", "be")
    GET_W["get_" + _n + "_le"] = (_w, "f", "le")
    GET_W["get_" + _n + "_ne"] = (_w, "f", "ne")

READ_W = {"read_u8": (1, "u"), "read_u16": (2, "u"), "read_u32": (4, "u"), "read_u64": (8, "u"),
          "read_f32": (4, "f"), "read_f64": (8, "f"), "read_i32": (4, "u"), "read_i64": (8, "u")}


class Emit:
    __slots__ = ("width", "kind", "endian", "arg", "node", "recv", "zero_lit")

    def __init__(self, width, kind, endian, arg, node, recv, zero_lit=False):
        self.width, self.kind, self.endian, self.arg, self.node, self.recv = width, kind, endian, arg, node, recv
        self.zero_lit = zero_lit

    def __repr__(self):
        return "Emit(%s%s %s <- %s)" % (self.kind, self.width, self.endian, up(self.arg) if self.arg is not None else "0")


class Group:
    """loop (`for`/`while`) or alternative (`match`/`if`) around emissions."""
    __slots__ = ("kind", "node", "parts", "label")

    def __init__(self, kind, node, parts, label=None):
        self.kind, self.node, self.parts, self.label = kind, node, parts, label

    def __repr__(self):
        return "Group(%s %r)" % (self.kind, self.parts)


class Marker:
    __slots__ = ("what", "node", "arg")

    def __init__(self, what, node, arg=None):
        self.what, self.node, self.arg = what, node, arg

    def __repr__(self):
        return "Marker(%s %s)" % (self.what, up(self.arg) if self.arg is not None else "")


def _zero_bytes(arg):
    """&[0; N] -> N (as node) ; &[b'\\0'] -> 1"""
    a = strip(arg)
    if isinstance(a, Node) and a.k == "repeat":
        e = a["e"]
        if e.k == "lit" and e["t"] in ("int", "byte") and str(e["v"]) in ("0",):
            return a["len"]
    if isinstance(a, Node) and a.k == "array" and len(a["elems"]) >= 1:
        if all(e.k == "lit" and ((e["t"] == "byte" and e["v"] == 0) or (e["t"] == "int" and e["v"] == "0")) for e in a["elems"]):
            return len(a["elems"])
    return None


def emissions(root, recv_filter=None):
    """ordered emission tree for the code under `root` (a block / stmt / expr)."""
    out = []
    _emit_rec(root, out, recv_filter)
    return out


def _emit_rec(n, out, rf):
    if not isinstance(n, Node):
        return
    k = n.k
    if k == "fn" or k == "item_stmt":
        return
    if k == "closure":
        # closures are emitted where they are defined only if they emit (e.g. map closures); keep as group
        parts = []
        _emit_rec(n["body"], parts, rf)
        if parts:
            out.append(Group("closure", n, parts))
        return
    if k == "for":
        _emit_rec(n["iter"], out, rf)
        parts = []
        _emit_rec(n["body"], parts, rf)
        if parts:
            out.append(Group("loop", n, parts))
        return
    if k in ("while", "loop"):
        if k == "while":
            _emit_rec(n["cond"], out, rf)
        parts = []
        _emit_rec(n["body"], parts, rf)
        if parts:
            out.append(Group("loop", n, parts))
        return
    if k == "if":
        _emit_rec(n["cond"], out, rf)
        a = []
        _emit_rec(n["then"], a, rf)
        b = []
        if n.get("else") is not None:
            _emit_rec(n["else"], b, rf)
        if a or b:
            out.append(Group("alt", n, [Group("branch", n["then"], a, "then"), Group("branch", n.get("else"), b, "else")]))
        return
    if k == "match":
        _emit_rec(n["scrut"], out, rf)
        arms = []
        anyp = False
        for arm in n["arms"]:
            p = []
            _emit_rec(arm["body"], p, rf)
            anyp = anyp or bool(p)
            lab = up(arm["pat"])
            arms.append(Group("branch", arm["body"] if lab in ("true", "false") else arm, p, {"true": "then", "false": "else"}.get(lab, lab)))
        if sorted(a_.label for a_ in arms) == ["else", "then"]:
            arms.sort(key=lambda a_: a_.label == "else")      # `match b { false => .., true => .. }` reads as `if b { .. } else { .. }`
        if anyp:
            out.append(Group("alt", n, arms))
        return
    if k == "mcall":
        # evaluate receiver and args first
        _emit_rec(n["recv"], out, rf)
        m = n["method"]
        for a in n["args"]:
            sa = strip(a)
            if m in ("for_each", "try_for_each", "map", "flat_map", "filter_map", "inspect", "try_fold", "fold") and isinstance(sa, Node) and sa.k == "closure":
                # `iter.for_each(|x| ..)` / `try_for_each`: the closure body runs once per item, like a `for` body
                parts = []
                _emit_rec(sa["body"], parts, rf)
                if parts:
                    out.append(Group("loop", sa, parts))
                continue
            _emit_rec(a, out, rf)
        recv = up(strip(n["recv"]))
        if rf is not None and not _rf_ok(rf, recv, n["recv"]):
            return
        if m in WRITE_W:
            w, kind = WRITE_W[m]
            tf = n.get("turbofish") or []
            endian = tf[0] if tf else ("-" if w == 1 else "?")
            arg = n["args"][0] if n["args"] else None
            out.append(Emit(w, kind, endian, arg, n, recv))
        elif m == "write_all" and len(n["args"]) == 1:
            z = _zero_bytes(n["args"][0])
            if z is not None:
                out.append(Emit(z, "z", "-", None, n, recv, True))
            else:
                out.append(Emit(None, "b", "-", n["args"][0], n, recv))
        elif m == "seek":
            out.append(Marker("seek", n, n["args"][0] if n["args"] else None))
        elif m == "tell":
            out.append(Marker("tell", n))
        elif m == "flush":
            out.append(Marker("flush", n))
        return
    if k == "macro":
        # debug_assert!(file.seek(..)) etc: not part of the release emission sequence
        if n["path"] in ("debug_assert", "debug_assert_eq", "debug_assert_ne"):
            return
        for a in n.get("args", []) or []:
            _emit_rec(a, out, rf)
        return
    for _, c in children(n):
        _emit_rec(c, out, rf)


def _rf_ok(rf, recv, node):
    try:
        return rf(recv, node)
    except TypeError:
        return rf(recv)


def flat_emits(parts):
    """flatten, dropping markers; groups are entered."""
    out = []
    for p in parts:
        if isinstance(p, Emit):
            out.append(p)
        elif isinstance(p, Group):
            out.extend(flat_emits(p.parts))
    return out


def top_emits(parts):
    return [p for p in parts if isinstance(p, Emit)]


def int_value(n, ast=None, file=None, depth=0):
    """evaluate a constant integer expression (literals, + * -, named consts)."""
    n = strip(n)
    if not isinstance(n, Node) or depth > 6:
        return None
    if n.k == "lit" and n["t"] in ("int", "byte"):
        try:
            return int(str(n["v"]).replace("_", ""))
        except ValueError:
            return None
    if n.k == "binary" and n["op"] in ("+", "*", "-"):
        a = int_value(n["l"], ast, file, depth + 1)
        b = int_value(n["r"], ast, file, depth + 1)
        if a is None or b is None:
            return None
        return {"+": a + b, "*": a * b, "-": a - b}[n["op"]]
    if n.k == "cast":
        return int_value(n["e"], ast, file, depth + 1)
    if n.k == "call" and not n["args"] and isinstance(n["func"], Node) and n["func"].k == "path" and n["func"]["path"].split("::")[-1] == "size_of":
        g = n["func"].get("generics") or []
        if len(g) == 1:
            return {"u8": 1, "i8": 1, "u16": 2, "i16": 2, "u32": 4, "i32": 4, "f32": 4, "u64": 8, "i64": 8, "f64": 8, "u128": 16, "i128": 16}.get(g[0].replace(" ", ""))
        return None
    if n.k == "path" and ast is not None:
        name = n["path"].split("::")[-1]
        for (f, nm), c in ast.consts.items():
            if nm == name and (file is None or f == file):
                return int_value(c["e"], ast, f, depth + 1)
        for (f, nm), c in ast.consts.items():
            if nm == name:
                return int_value(c["e"], ast, f, depth + 1)
    return None


# ------------------------------------------------------------------ origin
_SHORT = [False]


def origin_short(fn, n):
    """origin() with call/method arguments elided: `write_mid()#1`, `x.max()`"""
    _SHORT[0] = True
    try:
        return origin(fn, n)
    finally:
        _SHORT[0] = False


def origin(fn, n, depth=0):
    """provenance descriptor string for expression n inside fn.
    params are positional (p0, p1, ...; self = self); locals are followed through
    single `let` bindings, tuple/struct destructuring, and `for` patterns."""
    if depth > 12:
        return "?deep"
    n = strip(n)
    if not isinstance(n, Node):
        return "?"
    k = n.k
    if k == "lit":
        return "lit:" + up(n)
    if k == "cast":
        return origin(fn, n["e"], depth + 1)
    if k == "try" or k == "await":
        return origin(fn, n["e"], depth + 1)
    if k == "path":
        p = n["path"]
        if "::" in p or p[:1].isupper():
            return "const:" + p.split("::")[-1] if p.split("::")[-1].isupper() else "path:" + p
        if p == "self":
            return "self"
        s = astq.binding_before(fn, p, n)
        if s is None:
            return "free:" + p
        if s[0] == "param":
            return "p%d" % s[1]
        kind, site, path = s[0], s[1], s[-1]
        if kind == "let":
            # a `mut` local that was re-assigned before this use: follow the latest dominating assignment
            a = _last_assignment(fn, p, site, n)
            if a is not None:
                if a == "phi":
                    return "phi:" + p
                return origin(fn, a["r"], depth + 1)
            init = site.get("init")
            if init is None:
                return "letvar:" + p
            base = origin(fn, init, depth + 1)
            return base + _path_s(path)
        if kind == "for":
            return "iter(" + origin(fn, site["iter"], depth + 1) + ")" + _path_s(path)
        if kind == "arm":
            m = site.parent
            scr = origin(fn, m["scrut"], depth + 1) if m is not None and m.k == "match" else "?"
            return "arm(" + scr + ")" + _path_s(path)
        if kind == "iflet":
            return "iflet(" + origin(fn, site["e"], depth + 1) + ")" + _path_s(path)
        if kind == "closure":
            # `items.iter().for_each(|item| ..)` / try_for_each / map ..: the parameter ranges over the receiver's items, like a `for` pattern
            par = site.parent
            if par is not None and isinstance(par, Node) and par.k == "mcall" and par["method"] in ("for_each", "try_for_each", "map", "filter_map", "flat_map", "inspect") \
                    and len(site["inputs"]) == 1 and site["inputs"][0].k in ("p_ident", "p_ref", "p_tuple"):
                return "iter(" + origin(fn, par["recv"], depth + 1) + ")" + _path_s(path)
            return "cparam:" + p
        return "?" + p
    if k == "field":
        return origin(fn, n["base"], depth + 1) + "." + n["member"]
    if k == "index":
        return origin(fn, n["base"], depth + 1) + "[" + origin(fn, n["index"], depth + 1) + "]"
    if k == "mcall":
        if _SHORT[0]:
            return origin(fn, n["recv"], depth + 1) + "." + n["method"] + "()"
        return origin(fn, n["recv"], depth + 1) + "." + n["method"] + "(" + ",".join(
            origin(fn, a, depth + 1) for a in n["args"]) + ")"
    if k == "call":
        f = n["func"]
        fname = f["path"] if isinstance(f, Node) and f.k == "path" else up(f)
        if fname in ("u64::from", "u32::from", "f64::from", "usize::from", "u16::from", "Some", "Ok") and len(n["args"]) == 1:
            return origin(fn, n["args"][0], depth + 1)
        if _SHORT[0]:
            return fname.split("::")[-1] + "()"
        return fname.split("::")[-1] + "(" + ",".join(origin(fn, a, depth + 1) for a in n["args"]) + ")"
    if k == "binary":
        return "(" + origin(fn, n["l"], depth + 1) + n["op"] + origin(fn, n["r"], depth + 1) + ")"
    if k == "unary":
        return n["op"] + origin(fn, n["e"], depth + 1)
    if k == "tuple":
        return "(" + ",".join(origin(fn, e, depth + 1) for e in n["elems"]) + ")"
    if k == "struct":
        return n["path"] + "{" + ",".join(f["name"] + ":" + origin(fn, f["e"], depth + 1) for f in n["fields"]) + "}"
    if k == "if":
        e = n.get("else")
        return "if(" + up(n["cond"]) + "){" + _tail_origin(fn, n["then"], depth) + "}else{" + (
            _tail_origin(fn, e, depth) if e is not None else "") + "}"
    if k == "block":
        return _tail_origin(fn, n, depth)
    if k == "match":
        return "match(" + origin(fn, n["scrut"], depth + 1) + "){" + "|".join(
            _tail_origin(fn, a["body"], depth) for a in n["arms"]) + "}"
    if k == "macro":
        return n["path"] + "!"
    if k == "closure":
        return _closure_origin(n)
    return "?" + k


def _last_assignment(fn, name, let_site, use):
    """latest `name = expr` between the let and the use (same scope chain); 'phi' if it is conditional w.r.t. the use"""
    best = None
    for a in _assigns(fn).get(name, []):
        if let_site.order < a.order < use.order and not astq._is_ancestor(a, use):
            if best is None or a.order > best.order:
                best = a
    if best is None:
        return None
    # the use inside the RHS of the assignment itself refers to the previous value
    if astq.dominates(best, use):
        return best
    return "phi"


def _assigns(fn, _cache={}):
    key = id(fn)
    if key not in _cache or _cache[key][0] is not fn:
        d = {}
        if fn.body is not None:
            for x in walk_no_nested_fn(fn.body):
                if x.k == "assign":
                    l = strip(x["l"])
                    if isinstance(l, Node) and l.k == "path" and "::" not in l["path"]:
                        d.setdefault(l["path"], []).append(x)
        _cache[key] = (fn, d)
    return _cache[key][1]


def _closure_origin(c):
    """|x| x.f.g -> λ.f.g ; |x| (x.a, x.b) -> λ(.a,.b) ; |x| *x.1 -> λ.1 ; else λ?"""
    if len(c["inputs"]) != 1:
        return "λ?"
    p = c["inputs"][0]
    while p.k in ("p_ref", "p_type"):
        p = p["pat"]
    if p.k != "p_ident":
        return "λ?"
    var = p["name"]

    def chain(b):
        b = strip(b)
        ch = []
        while isinstance(b, Node) and b.k == "field":
            ch.append(b["member"])
            b = strip(b["base"])
        if isinstance(b, Node) and b.k == "path" and b["path"] == var:
            return "".join("." + m for m in reversed(ch))
        return None
    b = strip(c["body"])
    if b.k == "block" and len(b["stmts"]) == 1 and b["stmts"][0].k == "expr_stmt":
        b = strip(b["stmts"][0]["e"])
    if b.k == "tuple":
        parts = [chain(e) for e in b["elems"]]
        if all(x is not None for x in parts):
            return "λ(" + ",".join(parts) + ")"
        return "λ?"
    ch = chain(b)
    return "λ" + ch if ch is not None else "λ?"


def _tail_origin(fn, b, depth):
    if isinstance(b, Node) and b.k == "block":
        st = b["stmts"]
        if st and st[-1].k == "expr_stmt" and not st[-1]["semi"]:
            return origin(fn, st[-1]["e"], depth + 1)
        return "()"
    return origin(fn, b, depth + 1)


def _path_s(path):
    s = ""
    for p in path:
        if isinstance(p, int):
            s += "#%d" % p
        elif isinstance(p, tuple):
            if p[0] == "ts":
                if p[1] in ("Some", "Ok"):
                    continue
                s += "#%s.%d" % (p[1].split("::")[-1], p[2])
            else:
                s += "#[%d]" % p[1]
        else:
            s += "." + p
    return s


# ------------------------------------------------------------------ checks
def check_emit_seq(res, fn, emits, spec, prov, what, endian_ok=("NativeEndian",), allow_zero_for_reserved=True):
    """compare a flat list of Emit with a spec list [(field,width,kind)];
    prov: dict field -> set of accepted origin strings or callable(origin)->bool."""
    ok = True
    if len(emits) != len(spec):
        res.fail(what + "/count", emits[0].node if emits else fn,
                 "%s: %d emission calls, format table has %d fields (%s)" % (
                     what, len(emits), len(spec), [(e.kind, e.width) for e in emits]))
        return False
    for e, (fname, w, kind) in zip(emits, spec):
        ew = e.width
        if isinstance(ew, Node):
            ew = int_value(ew, None)
        if w is not None and ew != w:
            res.fail("%s/%s/width" % (what, fname), e.node, "%s.%s: emitted width %s, format says %d bytes" % (what, fname, ew, w))
            ok = False
            continue
        if kind == "z":
            # reserved: zero bytes or integer literal 0
            if not (e.kind == "z" or (e.arg is not None and up(strip_cast(e.arg)) == "0")):
                res.fail("%s/%s/zero" % (what, fname), e.node, "%s.%s: reserved field must be written as 0, got %s" % (
                    what, fname, up(e.arg) if e.arg is not None else e.kind))
                ok = False
            continue
        if kind in ("u", "f") and e.kind != kind:
            res.fail("%s/%s/kind" % (what, fname), e.node, "%s.%s: emitted as %s, format says %s" % (what, fname, e.kind, kind))
            ok = False
            continue
        if kind == "b" and e.kind != "b":
            res.fail("%s/%s/kind" % (what, fname), e.node, "%s.%s: expected raw bytes" % (what, fname))
            ok = False
            continue
        if e.endian not in ("-",) and endian_ok and e.endian not in endian_ok:
            res.fail("%s/%s/endian" % (what, fname), e.node, "%s.%s: byte order %s, the writer's order is %s" % (
                what, fname, e.endian, "/".join(endian_ok)))
            ok = False
        if prov and fname in prov:
            o = origin(fn, e.arg) if e.arg is not None else "zero"
            want = prov[fname]
            if callable(want):
                try:
                    good = want(o, e.arg)
                except TypeError:
                    good = want(o)
            else:
                good = o in want
            if not good:
                res.fail("%s/%s/prov" % (what, fname), e.node, "%s.%s: value written is `%s` (origin %s), expected origin %s" % (
                    what, fname, up(e.arg) if e.arg is not None else "0", o,
                    "per rule" if callable(want) else sorted(want)))
                ok = False
    return ok


# ------------------------------------------------------------------ reader side
class Take:
    __slots__ = ("width", "kind", "endian", "node", "bound", "recv")

    def __init__(self, width, kind, endian, node, bound, recv):
        self.width, self.kind, self.endian, self.node, self.bound, self.recv = width, kind, endian, node, bound, recv

    def __repr__(self):
        return "Take(%s%s %s -> %s)" % (self.kind, self.width, self.endian, self.bound)


def consumptions(root, recv_filter=None):
    """ordered bytes::Buf get_* / advance / split_to consumption under root (no alternation structure:
    call this on one arm at a time)."""
    out = []
    for n in walk_no_nested_fn(root):
        if n.k != "mcall":
            continue
        m = n["method"]
        recv = up(strip(n["recv"]))
        if recv_filter is not None and not recv_filter(recv):
            continue
        if m in GET_W and not n["args"]:
            w, kind, endian = GET_W[m]
            out.append(Take(w, kind, endian, n, _bound_name(n), recv))
        elif m in READ_W:
            w, kind = READ_W[m]
            tf = n.get("turbofish") or []
            out.append(Take(w, kind, tf[0] if tf else "rt", n, _bound_name(n), recv))
        elif m == "advance" and len(n["args"]) == 1:
            out.append(Take(n["args"][0], "skip", "-", n, None, recv))
        elif m == "split_to" and len(n["args"]) == 1:
            out.append(Take(n["args"][0], "split", "-", n, _bound_name(n), recv))
    out.sort(key=lambda t: t.node.order)
    # evaluation order: for `a.get().foo(b.get())` pre-order == eval order for our idioms
    return out


def _bound_name(n):
    """name of the `let` binding whose initialiser is (a cast/from of) n, if any."""
    p = n.parent
    child = n
    while p is not None and isinstance(p, Node):
        if p.k in ("tuple", "struct", "arm") or (p.k == "expr_stmt" and not p["semi"]):
            return "@%d" % n.order          # yielded in place (tuple element, struct field, tail expression): a synthetic name
        if p.k == "let":
            if p["pat"].k == "p_ident" and child.pkey == "init":
                return p["pat"]["name"]
            if p["pat"].k == "p_type" and p["pat"]["pat"].k == "p_ident":
                return p["pat"]["pat"]["name"]
            return None
        if p.k in ("cast", "try") or (p.k == "call" and isinstance(p["func"], Node) and p["func"].k == "path" and p["func"]["path"] in (
                "u64::from", "f64::from", "u32::from", "usize::from")):
            child = p
            p = p.parent
            continue
        return None
    return None


def yielded_name(e):
    """name of a yielded element: the variable, or the synthetic name `_bound_name` gives a read that is yielded in place"""
    s_ = e
    while isinstance(s_, Node):
        t = strip(s_)
        if t.k in ("cast", "try"):
            s_ = t["e"]
        elif t.k == "call" and isinstance(t["func"], Node) and t["func"].k == "path" and t["func"]["path"] in ("u64::from", "f64::from", "u32::from", "usize::from") and len(t["args"]) == 1:
            s_ = t["args"][0]
        else:
            s_ = t
            break
    if isinstance(s_, Node):
        if s_.k == "mcall" and (s_["method"] in GET_W or s_["method"] in READ_W):
            return "@%d" % s_.order
        if s_.k == "call" and isinstance(s_["func"], Node) and s_["func"].k == "path" and re.search(r"::from_(be|le|ne)_bytes$", s_["func"]["path"]):
            return "@%d" % s_.order
    return up(strip(e))


def from_bytes_reads(root):
    """uNN::from_{be,le}_bytes([b[i],...]) reads: list of (type, endian, base, [indices], bound, node)."""
    out = []
    for n in walk_no_nested_fn(root):
        if n.k == "call" and isinstance(n["func"], Node) and n["func"].k == "path":
            p = n["func"]["path"]
            for ty in ("u16", "u32", "u64", "f32", "f64", "i32"):
                for en in ("be", "le", "ne"):
                    if p == "%s::from_%s_bytes" % (ty, en) and len(n["args"]) == 1:
                        arr = strip(n["args"][0])
                        idx = []
                        base = None
                        good = isinstance(arr, Node) and arr.k == "array"
                        if good:
                            for e in arr["elems"]:
                                e = strip(e)
                                if e.k == "index":
                                    b = up(strip(e["base"]))
                                    if base is None:
                                        base = b
                                    elif base != b:
                                        good = False
                                    iv = int_value(e["index"])
                                    idx.append(iv)
                                else:
                                    good = False
                        out.append({"ty": ty, "endian": en, "base": base, "idx": idx if good else None,
                                    "bound": _bound_name(n), "node": n})
    out.sort(key=lambda d: d["node"].order)
    return out
